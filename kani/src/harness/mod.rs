//! One module per family; harness names are prefixed with the property id (c17_, c18_, c20_,
//! c05_).  Each property is behind a cargo feature so that `run.py --property X` only pays the
//! (per-harness) Kani code generation of that property.
pub mod util;

#[cfg(feature = "c05")]
mod c05_deadline;

#[cfg(feature = "c17")]
pub mod c17_arith;
#[cfg(feature = "c17")]
mod c17_bitwise;
#[cfg(feature = "c17")]
mod c17_boolean;
#[cfg(feature = "c17")]
mod c17_memcopy;
#[cfg(feature = "c17")]
mod c17_stackops;
#[cfg(feature = "c17")]
mod c17_uints;

#[cfg(feature = "c18")]
mod c18_bytecode;
#[cfg(feature = "c18")]
mod c18_memregion;
#[cfg(feature = "c18")]
mod c18_stack;

#[cfg(feature = "c20")]
mod c20_ethaddress;
