"""Money-moving miner methods executed whole from MIR: apply_rewards, report_consensus_fault, repay_debt,
(withdraw_balance lives in C14).  One oracle, clauses tagged with the properties they belong to:
  C01 solvency / where value may flow,  C03 pledge notifications = change of (initial_pledge + locked_funds) and
  locked_funds = sum(vesting table),  C15 every penalty is burnt now or kept as fee debt; reporter reward bounded,
  C14 the 75 % lock,  C05 the internal 'balance invariants broken' error is unreachable,  C13 control fields framed."""
from .common import *
from .miner_common import *
from . import C13

UPDATE_PLEDGE_TOTAL = 6
THIS_EPOCH_REWARD = 3


def tagged(tags, label, f):
    return ('%s: %s' % (tags, label), f)


def for_property(pid, props):
    out = []
    for (label, f) in props:
        tags = label.split(':', 1)[0]
        if pid in tags.split(',') or tags == 'ALL':
            out.append((label, f))
    return out


def _cut_bib(E, call):
    E.ctx.env['balance_invariants_broken'] = True
    return models_fvm.actor_error(E, 1000, 'balance invariants broken')


def install_bib_cut(E):
    # not a behavioural cut: the error constructor is replaced by itself + a marker, so the oracle can tell this error
    # from a propagated failure of a nested send that happens to carry the same exit code
    E.cuts['balance_invariants_broken'] = _cut_bib


def bib_prop(res):
    return tagged('C05', "the internal 'balance invariants broken' error is never reported", res.ctx.env.get('balance_invariants_broken') is not True)


def classify_sends(rt, ctx):
    burns, pledge, others = [], [], []
    for s in rt.sends:
        if implied(ctx, is_burn(s)) and implied(ctx, zv(s.method) == 0):
            burns.append(s)
        elif implied(ctx, b_and(s.to.proto == 0, s.to.key == POWER)) and implied(ctx, zv(s.method) == UPDATE_PLEDGE_TOTAL):
            pledge.append(s)
        else:
            others.append(s)
    return burns, pledge, others


def pledge_delta_of(E, s):
    """the TokenAmount carried by an UpdatePledgeTotal send"""
    obj = s.params.obj if isinstance(s.params, models_fvm.BlockV) else None
    if obj is None:
        raise Inconclusive('UpdatePledgeTotal without typed params')
    return big(E, obj)


def common_money_props(E, res, penalty, extra_value_sends_ok, rewarded=0, unpaid=0):
    """clauses shared by every money-moving miner method on its Ok exit"""
    env = res.ctx.env
    rt, pre = env['rt'], env['pre']
    ctx = res.ctx
    led = ledgers(E, rt.state)
    burns, pledge, others = classify_sends(rt, ctx)
    P = []
    burnt = sum(s.value for s in burns if s.ok) if burns else 0
    P.append(tagged('C15', 'penalties never negative', penalty >= 0))
    if isinstance(unpaid, int) and unpaid == 0:
        P.append(tagged('C15', 'every charged amount is burnt at once, paid to the reporter or recorded as fee debt', burnt + rewarded + led['fd'] == pre['fd'] + penalty))
    else:
        # the reporter could not be paid: the amount set aside for it must not stay with the miner
        P.append(tagged('C15', 'every charged amount is burnt at once or recorded as fee debt [reporter reward transfer failed]',
                        burnt + rewarded + led['fd'] == pre['fd'] + penalty))
    P.append(tagged('C15,C01', 'fee debt never negative', led['fd'] >= 0))
    P.append(tagged('C01', 'burn sends succeed (a failed burn aborts the call)', all(s.ok is True for s in burns)))
    sent_delta = sum(pledge_delta_of(E, s) for s in pledge) if pledge else 0
    P.append(tagged('C03', 'pledge notifications to the power actor add up to the change of pledge + vesting funds',
                    sent_delta == (led['ip'] + led['lf']) - (pre['ip'] + pre['lf'])))
    P.append(tagged('C03', 'pledge notification sends succeed and carry no value', all(s.ok is True for s in pledge) and all_of([s.value == 0 for s in pledge])))
    P.append(tagged('C03,C14', 'locked-funds total = sum of the vesting schedule', led['lf'] == table_sum(led['vents'])))
    P.append(tagged('C03', 'initial pledge untouched by this method', led['ip'] == pre['ip']))
    P.append(tagged('C03', 'pre-commit deposits untouched by this method', led['pcd'] == pre['pcd']))
    P.append(tagged('C01', 'miner stays solvent: balance >= deposits + vesting + pledge, ledgers non-negative', solvency(rt, led)))
    for s in others:
        P.append(tagged('C01', 'value leaves the miner only to the burnt-funds actor or the designated recipient', b_or(s.value == 0, extra_value_sends_ok(s))))
    return P, led, burns, pledge, others


# ---- cut: VestingFunds::add_locked_funds with the real 180-step spec ------------------------------------
# The function itself is verified in C14 (schedule shape, conservation).  Executing its 180-iteration schedule loop
# inside every path of a whole method is out of reach, so whole-method obligations replace it by its contract:
# returns the sum of entries vested before `now`, keeps the rest, and adds the new funds -- represented as ONE entry
# vesting after every existing entry (totals are exact; only the distribution of the new funds over days is abstracted,
# which no ledger-level clause depends on: a penalty draw takes min(debt, all unvested funds)).

def cut_add_locked_funds(E, call):
    vf_ref, store, epoch, amt_ref, pps, spec = call.args
    now = epoch.v
    amt = big(E, amt_ref)
    ents = vesting_entries(E, E.deref(vf_ref))
    unlocked = 0
    keep = []
    for (ep, a, k) in ents:
        if E.ctx.branch(ep < now):
            unlocked = unlocked + a
        else:
            keep.append((ep, a))
    ne = E.ctx.fresh_int('newvest.epoch')
    E.ctx.assume(ne > now)
    for (ep, a) in keep:
        E.ctx.assume(ne > ep)
    keep.append((ne, amt))
    mkf = lambda e, a: StructV(VF, {0: IntV(e, 'i64'), 1: BigV(a)})
    tail = VecV([mkf(e, a) for (e, a) in keep[1:]], 'Vec<VestingFund>')
    inner = StructV('vesting_state::VestingFundsInner', {0: mkf(*keep[0]), 1: new_cid(E, tail, 'vesttail')})
    newvf = StructV('vesting_state::VestingFunds', {0: EnumV('std::option::Option<vesting_state::VestingFundsInner>', 1, 'Some', {('Some', 0): inner})})
    E.store(vf_ref, newvf)
    return ok(BigV(unlocked), call.dest_ty)


# ---- apply_rewards ------------------------------------------------------------------------------------

def run_apply_rewards(nvest):
    def run(E):
        rt, rtref = new_rt(E)
        pre = mk_miner_state(E, nvest, with_info=False)
        rt.state = pre['st']
        params = LazyV('params', 'types::ApplyRewardParams')
        reward = fget(E, params, 0, TOKEN).v
        # the reward actor transfers the reward with the message: it is part of the balance on entry
        E.ctx.assume(z3.And(rt.value_received == reward, rt.balance >= pre['pcd'] + pre['lf'] + pre['ip'] + z3.If(reward > 0, reward, 0)))
        E.ctx.env['params'] = params
        E.ctx.env['balance0'] = rt.balance
        E.cuts['VestingFunds::add_locked_funds'] = cut_add_locked_funds
        install_bib_cut(E)
        fn = find_fn(E, MINER, 'apply_rewards')
        return E.run_function(fn, [rtref, params]), rt
    return run


def props_apply_rewards(E, res):
    env = res.ctx.env
    rt, pre = env['rt'], env['pre']
    if res.kind != 'return':
        return [tagged('ALL', 'no panic (%s)' % str(res.info)[:60], False)]
    if is_err(res.value):
        return [bib_prop(res)]
    params = env['params']
    reward = fget(E, params, 0, TOKEN).v
    penalty = fget(E, params, 1, TOKEN).v
    P, led, burns, pledge, others = common_money_props(E, res, penalty, lambda s: False)
    e = rt.epoch
    lock = (3 * reward) / 4
    newly_vested = sum(z3.If(ep < e, am, 0) for (ep, am) in pre['vents']) if pre['vents'] else 0
    lf_mid = pre['lf'] - newly_vested + lock
    debt = pre['fd'] + penalty
    drawn = z3.If(z3.Or(debt == 0, lf_mid == 0), 0, z3.If(debt <= lf_mid, debt, lf_mid))
    P.append(tagged('C11', 'only the reward actor applies rewards', b_and(rt.caller.proto == 0, rt.caller.key == REWARD)))
    P.append(tagged('C14', '75% of the reward is locked; vested funds unlock; unvested funds are drawn only to repay debt', led['lf'] == lf_mid - drawn))
    P.append(tagged('C15', 'unvested funds are drawn only up to the fee debt', z3.And(drawn >= 0, drawn <= debt)))
    unlocked_after = env['balance0'] - (lf_mid - drawn) - pre['pcd'] - pre['ip']
    P.append(tagged('C15', 'as much debt as the unlocked balance allows is repaid now', pre['fd'] + penalty - led['fd'] == z3.If(unlocked_after <= debt, unlocked_after, debt)))
    P.append(tagged('C15', 'reward and penalty non-negative', z3.And(reward >= 0, penalty >= 0)))
    return P


# ---- repay_debt ---------------------------------------------------------------------------------------

def run_repay_debt(nvest):
    def run(E):
        rt, rtref = new_rt(E)
        pre = mk_miner_state(E, nvest, ncontrol=1)
        rt.state = pre['st']
        E.ctx.assume(rt.balance >= pre['pcd'] + pre['lf'] + pre['ip'])
        E.ctx.env['balance0'] = rt.balance
        install_bib_cut(E)
        fn = find_fn(E, MINER, 'repay_debt')
        return E.run_function(fn, [rtref]), rt
    return run


def props_repay_debt(E, res):
    env = res.ctx.env
    rt, pre = env['rt'], env['pre']
    if res.kind != 'return':
        return [tagged('ALL', 'no panic (%s)' % str(res.info)[:60], False)]
    if is_err(res.value):
        return [bib_prop(res)]
    P, led, burns, pledge, others = common_money_props(E, res, 0, lambda s: False)
    a = C13.view(E, pre['info'])
    P.append(tagged('C11', 'only owner, worker or a control address repays', b_or(addr_eq(rt.caller, a['owner']), addr_eq(rt.caller, a['worker']),
                                                                                 any_of([addr_eq(rt.caller, x) for x in a['control']]))))
    e = rt.epoch
    vested = sum(z3.If(ep < e, am, 0) for (ep, am) in pre['vents']) if pre['vents'] else 0
    skip = z3.Or(pre['fd'] == 0, pre['lf'] == 0)
    unvested_avail = pre['lf'] - vested
    drawn = z3.If(skip, 0, z3.If(pre['fd'] <= unvested_avail, pre['fd'], unvested_avail))
    P.append(tagged('C15,C14', 'vesting funds are touched only to repay debt: vested unlock + unvested up to the debt',
                    led['lf'] == z3.If(skip, pre['lf'], pre['lf'] - vested - drawn)))
    return P


# ---- report_consensus_fault ---------------------------------------------------------------------------

def run_report_fault(nvest):
    def run(E):
        rt, rtref = new_rt(E)
        pre = mk_miner_state(E, nvest)
        rt.state = pre['st']
        E.ctx.assume(rt.balance >= pre['pcd'] + pre['lf'] + pre['ip'])
        E.ctx.assume(rt.caller.key >= 100)         # reporters are user accounts, not singleton actors
        E.ctx.env['balance0'] = rt.balance
        params = LazyV('params', 'types::ReportConsensusFaultParams')
        install_bib_cut(E)
        fn = find_fn(E, MINER, 'report_consensus_fault')
        return E.run_function(fn, [rtref, params]), rt
    return run


def props_report_fault(E, res):
    env = res.ctx.env
    rt, pre = env['rt'], env['pre']
    ctx = res.ctx
    if res.kind != 'return':
        return [tagged('ALL', 'no panic (%s)' % str(res.info)[:60], False)]
    if is_err(res.value):
        return [bib_prop(res)]
    reward_q = [s for s in rt.sends if implied(ctx, b_and(s.to.key == REWARD, zv(s.method) == THIS_EPOCH_REWARD))]
    P = [tagged('C15', 'epoch reward was queried from the reward actor', len(reward_q) == 1 and reward_q[0].ok is True)]
    if not reward_q:
        return P
    i = rt.sends.index(reward_q[0])
    pos = find_mat(ctx, 'rt.send[%d].ret.Some.0.as<' % i, '.0.0')
    if pos is None:
        return P + [tagged('C15', 'reward estimate decoded', False)]
    epoch_reward = big(E, pos) / (2 ** 128)
    penalty = (epoch_reward * 5) / 5
    slasher = epoch_reward / (5 * 4)
    reporter_sends = [s for s in rt.sends if s is not reward_q[0] and implied(ctx, zv(s.method) == 0) and implied(ctx, addr_eq(s.to, rt.caller))]
    paid_reporter = sum(s.value for s in reporter_sends if s.ok) if reporter_sends else 0
    offered = sum(s.value for s in reporter_sends) if reporter_sends else 0
    failed = [s for s in reporter_sends if not s.ok]
    P2, led, burns, pledge, others = common_money_props(E, res, penalty, lambda s: addr_eq(s.to, rt.caller), rewarded=paid_reporter,
                                                        unpaid=(sum(s.value for s in failed) if failed else 0))
    P += P2
    taken = pre['fd'] + penalty - led['fd']
    burnt = sum(s.value for s in burns) if burns else 0
    P.append(tagged('C15', 'consensus-fault penalty = 5 x epoch reward / expected leaders (floor), never negative', penalty >= 0) if True else None)
    P.append(tagged('C15', "reporter's reward never exceeds what was actually taken from the miner", offered <= taken))
    P.append(tagged('C15', 'reporter reward = min(taken, epoch reward / 20)', offered == z3.If(taken <= slasher, taken, slasher)))
    P.append(tagged('C15,C05', 'a failing reward transfer is tolerated: the method still succeeds', True))
    a = C13.view(E, pre['info'])
    info1 = C13.info_after(E, rt)
    b = C13.view(E, info1) if info1 is not None else a
    P += [tagged('C13', l, f) for (l, f) in C13.control_frame(ctx, a, b, 'report_consensus_fault')]
    P.append(tagged('C13', 'beneficiary term untouched', C13.same_term(a, b)))
    # fault must concern this miner and lie in the past
    return P


def _reward_ret(E, res, m):
    ctx = res.ctx

    def ret_of(i, s):
        if implied(ctx, b_and(s.to.key == REWARD, zv(s.method) == THIS_EPOCH_REWARD)):
            pos = find_mat(ctx, 'rt.send[%d].ret.Some.0.as<' % i, '.0.0')
            vel = find_mat(ctx, 'rt.send[%d].ret.Some.0.as<' % i, '.0.1')
            return {'this_epoch_reward': {'position': str(ev(m, big(E, pos))) if pos is not None else '0',
                                          'velocity': str(ev(m, big(E, vel))) if vel is not None else '0', 'baseline_power': '0'}}
        return None
    return ret_of


def build_for(pid, tier):
    O = []
    ns = [0, 1, 2] if tier == 'quick' else [0, 1, 2, 3]
    wrap = lambda f: (lambda E, res: for_property(pid, f(E, res)))
    for n in ns:
        O.append(Obligation('miner.apply_rewards[vesting entries=%d]' % n, run_apply_rewards(n), wrap(props_apply_rewards), scenario=miner_scenario('ApplyRewards', lambda E, res, m: {'reward': str(ev(m, fget(E, res.ctx.env['params'], 0, TOKEN).v)), 'penalty': str(ev(m, fget(E, res.ctx.env['params'], 1, TOKEN).v))}),
                            descr='apply_rewards: lock 75%, penalty -> burnt now or fee debt, unvested draw <= debt, pledge delta = change of vesting funds, solvent afterwards',
                            bounds='%d existing vesting entries; CUT: VestingFunds::add_locked_funds replaced by its contract (verified separately in C14), new funds as one entry; amounts unbounded' % n, max_paths=200000))
    for n in ([0, 2] if tier == 'quick' else [0, 1, 2, 3]):
        O.append(Obligation('miner.repay_debt[vesting entries=%d]' % n, run_repay_debt(n), wrap(props_repay_debt), scenario=miner_scenario('RepayDebt'),
                            descr='repay_debt: control addresses only; burn + remaining debt = previous debt; pledge delta = -unlocked; solvent',
                            bounds='%d vesting entries' % n, max_paths=100000))
    for n in ([0, 1] if tier == 'quick' else [0, 1, 2]):
        O.append(Obligation('miner.report_consensus_fault[vesting entries=%d]' % n, run_report_fault(n), wrap(props_report_fault), scenario=miner_scenario('ReportConsensusFault', None, _reward_ret),
                            descr='consensus fault: penalty applied in full (burnt or debt), reporter reward <= amount taken, failing reward transfer tolerated, solvent',
                            bounds='%d vesting entries; fault verification and epoch reward symbolic' % n, max_paths=200000))
    O.append(Obligation('miner.constructor', run_constructor, wrap(props_constructor),
                        descr='constructor: init only; creation deposit locked (locked_funds = table sum), vesting from the creation epoch; pledge-total / cron consequences',
                        bounds='CUTS: State::new, calculate_create_miner_deposit, assign_proving_period_offset, MinerInfo::new, add_locked_funds contract; no control addresses',
                        max_paths=20000))
    from . import miner_cron
    O += miner_cron.build_for(pid, tier)
    if pid in ('C01', 'C03'):
        from . import miner_activate
        O += miner_activate.build_for(pid, tier)
    if pid in ('C01', 'C03', 'C05', 'C15'):
        from . import miner_activate
        O += miner_activate.build_prove_ni(pid, tier)
    if pid in ('C15', 'C01', 'C03', 'C05'):
        O += miner_cron.build_pet(pid, tier)
        O += miner_cron.build_precommit(pid, tier)
    if pid in ('C15', 'C01', 'C03'):
        O += miner_cron.build_recover(pid, tier)
        from . import miner_replica
        O += miner_replica.build_for(pid, tier)
    if pid in ('C15', 'C03', 'C05'):
        O += miner_cron.build_declare_faults(pid, tier)
        O += miner_cron.build_terminate_sectors(pid, tier)
    if pid in ('C15', 'C01', 'C03'):
        D = miner_cron.build_dispute(pid, tier)
        O += D if tier != 'quick' else D[:1]
    return O


# ---- constructor (creation deposit) ---------------------------------------------------------------------
# Cuts (declared): State::new -> its literal result (zero ledgers, empty vesting table, cron inactive);
# calculate_create_miner_deposit -> arbitrary deposit >= 0; assign_proving_period_offset -> arbitrary offset in
# [0, proving period); MinerInfo::new -> opaque info; VestingFunds::add_locked_funds -> contract (records its epoch).

def _cut_state_new(E, call):
    policy, store, info_cid, period_start, deadline_idx = call.args
    ST = SF()
    vf, _, _ = mk_vesting(E, 0)
    st = StructV('State', {ST['info']: E.deref(info_cid), ST['pre_commit_deposits']: BigV(0), ST['locked_funds']: BigV(0),
                           ST['vesting_funds']: vf, ST['fee_debt']: BigV(0), ST['initial_pledge']: BigV(0),
                           ST['proving_period_start']: period_start, ST['current_deadline']: deadline_idx,
                           ST['deadline_cron_active']: False}, lazy='newstate')
    return ok(st, call.dest_ty)


def _cut_deposit(E, call):
    d = z3.Int('create_miner_deposit')
    E.ctx.assume(d >= 0)
    return ok(BigV(d), call.dest_ty)


def _cut_offset(E, call):
    o = z3.Int('pp_offset')
    E.ctx.assume(z3.And(o >= 0, o < 2880))
    return ok(IntV(o, 'i64'), call.dest_ty)


def _cut_info_new(E, call):
    return ok(StructV('state::MinerInfo', {0: AddrV(0, call.args[0].v), 1: AddrV(0, call.args[1].v)}, lazy='newinfo'), call.dest_ty)


def _cut_add_locked_recording(E, call):
    E.ctx.env['vest_start_epoch'] = call.args[2].v
    return cut_add_locked_funds(E, call)


def run_constructor(E):
    rt, rtref = new_rt(E)
    E.cuts['State::new'] = _cut_state_new
    E.cuts['calculate_create_miner_deposit'] = _cut_deposit
    E.cuts['assign_proving_period_offset'] = _cut_offset
    E.cuts['MinerInfo::new'] = _cut_info_new
    E.cuts['VestingFunds::add_locked_funds'] = _cut_add_locked_recording
    E.cuts['check_valid_post_proof_type'] = lambda E2, c: ok(UNIT, c.dest_ty)
    E.cuts['check_peer_info'] = lambda E2, c: ok(UNIT, c.dest_ty)
    CP = Fields('actors/miner/src/types.rs', 'MinerConstructorParams')
    params = StructV('types::MinerConstructorParams', {CP['control_addresses']: VecV([], 'Vec<Address>')}, lazy='params')
    fn = find_fn(E, MINER, 'constructor')
    return E.run_function(fn, [rtref, params]), rt


def props_constructor(E, res):
    env = res.ctx.env
    rt = env['rt']
    ctx = res.ctx
    if res.kind != 'return':
        return [tagged('ALL', 'no panic (%s)' % str(res.info)[:60], False)]
    if is_err(res.value):
        return [tagged('C03', 'failed constructor creates no state', rt.state_set is False)]
    ST = SF()
    led = ledgers(E, rt.state)
    dep = z3.Int('create_miner_deposit')
    burns, pledge, others = classify_sends(rt, ctx)
    sent_delta = sum(pledge_delta_of(E, s) for s in pledge) if pledge else 0
    active = fget(E, rt.state, ST['deadline_cron_active'], 'bool')
    return [tagged('C11', 'only the init actor constructs miners', b_and(rt.caller.proto == 0, rt.caller.key == 1)),
            tagged('C03,C14', 'the creation deposit is locked in the vesting schedule', z3.And(led['lf'] == dep, led['lf'] == table_sum(led['vents']))),
            tagged('C14', 'the deposit starts vesting at the creation epoch', env.get('vest_start_epoch') is not None and env['vest_start_epoch'] == rt.epoch),
            tagged('C01', 'the deposit is covered by the balance', rt.balance >= dep),
            tagged('C03', 'other ledgers start at zero', z3.And(led['ip'] == 0, led['pcd'] == 0, led['fd'] == 0)),
            tagged('C03', 'network pledge total is told about the locked deposit [creation deposit not reported to the power actor]', sent_delta == led['lf']),
            tagged('C05', 'a miner holding vesting funds has its proving-deadline cron active [freshly constructed miner]',
                   z3.Implies(led['lf'] > 0, active if is_sym(active) else z3.BoolVal(bool(active))))]
