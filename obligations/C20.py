"""C20 — actor identities are unique, stable and derived as specified.

M: init actor (map_addresses_to_id, exec, exec4) executed whole with a symbolic address map under the invariant
'every mapped id < next_id'.  K: EthAddress classification / id embedding (kani harnesses c20_*)."""
from .common import *

PROPERTY = 'C20'
CRATES = ['fil_actors_runtime', 'fil_actor_init', 'fil_actors_evm_shared', 'fil_actor_evm', 'fil_actor_eam']
ENGINES = ['M', 'K']
INITC = 'fil_actor_init'


def setup_init(E, rt):
    SF = Fields('actors/init/src/state.rs', 'State')
    st = StructV('State', {}, lazy='st')
    nid = fget(E, st, SF['next_id'], 'u64').v
    E.ctx.assume(z3.And(nid >= 100, nid < 2**62))
    base = 'map(st.%d)' % SF['address_map']

    def hook(E2, m, kt, val):
        if m.base == base:
            E2.ctx.assume(z3.And(val.v >= 100, val.v < nid))     # invariant: ids handed out so far are below next_id
            E2.ctx.assume(kt[1] != 0)                            # ID addresses are never keys of the address map
        return None
    E.ctx.env['map_value_hook'] = hook
    E.ctx.env.update(dict(nid=nid, base=base))
    rt.state = st
    return st


def map_props(E, res, st1, robust, delegated, ret_id, existing):
    """clauses of map_addresses_to_id on its Ok exit"""
    env = res.ctx.env
    ctx = res.ctx
    SF = Fields('actors/init/src/state.rs', 'State')
    nid, base = env['nid'], env['base']
    nid1 = fget(E, st1, SF['next_id'], 'u64').v
    mcid = fget(E, st1, SF['address_map'], CID)
    mm = heap_get(E, mcid) if isinstance(mcid, CidV) else None
    P = [('address map written', isinstance(mm, MapM))]
    if not isinstance(mm, MapM):
        return P
    rk = ('addr', robust.proto, robust.key)
    rb, rv = base_lookup(E, base, rk)
    P.append(('the stable (robust) address was not mapped before', rb is False))
    p1, v1 = final_lookup(E, mm, rk)
    P.append(('the stable address maps to the returned id from now on', p1 is True and implied(ctx, zv(v1) == ret_id)))
    if delegated is None:
        P.append(('a fresh id is handed out: the previous next_id', ret_id == nid))
        P.append(('next_id strictly increases', nid1 == nid + 1))
        P.append(('reported as new', existing is False))
    else:
        dk = ('addr', delegated.proto, delegated.key)
        db, dv = base_lookup(E, base, dk)
        if db:
            P.append(('an already mapped delegated address keeps its id', z3.And(ret_id == zv(dv), nid1 == nid)))
            P.append(('reported as existing', existing is True))
        else:
            P.append(('an unmapped delegated address gets a fresh id', z3.And(ret_id == nid, nid1 == nid + 1)))
            P.append(('reported as new', existing is False))
            p2, v2 = final_lookup(E, mm, dk)
            P.append(('the delegated address maps to the returned id from now on', p2 is True and implied(ctx, zv(v2) == ret_id)))
    for (k, pres, val, _) in mm.over:
        allowed = [key_eq(k, rk)] + ([key_eq(k, ('addr', delegated.proto, delegated.key))] if delegated is not None else [])
        P.append(('only the new addresses are written', any_of(allowed)))
        P.append(('mappings are never removed', pres is True))
        P.append(('invariant: every mapped id is below next_id', zv(val) < nid1))
    return P


def run_map(with_delegated):
    def run(E):
        rt, rtref = new_rt(E)
        st = setup_init(E, rt)
        robust = E.materialize(ADDR, 'robust')
        E.ctx.assume(robust.proto == 2)
        args = [RefV(Cell(OpaqueV('store'), 'store'), ()), RefV(Cell(robust, 'r'), ())]
        deleg = None
        if with_delegated:
            deleg = E.materialize(ADDR, 'delegated')
            E.ctx.assume(deleg.proto == 4)
            args.append(some(RefV(Cell(deleg, 'd'), ())))
        else:
            args.append(none())
        cell = Cell(st, 'st')
        fn = find_fn(E, INITC, 'map_addresses_to_id')
        r = E.run_function(fn, [RefV(cell, (), True)] + args)
        E.ctx.env.update(dict(st1=cell.value, robust=robust, deleg=deleg))
        return r, rt
    return run


def props_map(E, res):
    env = res.ctx.env
    if res.kind != 'return':
        return [('no panic (%s)' % str(res.info)[:60], False)]
    if is_err(res.value):
        rb, rv = base_lookup(E, env['base'], ('addr', env['robust'].proto, env['robust'].key))
        return [('mapping fails only when the stable address is already taken', rb is True)]
    tup = res.value.fields[('Ok', 0)]
    return map_props(E, res, env['st1'], env['robust'], env['deleg'], tup.fields[0].v, tup.fields[1])


def run_exec(E):
    rt, rtref = new_rt(E)
    setup_init(E, rt)
    params = LazyV('params', 'types::ExecParams')
    E.ctx.env['params'] = params
    fn = find_fn(E, INITC, 'exec')
    return E.run_function(fn, [rtref, params]), rt


def _type_of_cid(E, rt, ctx, cid):
    for (kt, val) in rt.funcs.get('type', []):
        if implied(ctx, kt[1] == cid.term):
            if val.vname == 'Some':
                return val.fields[('Some', 0)].tag
            return 0
    return None


def props_exec(E, res):
    env = res.ctx.env
    rt = env['rt']
    ctx = res.ctx
    if res.kind != 'return':
        return [('no panic (%s)' % str(res.info)[:60], False)]
    if is_err(res.value):
        return []
    code = fget(E, env['params'], 0, CID)
    t_exec = _type_of_cid(E, rt, ctx, code)
    P = [('the code to instantiate was classified', t_exec is not None)]
    if t_exec is None:
        return P
    caller_code = rt.funcs.get('code', [])
    t_caller = None
    if caller_code and caller_code[0][1].vname == 'Some':
        t_caller = _type_of_cid(E, rt, ctx, caller_code[0][1].fields[('Some', 0)])
    T = ACTOR_TYPES
    allowed = z3.Or(t_exec == T['Multisig'], t_exec == T['PaymentChannel'],
                    z3.And(t_exec == T['Miner'], (t_caller == T['Power']) if t_caller is not None else z3.BoolVal(False)))
    P.append(('only multisigs and payment channels (by anyone) and miners (by the power actor) can be created', allowed))
    created = [e for e in rt.effects if e[0] == 'create_actor']
    P.append(('exactly one actor created', len(created) == 1))
    if created:
        P.append(('created at the fresh id, never over an existing actor', zv(created[0][2]) == env['nid']))
        P.append(('created with the requested code', created[0][1].term == code.term))
    ctor = [s for s in rt.sends]
    P.append(('constructor invoked on the new actor with the value received', len(ctor) == 1 and ctor[0].ok is True))
    if ctor:
        P.append(('constructor target / method / value', b_and(ctor[0].to.proto == 0, ctor[0].to.key == env['nid'], zv(ctor[0].method) == 1, ctor[0].value == rt.value_received)))
    SF = Fields('actors/init/src/state.rs', 'State')
    P.append(('next_id strictly increases', fget(E, rt.state, SF['next_id'], 'u64').v == env['nid'] + 1))
    return P


def run_exec4(E):
    rt, rtref = new_rt(E)
    setup_init(E, rt)
    params = LazyV('params', 'types::Exec4Params')
    E.ctx.env['params'] = params
    fn = find_fn(E, INITC, 'exec4')
    return E.run_function(fn, [rtref, params]), rt


def props_exec4(E, res):
    env = res.ctx.env
    rt = env['rt']
    ctx = res.ctx
    if res.kind != 'return':
        return [('no panic (%s)' % str(res.info)[:60], False)]
    if is_err(res.value):
        return []
    SF = Fields('actors/init/src/state.rs', 'State')
    P = [('only the address manager (EAM) deploys at delegated addresses', b_and(rt.caller.proto == 0, rt.caller.key == 10))]
    created = [e for e in rt.effects if e[0] == 'create_actor']
    P.append(('exactly one actor created', len(created) == 1))
    nid1 = fget(E, rt.state, SF['next_id'], 'u64').v
    if created:
        cid_ = zv(created[0][2])
        fresh = implied(ctx, cid_ == env['nid'])
        if not fresh:
            # deployment over an existing id: must be a placeholder
            codes = [v for (k, v) in rt.funcs.get('code', []) if implied(ctx, k[1] == cid_)]
            P.append(('an existing actor is only replaced if it is a placeholder',
                      len(codes) == 1 and codes[0].vname == 'Some' and implied(ctx, codes[0].fields[('Some', 0)].term == -ACTOR_TYPES['Placeholder'])))
            P.append(('no id consumed when redeploying over a placeholder', nid1 == env['nid']))
        else:
            P.append(('next_id strictly increases', nid1 == env['nid'] + 1))
        P.append(('the delegated address is recorded on the new actor', created[0][3] is not None))
    P.append(('constructor invoked once with the value received', len(rt.sends) == 1 and rt.sends[0].ok is True and implied(ctx, rt.sends[0].value == rt.value_received)))
    return P


def build(tier):
    from . import evm_guards
    from . import C19
    resurrect = [o for o in C19.build(tier) if 'resurrect' in o.name]
    return evm_guards.build_create(tier) + evm_guards.build_eam(tier) + resurrect + [Obligation('init.State::map_addresses_to_id[no delegated]', run_map(False), props_map,
                       descr='fresh id = next_id, next_id++, stable address newly mapped, nothing else written, invariant preserved', bounds='address map symbolic', max_paths=2000),
            Obligation('init.State::map_addresses_to_id[delegated]', run_map(True), props_map,
                       descr='delegated address: existing id reused or fresh id assigned; stable address must be new', bounds='address map symbolic', max_paths=2000),
            Obligation('init.exec', run_exec, props_exec,
                       descr='can_exec truth table; actor created at the fresh id with the requested code; constructor called with the value', bounds='one call', max_paths=20000),
            Obligation('init.exec4', run_exec4, props_exec4,
                       descr='EAM only; existing id only over a placeholder; delegated address recorded', bounds='one call', max_paths=20000)]
