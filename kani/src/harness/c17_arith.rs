//! C17 – ADD SUB SIGNEXTEND and the boundary families of DIV SDIV MOD SMOD ADDMOD MULMOD
//! (instructions/arithmetic.rs, shared/src/uints.rs).
//!
//! Operand order: `def_primop!{ SUB(a, b) => arithmetic::sub }` binds a = µs[0] (top of
//! stack, first popped) and b = µs[1]; Yellow Paper: SUB = µs[0] - µs[1], DIV = µs[0] / µs[1],
//! SIGNEXTEND(a = byte index µs[0], b = value µs[1]), ADDMOD(a, b, c = modulus µs[2]).
//!
//! Oracles: limb-wise carry/borrow chains in u128 for ADD/SUB/negation; bit-level formula
//! for SIGNEXTEND; for the division families the mathematically known result of the edge
//! (0, identity, negation, shift, mask) – never a second call of the function under test.
//! General symbolic/symbolic MUL, DIV, MOD do not terminate in CBMC and are outside the claim.
use super::util::*;
use crate::interpreter::instructions::arithmetic;
use fil_actors_evm_shared::uints::U256;

/// (a + b) mod 2^256, limb-wise with explicit carry.
pub fn ref_add(a: &[u64; 4], b: &[u64; 4]) -> [u64; 4] {
    let mut r = [0u64; 4];
    let mut carry: u128 = 0;
    let mut k = 0;
    while k < 4 {
        let t = a[k] as u128 + b[k] as u128 + carry;
        r[k] = t as u64;
        carry = t >> 64;
        k += 1;
    }
    r
}

/// (a - b) mod 2^256, limb-wise with explicit borrow.
pub fn ref_sub(a: &[u64; 4], b: &[u64; 4]) -> [u64; 4] {
    let mut r = [0u64; 4];
    let mut borrow: u128 = 0;
    let mut k = 0;
    while k < 4 {
        let lhs = a[k] as u128;
        let rhs = b[k] as u128 + borrow;
        if lhs >= rhs {
            r[k] = (lhs - rhs) as u64;
            borrow = 0;
        } else {
            r[k] = ((1u128 << 64) + lhs - rhs) as u64;
            borrow = 1;
        }
        k += 1;
    }
    r
}

/// Two's complement negation: (2^256 - x) mod 2^256 = 0 - x.
pub fn ref_neg(x: &[u64; 4]) -> [u64; 4] {
    ref_sub(&[0, 0, 0, 0], x)
}

/// x >> k for 0 <= k < 256, written per limb (reference for division by 2^k).
pub fn ref_shr(x: &[u64; 4], k: usize) -> [u64; 4] {
    let w = k / 64;
    let s = (k % 64) as u32;
    let mut r = [0u64; 4];
    let mut i = 0;
    while i < 4 {
        if i + w < 4 {
            let lo = x[i + w] >> s;
            let hi = if s > 0 && i + w + 1 < 4 { x[i + w + 1] << (64 - s) } else { 0 };
            r[i] = lo | hi;
        }
        i += 1;
    }
    r
}

/// 2^k for 0 <= k < 256.
pub fn pow2(k: usize) -> U256 {
    let mut l = [0u64; 4];
    l[k / 64] = 1u64 << (k % 64);
    U256(l)
}

/// x mod 2^k (mask of the k low bits), 0 <= k < 256.
pub fn ref_mask(x: &[u64; 4], k: usize) -> [u64; 4] {
    let mut r = [0u64; 4];
    let mut i = 0;
    while i < 4 {
        let lo = i * 64;
        r[i] = if k >= lo + 64 {
            x[i]
        } else if k <= lo {
            0
        } else {
            x[i] & ((1u64 << (k - lo)) - 1)
        };
        i += 1;
    }
    r
}

const ZERO: [u64; 4] = [0, 0, 0, 0];
const ONE: [u64; 4] = [1, 0, 0, 0];
const MINUS_ONE: [u64; 4] = [u64::MAX; 4];
const I256_MIN: [u64; 4] = [0, 0, 0, 1 << 63];

#[kani::proof]
#[kani::unwind(6)]
fn c17_add() {
    let (a, b) = (any_u256(), any_u256());
    let r = arithmetic::add(a, b);
    assert!(same(&r, ref_add(&a.0, &b.0)));
    // witness: a carry ripples out of limb 0 and the sum wraps around 2^256
    kani::cover!(a.0[0] == u64::MAX && b.0[0] == 1 && a.0[3] > r.0[3]);
}

#[kani::proof]
#[kani::unwind(6)]
fn c17_sub() {
    let (a, b) = (any_u256(), any_u256());
    let r = arithmetic::sub(a, b);
    assert!(same(&r, ref_sub(&a.0, &b.0)));
    kani::cover!(a.0[0] == 0 && b.0[0] == 1 && a.0[3] < r.0[3]);
}

/// Yellow Paper SIGNEXTEND: t = 256 - 8(µs[0]+1); result bit i (YP numbering from the MSB)
/// = µs[1] bit t if i <= t else µs[1] bit i.  In LSB-first numbering with T = 8*a + 7:
/// bit j of result = bit j of b for j <= T, = bit T of b for j > T; a >= 31 leaves b unchanged.
#[kani::proof]
#[kani::unwind(6)]
fn c17_signextend() {
    let (a, b) = (any_u256(), any_u256());
    let r = arithmetic::signextend(a, b);
    let j: usize = kani::any();
    kani::assume(j < 256);
    let small = a.0[1] == 0 && a.0[2] == 0 && a.0[3] == 0 && a.0[0] < 31;
    let expect = if small {
        let t = 8 * (a.0[0] as usize) + 7;
        if j <= t { bit(&b.0, j) } else { bit(&b.0, t) }
    } else {
        bit(&b.0, j)
    };
    assert!(bit(&r.0, j) == expect);
    kani::cover!(small && a.0[0] == 9 && j > 100 && bit(&r.0, j) && !bit(&b.0, j));
    kani::cover!(a.0[0] == 31 && a.0[1] == 0 && a.0[2] == 0 && a.0[3] == 0);
}

// ---------------------------------------------------------------- DIV / MOD edges
/// DIV: x / 0 = 0, 0 / x = 0, x / 1 = x (other operand fully symbolic).
#[kani::proof]
#[kani::unwind(6)]
fn c17_div_edges() {
    let x = any_u256();
    assert!(same(&arithmetic::div(x, U256(ZERO)), ZERO));
    assert!(same(&arithmetic::div(U256(ZERO), x), ZERO));
    assert!(same(&arithmetic::div(x, U256(ONE)), x.0));
    kani::cover!(x.0[3] != 0 && x.0[0] != 0);
}

/// MOD: x % 0 = 0, 0 % x = 0, x % 1 = 0.
#[kani::proof]
#[kani::unwind(6)]
fn c17_mod_edges() {
    let x = any_u256();
    assert!(same(&arithmetic::modulo(x, U256(ZERO)), ZERO));
    assert!(same(&arithmetic::modulo(U256(ZERO), x), ZERO));
    assert!(same(&arithmetic::modulo(x, U256(ONE)), ZERO));
    kani::cover!(x.0[3] != 0 && x.0[0] != 0);
}

/// SDIV: x / 0 = 0, 0 / x = 0, x / 1 = x, x / -1 = -x (two's complement, so MIN / -1 = MIN).
#[kani::proof]
#[kani::unwind(6)]
fn c17_sdiv_edges() {
    let x = any_u256();
    assert!(same(&arithmetic::sdiv(x, U256(ZERO)), ZERO));
    assert!(same(&arithmetic::sdiv(U256(ZERO), x), ZERO));
    assert!(same(&arithmetic::sdiv(x, U256(ONE)), x.0));
    let r = arithmetic::sdiv(x, U256(MINUS_ONE));
    assert!(same(&r, ref_neg(&x.0)));
    if same(&x, I256_MIN) {
        assert!(same(&r, I256_MIN));
    }
    kani::cover!(same(&x, I256_MIN));
    kani::cover!(x.0[3] >> 63 == 1 && r.0[3] >> 63 == 0 && x.0[0] != 0);
}

/// SMOD: x % 0 = 0, 0 % x = 0, x % 1 = 0, x % -1 = 0.
#[kani::proof]
#[kani::unwind(6)]
fn c17_smod_edges() {
    let x = any_u256();
    assert!(same(&arithmetic::smod(x, U256(ZERO)), ZERO));
    assert!(same(&arithmetic::smod(U256(ZERO), x), ZERO));
    assert!(same(&arithmetic::smod(x, U256(ONE)), ZERO));
    assert!(same(&arithmetic::smod(x, U256(MINUS_ONE)), ZERO));
    kani::cover!(x.0[3] >> 63 == 1 && x.0[0] != 0);
}

// ---------------------------------------------------------------- ADDMOD / MULMOD edges
/// ADDMOD / MULMOD with modulus 0 -> 0 (Yellow Paper) and modulus 1 -> 0.
#[kani::proof]
#[kani::unwind(10)]
fn c17_addmod_edges() {
    let (a, b) = (any_u256(), any_u256());
    assert!(same(&arithmetic::addmod(a, b, U256(ZERO)), ZERO));
    assert!(same(&arithmetic::addmod(a, b, U256(ONE)), ZERO));
    kani::cover!(a.0[3] == u64::MAX && b.0[3] == u64::MAX);
}

#[kani::proof]
#[kani::unwind(10)]
fn c17_mulmod_edges() {
    let (a, b) = (any_u256(), any_u256());
    assert!(same(&arithmetic::mulmod(a, b, U256(ZERO)), ZERO));
    kani::cover!(a.0[3] == u64::MAX && b.0[3] == u64::MAX);
}

#[kani::proof]
#[kani::unwind(10)]
fn c17_mulmod_one() {
    let (a, b) = (any_u256(), any_u256());
    assert!(same(&arithmetic::mulmod(a, b, U256(ONE)), ZERO));
    kani::cover!(a.0[3] == u64::MAX && b.0[3] == u64::MAX);
}

// ---------------------------------------------------------------- powers of two
// Division / remainder by 2^k with the dividend fully symbolic.  A SYMBOLIC k does not finish
// (div, mod: > 600 s; k restricted to 0..64: > 400 s; addmod: 11.6 GB / OOM), therefore k is a
// literal per harness: small divisors take the single-limb path of `uint` (`div_mod_small`),
// divisors >= 2^64 the Knuth path (`div_mod_knuth`), both are represented.

fn div_pow2(k: usize) {
    let x = any_u256();
    let r = arithmetic::div(x, pow2(k));
    assert!(same(&r, ref_shr(&x.0, k)));
    kani::cover!(r.0[0] != 0 && x.0[3] >> 63 == 1);
}

fn mod_pow2(k: usize) {
    let x = any_u256();
    let r = arithmetic::modulo(x, pow2(k));
    assert!(same(&r, ref_mask(&x.0, k)));
    kani::cover!(r.0[0] != 0 && x.0[3] >> 63 == 1);
}

/// SDIV by +2^k: truncation towards zero: sign(x) * (|x| >> k).
fn sdiv_pow2(k: usize) {
    let x = any_u256();
    let r = arithmetic::sdiv(x, pow2(k));
    let neg = x.0[3] >> 63 == 1;
    let mag = if neg { ref_neg(&x.0) } else { x.0 };
    let q = ref_shr(&mag, k);
    let expect = if neg { ref_neg(&q) } else { q };
    assert!(same(&r, expect));
    kani::cover!(neg && r.0[0] != 0);
}

/// SMOD by +2^k: result takes the sign of the dividend: sign(x) * (|x| mod 2^k).
fn smod_pow2(k: usize) {
    let x = any_u256();
    let r = arithmetic::smod(x, pow2(k));
    let neg = x.0[3] >> 63 == 1;
    let mag = if neg { ref_neg(&x.0) } else { x.0 };
    let m = ref_mask(&mag, k);
    let expect = if neg { ref_neg(&m) } else { m };
    assert!(same(&r, expect));
    kani::cover!(neg && r.0[0] != 0);
}

/// ADDMOD with modulus 2^k: the sum is NOT reduced mod 2^256 first (Yellow Paper: "all
/// intermediate calculations of this operation are not subject to the 2^256 modulo"), so the
/// result is the k low bits of the 257-bit sum = the k low bits of the wrapped 256-bit sum.
fn addmod_pow2(k: usize) {
    let (a, b) = (any_u256(), any_u256());
    let r = arithmetic::addmod(a, b, pow2(k));
    assert!(same(&r, ref_mask(&ref_add(&a.0, &b.0), k)));
    kani::cover!(r.0[0] != 0 && a.0[3] == u64::MAX && b.0[3] == u64::MAX);
}

macro_rules! pow2_harness {
    ($name:ident, $f:ident, $k:literal, $unw:literal) => {
        #[kani::proof]
        #[kani::unwind($unw)]
        fn $name() {
            $f($k)
        }
    };
}
pow2_harness!(c17_div_pow2_k1, div_pow2, 1, 6);
pow2_harness!(c17_div_pow2_k63, div_pow2, 63, 6);
pow2_harness!(c17_div_pow2_k64, div_pow2, 64, 6);
pow2_harness!(c17_div_pow2_k100, div_pow2, 100, 6);
pow2_harness!(c17_div_pow2_k255, div_pow2, 255, 6);
pow2_harness!(c17_mod_pow2_k1, mod_pow2, 1, 6);
pow2_harness!(c17_mod_pow2_k63, mod_pow2, 63, 6);
pow2_harness!(c17_mod_pow2_k100, mod_pow2, 100, 6);
pow2_harness!(c17_sdiv_pow2_k7, sdiv_pow2, 7, 6);
pow2_harness!(c17_sdiv_pow2_k130, sdiv_pow2, 130, 6);
pow2_harness!(c17_smod_pow2_k7, smod_pow2, 7, 6);
pow2_harness!(c17_smod_pow2_k130, smod_pow2, 130, 6);
pow2_harness!(c17_addmod_pow2_k7, addmod_pow2, 7, 10);
