"""verified registry obligations shared by C09 (DataCap conserved, allocations spent once) and C10 (claims obey terms)."""
from .common import *

VR = 'fil_actor_verifreg'
CRATES = ['fil_actors_runtime', 'fil_actor_verifreg']
ALLOC = 'state::Allocation'
CLAIM = 'state::Claim'
MAX_TERM = 5 * (31556925 // 30)     # policy.maximum_verified_allocation_term: 5 years of 365.2422 days at 30 s epochs (spec constant)
DATACAP = 7
BURN_METHOD_NAME = 'Burn'


def AF():
    return Fields('actors/verifreg/src/state.rs', 'Allocation'), Fields('actors/verifreg/src/state.rs', 'Claim')


def alloc_view(E, a):
    A, C = AF()
    g = lambda n, t: zv(fget(E, a, A[n], t))
    size = fget(E, fget(E, a, A['size'], 'fvm_shared::piece::PaddedPieceSize'), 0, 'u64').v
    return dict(client=g('client', 'u64'), provider=g('provider', 'u64'), data=fget(E, a, A['data'], CID), size=size,
                term_min=g('term_min', 'i64'), term_max=g('term_max', 'i64'), expiration=g('expiration', 'i64'))


def claim_view(E, c):
    A, C = AF()
    g = lambda n, t: zv(fget(E, c, C[n], t))
    size = fget(E, fget(E, c, C['size'], 'fvm_shared::piece::PaddedPieceSize'), 0, 'u64').v
    return dict(provider=g('provider', 'u64'), client=g('client', 'u64'), data=fget(E, c, C['data'], CID), size=size,
                term_min=g('term_min', 'i64'), term_max=g('term_max', 'i64'), term_start=g('term_start', 'i64'), sector=g('sector', 'u64'))


def wf_hook(E, st_fields):
    """well-formedness of stored allocations / claims (established by validate_new_allocation / claim creation)"""
    SF = Fields('actors/verifreg/src/state.rs', 'State')
    abase = 'map(st.%d)' % SF['allocations']
    cbase = 'map(st.%d)' % SF['claims']

    def hook(E2, m, kt, val):
        if m.base == abase:
            v = alloc_view(E2, val)
            E2.ctx.assume(z3.And(v['term_min'] >= 0, v['term_max'] >= v['term_min'], v['term_max'] <= MAX_TERM, v['expiration'] >= 0,
                                 v['expiration'] < 2**40, v['size'] >= 0))
            # stored under (client, id): the key's first component is the allocation's client
            E2.ctx.assume(kt[1] == v['client'])
        elif m.base == cbase:
            v = claim_view(E2, val)
            E2.ctx.assume(z3.And(v['term_min'] >= 0, v['term_max'] >= v['term_min'], v['term_max'] <= MAX_TERM, v['term_start'] >= 0,
                                 v['term_start'] < 2**40, v['size'] >= 0))
            E2.ctx.assume(kt[1] == v['provider'])
        return None
    E.ctx.env['map_value_hook'] = hook
    return abase, cbase


# ---- pure functions -------------------------------------------------------------------------------------

def run_can_claim(E):
    rt, rtref = new_rt(E)
    ca = LazyV('ca', 'types::AllocationClaim')
    al = LazyV('al', ALLOC)
    prov = E.materialize('u64', 'provider').v
    ep = E.materialize('i64', 'epoch').v
    se = E.materialize('i64', 'sector_expiry').v
    E.ctx.assume(z3.And(ep >= 0, ep < 2**40, se >= 0, se < 2**41))
    E.ctx.env.update(dict(ca=ca, al=al, prov=prov, ep=ep, se=se))
    fn = find_fn(E, VR, 'can_claim_alloc')
    r = E.run_function(fn, [RefV(Cell(ca, 'ca'), ()), IntV(prov, 'u64'), RefV(Cell(al, 'al'), ()), IntV(ep, 'i64'), IntV(se, 'i64')])
    return r, rt


def props_can_claim(E, res):
    env = res.ctx.env
    if res.kind != 'return':
        return [('no panic (%s)' % str(res.info)[:60], False)]
    AC = Fields('actors/verifreg/src/types.rs', 'AllocationClaim')
    al = alloc_view(E, env['al'])
    ca = env['ca']
    cclient = fget(E, ca, AC['client'], 'u64').v
    cdata = fget(E, ca, AC['data'], CID)
    csize = fget(E, fget(E, ca, AC['size'], 'fvm_shared::piece::PaddedPieceSize'), 0, 'u64').v
    life = env['se'] - env['ep']
    spec = z3.And(env['prov'] == al['provider'], cclient == al['client'], cdata.term == al['data'].term, csize == al['size'],
                  env['ep'] <= al['expiration'], life >= al['term_min'], life <= al['term_max'])
    r = res.value
    return [('claimable iff named provider, matching client/data/size, not expired, sector lifetime within [term_min, term_max]',
             (r if is_sym(r) else z3.BoolVal(bool(r))) == spec)]


def run_validate_ext(E):
    rt, rtref = new_rt(E)
    req = LazyV('req', 'types::ClaimExtensionRequest')
    cl = LazyV('cl', CLAIM)
    cv = claim_view(E, cl)
    E.ctx.assume(z3.And(cv['term_min'] >= 0, cv['term_max'] >= cv['term_min'], cv['term_max'] <= MAX_TERM, cv['term_start'] >= 0, cv['term_start'] < 2**40))
    ep = E.materialize('i64', 'epoch').v
    E.ctx.assume(z3.And(ep >= 0, ep < 2**40))
    E.ctx.env.update(dict(req=req, cl=cl, ep=ep))
    pol = E.do_call(None, '<Policy as Default>::default', [], 'Policy')
    fn = find_fn(E, VR, 'validate_claim_extension')
    r = E.run_function(fn, [RefV(Cell(req, 'req'), ()), RefV(Cell(cl, 'cl'), ()), RefV(Cell(pol, 'pol'), ()), IntV(ep, 'i64')])
    return r, rt


def props_validate_ext(E, res):
    env = res.ctx.env
    if res.kind != 'return':
        return [('no panic (%s)' % str(res.info)[:60], False)]
    RQ = Fields('actors/verifreg/src/types.rs', 'ClaimExtensionRequest')
    cv = claim_view(E, env['cl'])
    tm = fget(E, env['req'], RQ['term_max'], 'i64').v
    ep = env['ep']
    spec = z3.And(tm > cv['term_max'], tm <= ep + MAX_TERM - cv['term_start'], ep <= cv['term_start'] + cv['term_max'])
    return [('an extension is accepted iff it strictly raises term_max, stays within the policy limit from now, and the claim has not expired',
             z3.BoolVal(is_ok(res.value)) == spec)]


# ---- extend_claim_terms / remove_expired_claims ---------------------------------------------------------

def run_extend(nterms):
    def run(E):
        rt, rtref = new_rt(E)
        rt.state = LazyV('st', 'State')
        abase, cbase = wf_hook(E, None)
        E.ctx.env['cbase'] = cbase
        terms = [LazyV('term%d' % i, 'types::ClaimTerm') for i in range(nterms)]
        params = StructV('types::ExtendClaimTermsParams', {0: VecV(terms, 'Vec<ClaimTerm>')})
        E.ctx.env['terms'] = terms
        fn = find_fn(E, VR, 'extend_claim_terms')
        return E.run_function(fn, [rtref, params]), rt
    return run


def props_extend(E, res):
    env = res.ctx.env
    rt = env['rt']
    ctx = res.ctx
    if res.kind != 'return':
        return []      # a panic aborts the message (no state change); totality is not part of C09/C10
    if is_err(res.value):
        return []
    SF = Fields('actors/verifreg/src/state.rs', 'State')
    CT = Fields('actors/verifreg/src/types.rs', 'ClaimTerm')
    ccid = fget(E, rt.state, SF['claims'], CID)
    cm = heap_get(E, ccid) if isinstance(ccid, CidV) else None
    P = [('claims table written', isinstance(cm, MapM))]
    if not isinstance(cm, MapM):
        return P
    seen = []
    for (k, pres, val, _) in reversed(cm.over):
        if any(implied(ctx, key_eq(k, s)) for s in seen):
            continue
        seen.append(k)
        P.append(('claims are never removed by a term extension', pres is True))
        b, bv = base_lookup(E, env['cbase'], k)
        P.append(('only existing claims are rewritten', b is True))
        if not (b and pres):
            continue
        old, new = claim_view(E, bv), claim_view(E, val)
        P.append(("a claim's maximum term never decreases", new['term_max'] >= old['term_max']))
        P.append(('maximum term stays within the policy limit', new['term_max'] <= MAX_TERM))
        P.append(('only the client of a claim extends it', rt.caller.key == old['client']))
        P.append(('nothing but term_max changes', z3.And(new['provider'] == old['provider'], new['client'] == old['client'], new['size'] == old['size'],
                                                          new['term_min'] == old['term_min'], new['term_start'] == old['term_start'],
                                                          new['sector'] == old['sector'], new['data'].term == old['data'].term)))
    return P


def run_remove_claims(nids):
    def run(E):
        rt, rtref = new_rt(E)
        rt.state = LazyV('st', 'State')
        abase, cbase = wf_hook(E, None)
        E.ctx.env['cbase'] = cbase
        ids = [E.materialize('u64', 'id%d' % i) for i in range(nids)]
        params = StructV('types::RemoveExpiredClaimsParams', {0: E.materialize('u64', 'provider'), 1: VecV(ids, 'Vec<u64>')})
        fn = find_fn(E, VR, 'remove_expired_claims')
        return E.run_function(fn, [rtref, params]), rt
    return run


def props_remove_claims(E, res):
    env = res.ctx.env
    rt = env['rt']
    ctx = res.ctx
    if res.kind != 'return':
        return []      # a panic aborts the message (no state change); totality is not part of C09/C10
    if is_err(res.value):
        return []
    SF = Fields('actors/verifreg/src/state.rs', 'State')
    ccid = fget(E, rt.state, SF['claims'], CID)
    cm = heap_get(E, ccid) if isinstance(ccid, CidV) else None
    P = []
    if isinstance(cm, MapM):
        for (k, pres, val, _) in cm.over:
            P.append(('removal only deletes', pres is False))
            b, bv = base_lookup(E, env['cbase'], k)
            if b:
                cv = claim_view(E, bv)
                P.append(('a claim is removed only once its maximum term has elapsed (now >= term_start + term_max)', rt.epoch >= cv['term_start'] + cv['term_max']))
    return P


# ---- add_verified_client --------------------------------------------------------------------------------

def run_add_client(E):
    rt, rtref = new_rt(E)
    rt.state = LazyV('st', 'State')
    SF = Fields('actors/verifreg/src/state.rs', 'State')
    vbase = 'map(st.%d)' % SF['verifiers']

    def hook(E2, m, kt, val):
        if m.base == vbase:
            E2.ctx.assume(big(E2, val) >= 0)
        return None
    E.ctx.env['map_value_hook'] = hook
    E.ctx.env['vbase'] = vbase
    params = LazyV('params', 'types::VerifierParams')
    E.ctx.env['params'] = params
    fn = find_fn(E, VR, 'add_verified_client')
    return E.run_function(fn, [rtref, params]), rt


def props_add_client(E, res):
    env = res.ctx.env
    rt = env['rt']
    ctx = res.ctx
    if res.kind != 'return':
        return []      # a panic aborts the message (no state change); totality is not part of C09/C10
    if is_err(res.value):
        return []
    SF = Fields('actors/verifreg/src/state.rs', 'State')
    grant = big(E, fget(E, env['params'], 1, 'BigInt'))
    kt = ('addr', rt.caller.proto, rt.caller.key)
    b, bv = base_lookup(E, env['vbase'], kt)
    P = [('the granting caller is a verifier', b is True), ('grant at least the minimum allocation size (1 MiB)', grant >= 1 << 20)]
    if not b:
        return P
    cap0 = big(E, bv)
    vcid = fget(E, rt.state, SF['verifiers'], CID)
    vm = heap_get(E, vcid) if isinstance(vcid, CidV) else None
    P.append(('verifier table written', isinstance(vm, MapM)))
    if isinstance(vm, MapM):
        p1, v1 = final_lookup(E, vm, kt)
        P.append(("the verifier's allowance decreases by exactly the grant and never goes negative",
                  b_and(p1 is True, big(E, v1) == cap0 - grant, big(E, v1) >= 0) if p1 else False))
        for (k, pres, val, _) in vm.over:
            P.append(('only the granting verifier is rewritten', key_eq(k, kt)))
    mints = [s for s in rt.sends if implied(ctx, b_and(s.to.proto == 0, s.to.key == DATACAP))]
    P.append(('exactly one mint on the datacap actor, successful', len(mints) == 1 and mints[0].ok is True and len(rt.sends) == 1))
    if mints:
        obj = mints[0].params.obj if isinstance(mints[0].params, BlockV) else None
        P.append(('mint parameters present', obj is not None))
        if obj is not None:
            amt = big(E, fget(E, obj, 1, TOKEN))
            P.append(('minted amount = grant (in token units of 10^18 per byte)', amt == grant * 10**18))
            to = fget(E, obj, 0, ADDR)
            from .C12 import resolved_id
            cid_ = resolved_id(E, rt, fget(E, env['params'], 0, ADDR), ctx)
            P.append(('minted to the named client', cid_ is not None and implied(ctx, b_and(to.proto == 0, to.key == cid_))))
    return P


# ---- claim_allocations ----------------------------------------------------------------------------------

def run_claim(shape):
    """shape: list of claim counts per sector"""
    def run(E):
        rt, rtref = new_rt(E)
        rt.state = LazyV('st', 'State')
        abase, cbase = wf_hook(E, None)
        E.ctx.env.update(dict(abase=abase, cbase=cbase, shape=shape))
        sectors = []
        for i, k in enumerate(shape):
            claims = [LazyV('s%dc%d' % (i, j), 'types::AllocationClaim') for j in range(k)]
            sectors.append(StructV('types::SectorAllocationClaims', {2: VecV(claims, 'Vec<AllocationClaim>')}, lazy='sector%d' % i))
        params = StructV('types::ClaimAllocationsParams', {0: VecV(sectors, 'Vec<SectorAllocationClaims>')}, lazy='params')
        E.ctx.env['sectors'] = sectors
        fn = find_fn(E, VR, 'claim_allocations')
        return E.run_function(fn, [rtref, params]), rt
    return run


def props_claim(E, res):
    env = res.ctx.env
    rt = env['rt']
    ctx = res.ctx
    if res.kind != 'return':
        return []      # a panic aborts the message (no state change); totality is not part of C09/C10
    if is_err(res.value):
        return []
    SF = Fields('actors/verifreg/src/state.rs', 'State')
    SC = Fields('actors/verifreg/src/types.rs', 'SectorAllocationClaims')
    acid = fget(E, rt.state, SF['allocations'], CID)
    ccid = fget(E, rt.state, SF['claims'], CID)
    am = heap_get(E, acid) if isinstance(acid, CidV) else None
    cm = heap_get(E, ccid) if isinstance(ccid, CidV) else None
    P = [('only miner actors claim', rt.caller_type == ACTOR_TYPES['Miner']), ('tables written', isinstance(am, MapM) and isinstance(cm, MapM))]
    if not (isinstance(am, MapM) and isinstance(cm, MapM)):
        return P
    removed = []
    seen = []
    for (k, pres, val, _) in reversed(am.over):
        if any(implied(ctx, key_eq(k, s)) for s in seen):
            continue
        seen.append(k)
        P.append(('claiming only removes allocations', pres is False))
        b, bv = base_lookup(E, env['abase'], k)
        P.append(('a removed allocation existed', b is True))
        if b:
            removed.append((k, alloc_view(E, bv)))
    created = []
    seen = []
    for (k, pres, val, _) in reversed(cm.over):
        if any(implied(ctx, key_eq(k, s)) for s in seen):
            continue
        seen.append(k)
        P.append(('claiming only creates claims', pres is True))
        b, bv = base_lookup(E, env['cbase'], k)
        P.append(('a claim is never overwritten', b is not True))
        if pres:
            created.append((k, claim_view(E, val)))
    P.append(('each removed allocation produced exactly one claim', len(created) == len(removed)))
    total = 0
    for (k, al) in removed:
        total = total + al['size']
        match = [cv for (ck, cv) in created if implied(ctx, z3.And(ck[2] == k[2], cv['client'] == al['client']))]
        P.append(('allocation %s turned into a claim with the same id and client' % (k[2],), len(match) == 1))
        if len(match) == 1:
            cv = match[0]
            P.append(('claim copies data, size and terms of the allocation', z3.And(cv['data'].term == al['data'].term, cv['size'] == al['size'],
                                                                                   cv['term_min'] == al['term_min'], cv['term_max'] == al['term_max'])))
            P.append(('claim belongs to the calling provider, the provider named by the allocation', z3.And(cv['provider'] == rt.caller.key, al['provider'] == rt.caller.key)))
            P.append(('claim starts now', cv['term_start'] == rt.epoch))
            P.append(('allocation had not expired', rt.epoch <= al['expiration']))
            secs = [fget(E, s, SC['expiry'], 'i64').v for s in env['sectors']]
            P.append(('sector lifetime within the allocation terms', any_of([z3.And(se - rt.epoch >= al['term_min'], se - rt.epoch <= al['term_max']) for se in secs])))
    burnt = 0
    for s_ in rt.sends:
        P.append(('every send is a successful burn on the datacap actor', b_and(s_.ok is True, s_.to.proto == 0, s_.to.key == DATACAP, s_.value == 0)))
        if isinstance(s_.params, BlockV) and s_.params.obj is not None:
            burnt = burnt + big(E, fget(E, s_.params.obj, 0, TOKEN))
        else:
            P.append(('burn parameters present', False))
    P.append(('tokens burnt = total size of the removed allocations', burnt == total * 10**18))
    return P


# ---- remove_expired_allocations -------------------------------------------------------------------------

def run_remove_allocs(nids):
    def run(E):
        rt, rtref = new_rt(E)
        rt.state = LazyV('st', 'State')
        abase, cbase = wf_hook(E, None)
        E.ctx.env['abase'] = abase
        ids = [E.materialize('u64', 'id%d' % i) for i in range(nids)]
        params = StructV('types::RemoveExpiredAllocationsParams', {0: E.materialize('u64', 'client'), 1: VecV(ids, 'Vec<u64>')})
        fn = find_fn(E, VR, 'remove_expired_allocations')
        return E.run_function(fn, [rtref, params]), rt
    return run


def props_remove_allocs(E, res):
    env = res.ctx.env
    rt = env['rt']
    ctx = res.ctx
    if res.kind != 'return':
        return []      # a panic aborts the message (no state change); totality is not part of C09/C10
    if is_err(res.value):
        return []
    SF = Fields('actors/verifreg/src/state.rs', 'State')
    acid = fget(E, rt.state, SF['allocations'], CID)
    am = heap_get(E, acid) if isinstance(acid, CidV) else None
    P = []
    total = 0
    client = z3.Int('client')
    if isinstance(am, MapM):
        for (k, pres, val, _) in am.over:
            P.append(('removal only deletes', pres is False))
            b, bv = base_lookup(E, env['abase'], k)
            if b:
                av = alloc_view(E, bv)
                P.append(('an allocation is removed only once it has expired (now >= expiration)', rt.epoch >= av['expiration']))
                P.append(('only allocations of the named client', av['client'] == client))
                total = total + av['size']
    refunds = [s for s in rt.sends]
    P.append(('expired allocations are refunded to their client in full', (len(refunds) == 1 and refunds[0].ok is True) if True else True))
    if refunds and isinstance(refunds[0].params, BlockV) and refunds[0].params.obj is not None:
        obj = refunds[0].params.obj
        P.append(('refund amount = total size of the removed allocations', big(E, fget(E, obj, 1, TOKEN)) == total * 10**18))
        to = fget(E, obj, 0, ADDR)
        P.append(('refund goes to the client', b_and(to.proto == 0, to.key == client)))
    return P


# ---- universal_receiver_hook: datacap tokens received pay exactly for the requested allocations + extensions -----

def run_receiver_hook(nalloc, next_):
    def run(E):
        rt, rtref = new_rt(E)
        rt.state = LazyV('st', 'State')
        abase, cbase = wf_hook(E, None)
        E.ctx.env.update(dict(abase=abase, cbase=cbase))
        SF = Fields('actors/verifreg/src/state.rs', 'State')
        # reachable states: allocation ids are handed out consecutively from 1; chain epochs are far below 2^40
        E.ctx.assume(z3.And(fget(E, rt.state, SF['next_allocation_id'], 'u64').v < 2**62, rt.epoch >= 0, rt.epoch < 2**40))
        allocs = [LazyV('areq%d' % i, 'types::AllocationRequest') for i in range(nalloc)]
        exts = [LazyV('ereq%d' % i, 'types::ClaimExtensionRequest') for i in range(next_)]
        reqs = StructV('types::AllocationRequests', {0: VecV(allocs, 'Vec<AllocationRequest>'), 1: VecV(exts, 'Vec<ClaimExtensionRequest>')})
        amount = z3.Int('tokens_received')
        E.ctx.assume(amount >= 0)
        frm = E.materialize('u64', 'from')
        to = E.materialize('u64', 'to')
        recv = StructV('frc46_token::receiver::FRC46TokenReceived', {0: frm, 1: to, 2: E.materialize('u64', 'operator'), 3: BigV(amount),
                                                                     4: BlockV(reqs), 5: BlockV(UNIT)})
        ty = E.materialize('u32', 'receiver_type')
        params = StructV('fvm_actor_utils::receiver::UniversalReceiverParams', {0: ty, 1: BlockV(recv)})
        E.ctx.env.update(dict(allocs=allocs, exts=exts, amount=amount, frm=frm.v, to=to.v, rtype=ty.v))
        fn = find_fn(E, VR, 'universal_receiver_hook')
        return E.run_function(fn, [rtref, params]), rt
    return run


def props_receiver_hook(E, res):
    env = res.ctx.env
    rt = env['rt']
    ctx = res.ctx
    if res.kind != 'return':
        return [('no panic (%s)' % str(res.info)[:60], False)]
    if is_err(res.value):
        return [('a rejected transfer commits nothing', rt.commits == 0)]
    AR = Fields('actors/verifreg/src/types.rs', 'AllocationRequest')
    ER = Fields('actors/verifreg/src/types.rs', 'ClaimExtensionRequest')
    SF = Fields('actors/verifreg/src/state.rs', 'State')
    P = [('only the datacap token actor delivers tokens', b_and(rt.caller.proto == 0, rt.caller.key == DATACAP)),
         ('payload addressed to this actor', env['to'] == rt.receiver.key)]
    total = 0
    for a in env['allocs']:
        size = fget(E, fget(E, a, AR['size'], 'fvm_shared::piece::PaddedPieceSize'), 0, 'u64').v
        total = total + size
    ext_total = 0
    for e_ in env['exts']:
        prov = fget(E, e_, ER['provider'], 'u64').v
        cid_ = fget(E, e_, ER['claim'], 'u64').v
        pres, cl = base_lookup(E, env['cbase'], ('tuple', 'int', prov, 'int', cid_)) if False else (None, None)
        # the claim looked up for (provider, claim id)
        b = base_info(E, env['cbase'])
        hit = None
        for ent in b.entries:
            k = ent[0]
            if implied(ctx, z3.And(k[1] == prov, k[2] == cid_)) if len(k) >= 3 and not isinstance(k[1], str) else False:
                hit = ent
        if hit is None:
            # key layout differs: find by any entry whose components are implied equal
            for ent in b.entries:
                comps = [x for x in ent[0] if not isinstance(x, str)]
                if len(comps) >= 2 and implied(ctx, z3.And(comps[-2] == prov, comps[-1] == cid_)):
                    hit = ent
        if hit is None or hit[1] is not True:
            P.append(('an extended claim exists', False))
            continue
        ext_total = ext_total + claim_view(E, hit[2])['size']
    P.append(('the tokens received pay exactly for the new allocations plus the extended claims (whole datacap units; no change is returned, nothing is created unpaid)',
              z3.And(env['amount'] / 10**18 == total + ext_total)))
    burns = [s for s in rt.sends]
    if burns:
        s = burns[0]
        obj = s.params.obj if isinstance(s.params, BlockV) else None
        P.append(('tokens spent on extensions are burnt at once (one Burn to the datacap actor)',
                  b_and(len(burns) == 1, s.to.proto == 0, s.to.key == DATACAP, s.ok is True, big(E, fget(E, obj, 0, TOKEN)) == ext_total * 10**18) if obj is not None else False))
    else:
        P.append(('no burn only when nothing was spent on extensions', ext_total == 0))
    # new allocations recorded for the sender of the tokens
    acid = fget(E, rt.state, SF['allocations'], CID)
    am = heap_get(E, acid) if isinstance(acid, CidV) else None
    n_new = len(env['allocs'])
    if n_new:
        if not isinstance(am, MapM):
            P.append(('allocations table written', False))
        else:
            written = [(k, pres, val) for (k, pres, val, _) in am.over if pres]
            P.append(('one allocation recorded per request', len(written) == n_new))
            for (k, pres, val) in written:
                v = alloc_view(E, val)
                P.append(('allocations belong to the sender of the tokens', v['client'] == env['frm']))
    return P


# ---- remove_verified_client_data_cap: datacap removal by the root with two verifier signatures ---------------------------------
# CUT (declared): remove_data_cap_request_is_valid (signature verification over the serialized proposal) -> arbitrary verdict,
# its arguments recorded.

def run_remove_datacap(E):
    rt, rtref = new_rt(E)
    rt.state = LazyV('st', 'State')
    SF = Fields('actors/verifreg/src/state.rs', 'State')
    env = E.ctx.env
    env['vbase'] = 'map(st.%d)' % SF['verifiers']
    env['pbase'] = 'map(st.%d)' % SF['remove_data_cap_proposal_ids']
    checks = env.setdefault('sig_checks', [])

    def cut_valid(E2, c):
        b = E2.ctx.fresh_bool('signature_valid')
        checks.append(dict(ok=b, req=E2.deref(c.args[1]), id=E2.deref(c.args[2]), amount=big(E2, c.args[3]), client=E2.deref(c.args[4])))
        if E2.ctx.branch(b):
            return ok(UNIT, c.dest_ty)
        return err(models_fvm.actor_error(E2, 16), c.dest_ty)
    E.cuts['remove_data_cap_request_is_valid'] = cut_valid

    def hook(E2, m, kt, val):
        if m.base == env['pbase']:
            v = fget(E2, val, 0, 'u64') if not isinstance(val, IntV) else val
            E2.ctx.assume(z3.And(v.v >= 0, v.v < 2**62))        # environment contract: proposal counters far from u64::MAX
        return None
    env['map_value_hook'] = hook
    params = LazyV('params', 'types::RemoveDataCapParams')
    env['params'] = params
    fn = find_fn(E, VR, 'remove_verified_client_data_cap')
    return E.run_function(fn, [rtref, params]), rt


def props_remove_datacap(E, res):
    env = res.ctx.env
    rt = env['rt']
    ctx = res.ctx
    if res.kind != 'return':
        return [('no panic (%s)' % str(res.info)[:60], False)]
    if is_err(res.value):
        return []
    SF = Fields('actors/verifreg/src/state.rs', 'State')
    RP = Fields('actors/verifreg/src/types.rs', 'RemoveDataCapParams')
    RR = Fields('actors/verifreg/src/types.rs', 'RemoveDataCapRequest')
    root = fget(E, rt.state, SF['root_key'], ADDR)
    checks = env.get('sig_checks', [])
    P = [('only the root key holder removes datacap', addr_eq(rt.caller, root)),
         ('both verifier signatures were checked and valid', z3.And(*[c['ok'] for c in checks]) if len(checks) == 2 else z3.BoolVal(False))]
    want = big(E, fget(E, env['params'], RP['data_cap_amount_to_remove'], 'BigInt'))
    if len(checks) == 2:
        a, b = checks
        P.append(('the two approvals come from two different verifiers', b_not(addr_eq(fget(E, a['req'], RR['verifier'], ADDR), fget(E, b['req'], RR['verifier'], ADDR)))))
        P.append(('both signatures are checked against the requested amount and the same client', b_and(a['amount'] == want, b['amount'] == want, addr_eq(a['client'], b['client']))))
        # each verifier's proposal id for this client is consumed: the stored counter advances by one
        pm = heap_get(E, fget(E, rt.state, SF['remove_data_cap_proposal_ids'], CID))
        P.append(('the proposal counters are written', isinstance(pm, MapM)))
        if isinstance(pm, MapM):
            writes = [(k, val) for (k, pres, val, _) in pm.over if pres]
            P.append(('exactly the two (verifier, client) proposal counters advance', len(writes) == 2))
            if len(writes) == 2:
                P.append(('the two counters belong to the two different verifiers (each approval uses up its own proposal id)', b_not(key_eq(writes[0][0], writes[1][0]))))
            for c_, (k, val) in zip(checks, writes):
                idv = fget(E, c_['id'], 0, 'u64').v if not isinstance(c_['id'], IntV) else c_['id'].v
                newv = E.deref(val)
                nv = fget(E, newv, 0, 'u64').v if not isinstance(newv, IntV) else newv.v
                P.append(('a signature is checked against the current proposal id, which is then used up (a signed removal cannot be replayed)', nv == idv + 1))
    # the datacap actor is asked for the balance, then exactly min(balance, amount) is destroyed from the client
    dsends = [s for s in rt.sends if implied(ctx, b_and(s.to.proto == 0, s.to.key == DATACAP))]
    P.append(('all sends go to the datacap actor and succeed', len(dsends) == len(rt.sends) and all(s.ok is True for s in rt.sends)))
    ret = E.deref(res.value.fields[('Ok', 0)])
    RT_ = Fields('actors/verifreg/src/types.rs', 'RemoveDataCapReturn')
    removed = big(E, fget(E, ret, RT_['data_cap_removed'], 'BigInt'))
    P.append(('never more than requested is removed', z3.And(removed <= want, z3.Implies(want >= 0, removed <= want))))
    # first the balance query (read-only), then at most one Destroy (none when nothing is left to remove)
    P.append(('the client balance is queried first, read-only and without value', len(dsends) >= 1 and all(implied(ctx, s.value == 0) for s in dsends)))
    destroys = dsends[1:]
    P.append(('at most one Destroy on the datacap actor', len(destroys) <= 1))
    if not destroys:
        P.append(('nothing is destroyed only when nothing is removed', removed == 0))
    for s in destroys:
        obj = E.deref(s.params.obj) if isinstance(s.params, BlockV) and s.params.obj is not None else None
        if obj is None:
            P.append(('the Destroy carries typed params', False))
            continue
        P.append(('the amount destroyed is the amount reported as removed (in token units of 10^18), taken from the named client',
                  b_and(big(E, fget(E, obj, 1, 'BigInt')) == removed * 10**18, addr_eq(fget(E, obj, 0, ADDR), fget(E, ret, RT_['verified_client'], ADDR)))))
    return P


# ---- add_verifier / remove_verifier: only the root grants and revokes allowances ------------------------------------------------

def run_verifier(which):
    def run(E):
        rt, rtref = new_rt(E)
        rt.state = LazyV('st', 'State')
        SF = Fields('actors/verifreg/src/state.rs', 'State')
        env = E.ctx.env
        env['vbase'] = 'map(st.%d)' % SF['verifiers']
        params = LazyV('params', 'types::AddVerifierParams' if which == 'add_verifier' else 'types::RemoveVerifierParams')
        env['params'] = params
        fn = find_fn(E, VR, which, 'src/lib.rs')
        return E.run_function(fn, [rtref, params]), rt
    return run


def props_verifier(which):
    def props(E, res):
        env = res.ctx.env
        rt = env['rt']
        ctx = res.ctx
        if res.kind != 'return':
            return [('no panic (%s)' % str(res.info)[:60], False)]
        SF = Fields('actors/verifreg/src/state.rs', 'State')
        if is_err(res.value):
            return [('a refused call leaves the verifier table alone', rt.commits == 0)]
        root = fget(E, rt.state, SF['root_key'], ADDR)
        P = [('only the root key holder changes the set of verifiers', addr_eq(rt.caller, root))]
        vm = heap_get(E, fget(E, rt.state, SF['verifiers'], CID))
        P.append(('verifier table written', isinstance(vm, MapM)))
        if not isinstance(vm, MapM):
            return P
        writes = list(vm.over)
        P.append(('exactly one verifier entry is touched', len(writes) == 1))
        if which == 'add_verifier':
            allowance = big(E, fget(E, env['params'], 1, 'BigInt'))
            P.append(('the allowance granted is at least the minimum allocation size (1 MiB)', allowance >= 1 << 20))
            for (k, pres, val, _) in writes:
                P.append(('the entry written is an ID address other than the root, holding exactly the granted allowance',
                          b_and(pres is True, k[1] == 0, b_not(key_eq(k, ('addr', root.proto, root.key))), big(E, val) == allowance) if pres else False))
            bal = [s for s in rt.sends if implied(ctx, b_and(s.to.proto == 0, s.to.key == DATACAP))]
            P.append(('the datacap balance of the new verifier was queried (a verified client cannot become a verifier), read-only', len(bal) == 1 and bal[0].ok is True and implied(ctx, bal[0].value == 0)))
            tok = find_mat(ctx, 'rt.send[0].ret.Some.0.as<', '>')
            if tok is None:
                P.append(('the balance answer is read', False))
            else:
                # balances are in token units of 10^-18 datacap; the registry counts whole datacap (the token actor keeps balances at that granularity)
                P.append(('an address that holds datacap (a verified client) does not become a verifier', big(E, tok) < 10**18))
        else:
            for (k, pres, val, _) in writes:
                P.append(('the entry is deleted, and it existed', pres is False))
        return P
    return props
