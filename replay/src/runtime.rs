//! `ReplayRuntime`: a LENIENT, scripted implementation of the repo's `Runtime` / `Primitives` /
//! `RuntimePolicy` / `MessageInfo` traits.
//!
//! Structure follows `fil_actors_runtime::test_utils::MockRuntime` (in-memory blockstore, optional
//! state root, `in_transaction` flag) but there is NO expectation checking: whatever the actor does
//! is executed, scripted where the environment has to answer (sends, proof verification) and
//! RECORDED so that it can be printed as an observation afterwards.
//!
//! Semantics that are deliberately the REAL ones (`runtime/src/runtime/fvm.rs`) and not the mock's:
//!   * `validate_immediate_caller_*`: checks the caller for real (Err(forbidden) when not accepted),
//!     a second validation fails with USR_ASSERTION_FAILED, and `finish_call` turns an `Ok` return
//!     without any validation into Err(USR_ASSERTION_FAILED) as the wasm trampoline does;
//!   * `send` inside a transaction fails with SendError(IllegalOperation); `create_actor` /
//!     `delete_actor` inside a transaction fail with USR_ASSERTION_FAILED;
//!   * a send of more than the current balance fails with SendError(InsufficientFunds), a send
//!     carrying value in read-only mode fails with SendError(ReadOnly) -- regardless of the script.
//! Like the mock (and unlike fvm.rs) nested transactions are rejected with USR_ASSERTION_FAILED.
//!
//! Scenario keys understood by `ReplayRuntime::from_scenario` (all optional unless noted):
//!   caller (required, id)      immediate caller, ID address
//!   caller_type                builtin type name ("account" default, "multisig", "init", "evm", ...),
//!                              "other" (has code, not a builtin) or null (no code)
//!   receiver (required, id)    the actor being executed
//!   origin                     default = caller
//!   epoch (i64, default 0), balance (default 0), value_received (default 0), read_only (false)
//!   resolve    [{"addr": <address>, "id": n}]  non-ID address -> ID (ID addresses resolve to themselves)
//!   delegated  [{"id": n, "addr": <f4 address>}]
//!   code_cids  {"<id>": "<type name>" | "other" | null}
//!   default_code  type name | null: code of ids not listed in code_cids (default "account")
//!   actor_balances {"<id>": amount}, circulating_supply, base_fee, nonce, gas_premium
//!   syscalls   {"verify_signature": bool, "verify_post": bool, "verify_replica_update": bool,
//!               "verify_aggregate_seals": bool, "batch_verify_seals": bool, "consensus_fault": bool}
//!   sends      [ {"ok": true, "ret": <ret>} | {"ok": false, "exit_code": N [, "ret": <ret>]} |
//!                {"syserr": "InsufficientFunds" | "NotFound" | ...} ]   consumed in order, one per send
//!              call (also by calls the runtime rejects by itself); when the list is used up sends
//!              fail with exit code 99 and `script_exhausted` is reported
//!              <ret> = null | {"bool": b} | {"u64": n} | {"i64": n} | {"bigint": n} | {"string": s}
//!                      | {"cbor_bytes": "hex"} (a CBOR byte string) | {"bytes": "hex"} (already encoded CBOR)
//!                      | {"address": <address>} (CBOR of an Address, e.g. the account actor's PubkeyAddress answer)
//!                      | {"this_epoch_reward": {"position": n, "velocity": n, "baseline_power": n}}
//!                        (CBOR of fil_actors_runtime::reward::ThisEpochRewardReturn; position/velocity are the
//!                        Q.128 numbers of the smoothed FilterEstimate, i.e. reward = position >> 128)
//!   consensus_fault  what `verify_consensus_fault` answers: {"target": id, "epoch": i64 [, "fault_type":
//!              "DoubleForkMining" (default) | "ParentGrinding" | "TimeOffsetMining"]} -> Ok(Some(fault)),
//!              null -> Ok(None), "error" -> Err.  When the key is absent the older switch
//!              syscalls.consensus_fault decides (true: a fault of the receiver at epoch-1, false: Ok(None)).

use std::cell::RefCell;
use std::collections::{HashMap, VecDeque};
use std::panic::{catch_unwind, AssertUnwindSafe};
use std::rc::Rc;

use anyhow::{anyhow, bail, Context, Result};
use cid::Cid;
use fil_actors_runtime::runtime::builtins::Type;
use fil_actors_runtime::runtime::{
    DomainSeparationTag, MessageInfo, Policy, Primitives, Runtime, RuntimePolicy, EMPTY_ARR_CID,
};
use fil_actors_runtime::test_blockstores::MemoryBlockstore;
use fil_actors_runtime::test_utils::{self, make_identity_cid, ACTOR_CODES, ACTOR_TYPES};
use fil_actors_runtime::reward::{FilterEstimate, ThisEpochRewardReturn};
use fil_actors_runtime::{actor_error, ActorError, SendError};
use fvm_ipld_encoding::ipld_block::IpldBlock;
use fvm_ipld_encoding::{CborStore, CBOR};
use fvm_shared::address::{Address, Payload};
use fvm_shared::bigint::BigInt;
use fvm_shared::chainid::ChainID;
use fvm_shared::clock::ChainEpoch;
use fvm_shared::consensus::{ConsensusFault, ConsensusFaultType};
use fvm_shared::crypto::hash::SupportedHashes;
use fvm_shared::crypto::signature::{
    Signature, SECP_PUB_LEN, SECP_SIG_LEN, SECP_SIG_MESSAGE_HASH_SIZE,
};
use fvm_shared::econ::TokenAmount;
use fvm_shared::error::{ErrorNumber, ExitCode};
use fvm_shared::event::ActorEvent;
use fvm_shared::piece::PieceInfo;
use fvm_shared::randomness::RANDOMNESS_LENGTH;
use fvm_shared::sector::{
    AggregateSealVerifyProofAndInfos, RegisteredSealProof, ReplicaUpdateInfo, SealVerifyInfo,
    WindowPoStVerifyInfo,
};
use fvm_shared::sys::SendFlags;
use fvm_shared::version::NetworkVersion;
use fvm_shared::{ActorID, MethodNum, Response};
use multihash_codetable::Code;
use serde::de::DeserializeOwned;
use serde::Serialize;
use serde_json::{json, Map, Value};

use crate::json_util::*;

/// Exit code returned by sends once the scripted outcomes are used up.
pub const SCRIPT_EXHAUSTED_EXIT_CODE: u32 = 99;
/// Exit code used for `{"ok": false}` outcomes that do not name one (USR_UNSPECIFIED).
pub const DEFAULT_FAILED_SEND_EXIT_CODE: u32 = 23;

#[derive(Clone, Debug)]
pub enum SendOutcome {
    Ok { ret: Option<IpldBlock> },
    Fail { exit_code: u32, ret: Option<IpldBlock> },
    SysErr(ErrorNumber),
}

#[derive(Clone, Debug)]
pub struct SendRecord {
    pub to: Address,
    pub method: MethodNum,
    pub value: TokenAmount,
    pub params: Option<IpldBlock>,
    pub gas_limit: Option<u64>,
    pub flags: SendFlags,
    /// what the runtime answered
    pub ok: bool,
    pub exit_code: Option<u32>,
    pub syserr: Option<String>,
    /// why, when the answer did not come from the script
    pub note: Option<&'static str>,
}

/// Scripted answer of `verify_consensus_fault` (scenario key "consensus_fault").
#[derive(Clone, Debug)]
pub enum ConsensusFaultScript {
    Fault { target: Address, epoch: ChainEpoch, fault_type: ConsensusFaultType },
    NoFault,
    Error,
}

fn parse_consensus_fault(v: &Value) -> Result<ConsensusFaultScript> {
    match v {
        Value::Null => Ok(ConsensusFaultScript::NoFault),
        Value::String(s) if s.eq_ignore_ascii_case("error") || s.eq_ignore_ascii_case("err") => {
            Ok(ConsensusFaultScript::Error)
        }
        Value::String(s) if s.eq_ignore_ascii_case("none") => Ok(ConsensusFaultScript::NoFault),
        Value::Object(_) => {
            let fault_type = match opt(v, "fault_type").and_then(|x| x.as_str()) {
                None | Some("DoubleForkMining") => ConsensusFaultType::DoubleForkMining,
                Some("ParentGrinding") => ConsensusFaultType::ParentGrinding,
                Some("TimeOffsetMining") => ConsensusFaultType::TimeOffsetMining,
                Some(other) => bail!("malformed scenario: unknown consensus fault type '{}'", other),
            };
            Ok(ConsensusFaultScript::Fault {
                target: addr(req(v, "target")?)?,
                epoch: req_i64(v, "epoch")?,
                fault_type,
            })
        }
        other => bail!("malformed scenario: 'consensus_fault' must be an object, null or \"error\", got {}", other),
    }
}

pub struct Syscalls {
    pub verify_signature: bool,
    pub verify_post: bool,
    pub verify_replica_update: bool,
    pub verify_aggregate_seals: bool,
    pub batch_verify_seals: bool,
    pub consensus_fault: bool,
}

pub struct ReplayRuntime {
    // message / chain context
    pub epoch: ChainEpoch,
    pub receiver: Address,
    pub caller: Address,
    pub origin: Address,
    pub value_received: TokenAmount,
    pub nonce: u64,
    pub gas_premium: TokenAmount,
    pub base_fee: TokenAmount,
    pub circulating_supply: TokenAmount,
    pub read_only: bool,
    pub network_version: NetworkVersion,
    pub chain_id: ChainID,
    // address tables
    pub id_addresses: RefCell<HashMap<Address, ActorID>>,
    pub delegated_addresses: RefCell<HashMap<ActorID, Address>>,
    pub code_cids: RefCell<HashMap<ActorID, Option<Cid>>>,
    pub default_code: Option<Cid>,
    pub actor_balances: HashMap<ActorID, TokenAmount>,
    // actor state
    pub state: RefCell<Option<Cid>>,
    pub balance: RefCell<TokenAmount>,
    pub store: Rc<MemoryBlockstore>,
    pub in_transaction: RefCell<bool>,
    pub caller_validated: RefCell<bool>,
    // script
    pub script: RefCell<VecDeque<SendOutcome>>,
    pub syscalls: Syscalls,
    /// None = key absent: `syscalls.consensus_fault` decides
    pub consensus_fault: Option<ConsensusFaultScript>,
    pub consensus_fault_calls: RefCell<u64>,
    // recordings
    pub sends: RefCell<Vec<SendRecord>>,
    pub script_exhausted: RefCell<bool>,
    pub commits: RefCell<u64>,
    pub events: RefCell<u64>,
    pub deleted: RefCell<bool>,
    pub created_actors: RefCell<Vec<(ActorID, Cid)>>,
    pub validations: RefCell<u64>,
    pub policy: Policy,
}

/// Result of one actor call, as the VM would see it.
pub struct CallOutcome {
    /// "Ok" | "Err(<exit code>)" | "panic: <message>"
    pub result: String,
    pub error: Option<String>,
    pub ret: Option<IpldBlock>,
}

pub fn code_for_type_name(name: &str) -> Result<Option<Cid>> {
    let n = name.trim().to_ascii_lowercase();
    let n = match n.as_str() {
        "power" => "storagepower",
        "miner" => "storageminer",
        "market" => "storagemarket",
        "paych" | "payment_channel" => "paymentchannel",
        "verifreg" | "verified_registry" => "verifiedregistry",
        other => other,
    }
    .to_string();
    if n == "none" || n == "null" {
        return Ok(None);
    }
    if n == "other" || n == "unknown" {
        return Ok(Some(make_identity_cid(b"replay/not-a-builtin")));
    }
    for (t, c) in ACTOR_CODES.iter() {
        if t.name() == n {
            return Ok(Some(*c));
        }
    }
    bail!("malformed scenario: unknown actor type name '{}'", name)
}

fn code_of_json(v: Option<&Value>, default: &str) -> Result<Option<Cid>> {
    match v {
        None => code_for_type_name(default),
        Some(Value::Null) => Ok(None),
        Some(Value::String(s)) => code_for_type_name(s),
        Some(other) => bail!("malformed scenario: actor type must be a string or null, got {}", other),
    }
}

pub fn parse_error_number(s: &str) -> Result<ErrorNumber> {
    // lenient spelling: "InsufficientFunds", "insufficient_funds", "INSUFFICIENT-FUNDS"
    let canon: String = s.chars().filter(|c| c.is_ascii_alphanumeric()).collect::<String>().to_ascii_lowercase();
    let names = [
        "IllegalArgument", "IllegalOperation", "LimitExceeded", "AssertionFailed", "InsufficientFunds",
        "NotFound", "InvalidHandle", "IllegalCid", "IllegalCodec", "Serialization", "Forbidden",
        "BufferTooSmall", "ReadOnly",
    ];
    let s = names.iter().find(|n| n.to_ascii_lowercase() == canon).copied().unwrap_or(s);
    Ok(match s {
        "IllegalArgument" => ErrorNumber::IllegalArgument,
        "IllegalOperation" => ErrorNumber::IllegalOperation,
        "LimitExceeded" => ErrorNumber::LimitExceeded,
        "AssertionFailed" => ErrorNumber::AssertionFailed,
        "InsufficientFunds" => ErrorNumber::InsufficientFunds,
        "NotFound" => ErrorNumber::NotFound,
        "InvalidHandle" => ErrorNumber::InvalidHandle,
        "IllegalCid" => ErrorNumber::IllegalCid,
        "IllegalCodec" => ErrorNumber::IllegalCodec,
        "Serialization" => ErrorNumber::Serialization,
        "Forbidden" => ErrorNumber::Forbidden,
        "BufferTooSmall" => ErrorNumber::BufferTooSmall,
        "ReadOnly" => ErrorNumber::ReadOnly,
        other => bail!("malformed scenario: unknown syscall error '{}'", other),
    })
}

/// `<ret>` notation of scripted send results.
pub fn parse_ret(v: Option<&Value>) -> Result<Option<IpldBlock>> {
    let v = match v {
        None | Some(Value::Null) => return Ok(None),
        Some(v) => v,
    };
    let o = v.as_object().ok_or_else(|| anyhow!("malformed scenario: send 'ret' must be null or an object, got {}", v))?;
    if o.len() != 1 {
        bail!("malformed scenario: send 'ret' must have exactly one key, got {}", v);
    }
    let (k, x) = o.iter().next().unwrap();
    let blk = match k.as_str() {
        "bool" => IpldBlock::serialize_cbor(&bool_of(x)?)?,
        "u64" => IpldBlock::serialize_cbor(&u64_of(x)?)?,
        "i64" => IpldBlock::serialize_cbor(&i64_of(x)?)?,
        "bigint" => IpldBlock::serialize_cbor(&fvm_shared::bigint::bigint_ser::BigIntSer(&big(x)?))?,
        "string" => IpldBlock::serialize_cbor(x.as_str().ok_or_else(|| anyhow!("ret.string must be a string"))?)?,
        "cbor_bytes" => IpldBlock::serialize_cbor(&fvm_ipld_encoding::BytesSer(&hex_of(x)?))?,
        "bytes" => Some(IpldBlock { codec: CBOR, data: hex_of(x)? }),
        "address" => IpldBlock::serialize_cbor(&addr(x)?)?,
        "this_epoch_reward" => IpldBlock::serialize_cbor(&ThisEpochRewardReturn {
            this_epoch_reward_smoothed: FilterEstimate {
                position: big(req(x, "position")?)?,
                velocity: opt(x, "velocity").map(big).unwrap_or(Ok(BigInt::from(0)))?,
            },
            this_epoch_baseline_power: opt(x, "baseline_power").map(big).unwrap_or(Ok(BigInt::from(0)))?,
        })?,
        other => bail!("malformed scenario: unknown send 'ret' kind '{}'", other),
    };
    Ok(blk)
}

pub fn parse_send_outcome(v: &Value) -> Result<SendOutcome> {
    if let Some(e) = opt(v, "syserr") {
        let s = e.as_str().ok_or_else(|| anyhow!("malformed scenario: 'syserr' must be a string"))?;
        return Ok(SendOutcome::SysErr(parse_error_number(s)?));
    }
    let ok = bool_of(req(v, "ok").context("scripted send needs 'ok' or 'syserr'")?)?;
    let ret = parse_ret(v.get("ret"))?;
    if ok {
        Ok(SendOutcome::Ok { ret })
    } else {
        let code = opt_u64(v, "exit_code", DEFAULT_FAILED_SEND_EXIT_CODE as u64)? as u32;
        if code == 0 {
            bail!("malformed scenario: a failed send cannot have exit_code 0");
        }
        Ok(SendOutcome::Fail { exit_code: code, ret })
    }
}

impl ReplayRuntime {
    pub fn from_scenario(sc: &Value) -> Result<Self> {
        let caller = Address::new_id(req_u64(sc, "caller")?);
        let receiver = Address::new_id(req_u64(sc, "receiver")?);
        let origin = match opt(sc, "origin") {
            Some(v) => Address::new_id(u64_of(v)?),
            None => caller,
        };
        let caller_type = code_of_json(sc.get("caller_type"), "account")?;
        let default_code = code_of_json(sc.get("default_code"), "account")?;

        let mut id_addresses = HashMap::new();
        for e in list(sc, "resolve")? {
            id_addresses.insert(addr(req(e, "addr")?)?, req_u64(e, "id")?);
        }
        let mut delegated = HashMap::new();
        for e in list(sc, "delegated")? {
            let id = req_u64(e, "id")?;
            let a = addr(req(e, "addr")?)?;
            if !matches!(a.payload(), Payload::Delegated(_)) {
                bail!("malformed scenario: delegated address of {} is not an f4 address", id);
            }
            delegated.insert(id, a);
            id_addresses.insert(a, id);
        }
        let mut code_cids: HashMap<ActorID, Option<Cid>> = HashMap::new();
        code_cids.insert(caller.id().unwrap(), caller_type);
        if let Some(Value::Object(o)) = sc.get("code_cids") {
            for (k, v) in o {
                let id: u64 = k.parse().map_err(|_| anyhow!("malformed scenario: code_cids key '{}' is not an id", k))?;
                code_cids.insert(id, code_of_json(Some(v), "account")?);
            }
        }
        let mut actor_balances = HashMap::new();
        if let Some(Value::Object(o)) = sc.get("actor_balances") {
            for (k, v) in o {
                let id: u64 = k.parse().map_err(|_| anyhow!("malformed scenario: actor_balances key '{}' is not an id", k))?;
                actor_balances.insert(id, token(v)?);
            }
        }
        let mut script = VecDeque::new();
        for (i, s) in list(sc, "sends")?.iter().enumerate() {
            script.push_back(parse_send_outcome(s).with_context(|| format!("sends[{}]", i))?);
        }
        let sy = sc.get("syscalls").cloned().unwrap_or(Value::Null);
        let syscalls = Syscalls {
            verify_signature: opt_bool(&sy, "verify_signature", true)?,
            verify_post: opt_bool(&sy, "verify_post", true)?,
            verify_replica_update: opt_bool(&sy, "verify_replica_update", true)?,
            verify_aggregate_seals: opt_bool(&sy, "verify_aggregate_seals", true)?,
            batch_verify_seals: opt_bool(&sy, "batch_verify_seals", true)?,
            consensus_fault: opt_bool(&sy, "consensus_fault", false)?,
        };
        Ok(ReplayRuntime {
            epoch: opt_i64(sc, "epoch", 0)?,
            receiver,
            caller,
            origin,
            value_received: opt_token(sc, "value_received")?,
            nonce: opt_u64(sc, "nonce", 0)?,
            gas_premium: opt_token(sc, "gas_premium")?,
            base_fee: opt_token(sc, "base_fee")?,
            circulating_supply: opt_token(sc, "circulating_supply")?,
            read_only: opt_bool(sc, "read_only", false)?,
            network_version: NetworkVersion::V0,
            chain_id: ChainID::from(0),
            id_addresses: RefCell::new(id_addresses),
            delegated_addresses: RefCell::new(delegated),
            code_cids: RefCell::new(code_cids),
            default_code,
            actor_balances,
            state: RefCell::new(None),
            balance: RefCell::new(opt_token(sc, "balance")?),
            store: Rc::new(MemoryBlockstore::new()),
            in_transaction: RefCell::new(false),
            caller_validated: RefCell::new(false),
            script: RefCell::new(script),
            syscalls,
            consensus_fault: match sc.get("consensus_fault") {
                None => None,
                Some(v) => Some(parse_consensus_fault(v).context("key 'consensus_fault'")?),
            },
            consensus_fault_calls: RefCell::new(0),
            sends: RefCell::new(vec![]),
            script_exhausted: RefCell::new(false),
            commits: RefCell::new(0),
            events: RefCell::new(0),
            deleted: RefCell::new(false),
            created_actors: RefCell::new(vec![]),
            validations: RefCell::new(0),
            policy: Policy::default(),
        })
    }

    /// Installs the pre-state of the receiver (not counted as a commit).
    pub fn set_initial_state<T: Serialize>(&self, st: &T) -> Result<()> {
        let c = self.store.put_cbor(st, Code::Blake2b256).map_err(|e| anyhow!("cannot store pre-state: {}", e))?;
        self.state.replace(Some(c));
        Ok(())
    }

    /// Current state object of the receiver, if there is one and it decodes.
    pub fn read_state<T: DeserializeOwned>(&self) -> Result<Option<T>> {
        match *self.state.borrow() {
            None => Ok(None),
            Some(c) => self.store.get_cbor::<T>(&c).map_err(|e| anyhow!("state does not decode: {}", e)),
        }
    }

    pub fn add_id_address(&self, a: Address, id: ActorID) {
        self.id_addresses.borrow_mut().insert(a, id);
    }

    fn assert_not_validated(&self) -> Result<(), ActorError> {
        *self.validations.borrow_mut() += 1;
        if *self.caller_validated.borrow() {
            return Err(actor_error!(assertion_failed, "Method must validate caller identity exactly once"));
        }
        Ok(())
    }

    /// Runs one actor entry point the way the VM's trampoline does: panics are caught and reported,
    /// an `Ok` return of a method that never validated its caller becomes USR_ASSERTION_FAILED.
    /// The state root is NOT rolled back on Err (the VM would discard it): observations show what the
    /// actor code itself left behind, `commits` says how many times it wrote the state root.
    pub fn run_call<F>(&self, f: F) -> CallOutcome
    where
        F: FnOnce() -> Result<Option<IpldBlock>, ActorError>,
    {
        let r = catch_panic(f);
        // a panic may have left the transaction flag set
        self.in_transaction.replace(false);
        match r {
            Err(msg) => CallOutcome { result: format!("panic: {}", msg), error: Some(msg), ret: None },
            Ok(Err(e)) => CallOutcome {
                result: format!("Err({})", e.exit_code().value()),
                error: Some(e.msg().to_string()),
                ret: None,
            },
            Ok(Ok(ret)) => {
                if !*self.caller_validated.borrow() {
                    CallOutcome {
                        result: format!("Err({})", ExitCode::USR_ASSERTION_FAILED.value()),
                        error: Some("failed to validate caller (method returned Ok without validating its caller)".into()),
                        ret: None,
                    }
                } else {
                    CallOutcome { result: "Ok".into(), error: None, ret }
                }
            }
        }
    }

    /// Observations every adapter reports: result, sends, deletion, commits, ...
    pub fn common_observations(&self, out: &CallOutcome) -> Map<String, Value> {
        let mut m = Map::new();
        m.insert("result".into(), json!(out.result));
        if let Some(e) = &out.error {
            m.insert("error".into(), json!(e));
        }
        if let Some(r) = &out.ret {
            m.insert("return_hex".into(), json!(hex::encode(&r.data)));
        }
        let sends: Vec<Value> = self
            .sends
            .borrow()
            .iter()
            .map(|s| {
                let mut o = Map::new();
                o.insert("to".into(), addr_json(&s.to));
                o.insert("method".into(), json!(s.method));
                o.insert("value".into(), token_json(&s.value));
                o.insert("ok".into(), json!(s.ok));
                if let Some(c) = s.exit_code {
                    o.insert("exit_code".into(), json!(c));
                }
                if let Some(e) = &s.syserr {
                    o.insert("syserr".into(), json!(e));
                }
                if let Some(n) = s.note {
                    o.insert("note".into(), json!(n));
                }
                o.insert("params_hex".into(), json!(s.params.as_ref().map(|p| hex::encode(&p.data)).unwrap_or_default()));
                o.insert("flags".into(), json!(s.flags.bits()));
                o.insert("read_only".into(), json!(s.flags.read_only()));
                if let Some(g) = s.gas_limit {
                    o.insert("gas_limit".into(), json!(g));
                }
                Value::Object(o)
            })
            .collect();
        m.insert("sends".into(), Value::Array(sends));
        m.insert("deleted".into(), json!(*self.deleted.borrow()));
        m.insert("commits".into(), json!(*self.commits.borrow()));
        m.insert("events".into(), json!(*self.events.borrow()));
        m.insert("caller_validated".into(), json!(*self.caller_validated.borrow()));
        m.insert("validations".into(), json!(*self.validations.borrow()));
        m.insert("script_exhausted".into(), json!(*self.script_exhausted.borrow()));
        m.insert("unused_scripted_sends".into(), json!(self.script.borrow().len()));
        m.insert("final_balance".into(), token_json(&self.balance.borrow()));
        let created: Vec<Value> =
            self.created_actors.borrow().iter().map(|(id, c)| json!({"id": id, "code": c.to_string()})).collect();
        if !created.is_empty() {
            m.insert("created_actors".into(), Value::Array(created));
        }
        m
    }

    fn record(&self, rec: SendRecord) {
        self.sends.borrow_mut().push(rec);
    }
}

thread_local! {
    static PANIC_INFO: RefCell<Option<String>> = const { RefCell::new(None) };
}

/// Runs `f`, catching a panic: Err("<message> at <file>:<line>") instead of unwinding further (nothing is
/// printed on stderr).  Used by `run_call` and by the function-level adapters that have no runtime.
pub fn catch_panic<T>(f: impl FnOnce() -> T) -> std::result::Result<T, String> {
    PANIC_INFO.with(|p| p.replace(None));
    let prev = std::panic::take_hook();
    std::panic::set_hook(Box::new(|info| {
        let msg = if let Some(s) = info.payload().downcast_ref::<&str>() {
            s.to_string()
        } else if let Some(s) = info.payload().downcast_ref::<String>() {
            s.clone()
        } else {
            "<non-string panic payload>".to_string()
        };
        let loc = info.location().map(|l| format!(" at {}:{}", l.file(), l.line())).unwrap_or_default();
        PANIC_INFO.with(|p| p.replace(Some(format!("{}{}", msg, loc))));
    }));
    let r = catch_unwind(AssertUnwindSafe(f));
    std::panic::set_hook(prev);
    r.map_err(|_| PANIC_INFO.with(|p| p.borrow().clone()).unwrap_or_else(|| "<unknown>".into()))
}

impl MessageInfo for ReplayRuntime {
    fn nonce(&self) -> u64 {
        self.nonce
    }
    fn caller(&self) -> Address {
        self.caller
    }
    fn origin(&self) -> Address {
        self.origin
    }
    fn receiver(&self) -> Address {
        self.receiver
    }
    fn value_received(&self) -> TokenAmount {
        self.value_received.clone()
    }
    fn gas_premium(&self) -> TokenAmount {
        self.gas_premium.clone()
    }
}

impl Runtime for ReplayRuntime {
    type Blockstore = Rc<MemoryBlockstore>;

    fn network_version(&self) -> NetworkVersion {
        self.network_version
    }

    fn message(&self) -> &dyn MessageInfo {
        self
    }

    fn curr_epoch(&self) -> ChainEpoch {
        self.epoch
    }

    fn chain_id(&self) -> ChainID {
        self.chain_id
    }

    fn validate_immediate_caller_accept_any(&self) -> Result<(), ActorError> {
        self.assert_not_validated()?;
        self.caller_validated.replace(true);
        Ok(())
    }

    fn validate_immediate_caller_is<'a, I>(&self, addresses: I) -> Result<(), ActorError>
    where
        I: IntoIterator<Item = &'a Address>,
    {
        self.assert_not_validated()?;
        let caller_addr = self.caller;
        if addresses.into_iter().any(|a| *a == caller_addr) {
            self.caller_validated.replace(true);
            Ok(())
        } else {
            Err(actor_error!(forbidden; "caller {} is not one of supported", caller_addr))
        }
    }

    fn validate_immediate_caller_namespace<I>(&self, namespaces: I) -> Result<(), ActorError>
    where
        I: IntoIterator<Item = u64>,
    {
        self.assert_not_validated()?;
        let caller_addr = self.caller;
        let caller_f4 = self.lookup_delegated_address(caller_addr.id().unwrap()).map(|a| *a.payload());
        if namespaces
            .into_iter()
            .any(|a| matches!(caller_f4, Some(Payload::Delegated(d)) if d.namespace() == a))
        {
            self.caller_validated.replace(true);
            Ok(())
        } else {
            Err(actor_error!(forbidden; "caller's namespace {} is not one of supported", caller_addr))
        }
    }

    fn validate_immediate_caller_type<'a, I>(&self, types: I) -> Result<(), ActorError>
    where
        I: IntoIterator<Item = &'a Type>,
    {
        self.assert_not_validated()?;
        let caller_cid = self.get_actor_code_cid(&self.caller.id().unwrap());
        match caller_cid.and_then(|c| self.resolve_builtin_actor_type(&c)) {
            Some(typ) if types.into_iter().any(|t| *t == typ) => {
                self.caller_validated.replace(true);
                Ok(())
            }
            _ => Err(actor_error!(forbidden; "caller cid type {:?} not one of supported", caller_cid)),
        }
    }

    fn current_balance(&self) -> TokenAmount {
        self.balance.borrow().clone()
    }

    fn actor_balance(&self, id: ActorID) -> Option<TokenAmount> {
        if Address::new_id(id) == self.receiver {
            return Some(self.balance.borrow().clone());
        }
        self.actor_balances.get(&id).cloned()
    }

    fn resolve_address(&self, address: &Address) -> Option<ActorID> {
        if let &Payload::ID(id) = address.payload() {
            return Some(id);
        }
        self.id_addresses.borrow().get(address).copied()
    }

    fn lookup_delegated_address(&self, id: ActorID) -> Option<Address> {
        self.delegated_addresses.borrow().get(&id).copied()
    }

    fn get_actor_code_cid(&self, id: &ActorID) -> Option<Cid> {
        match self.code_cids.borrow().get(id) {
            Some(c) => *c,
            None => self.default_code,
        }
    }

    fn get_randomness_from_tickets(
        &self,
        tag: DomainSeparationTag,
        epoch: ChainEpoch,
        entropy: &[u8],
    ) -> Result<[u8; RANDOMNESS_LENGTH], ActorError> {
        Ok(fake_randomness(b"tickets", tag as i64, epoch, entropy))
    }

    fn get_randomness_from_beacon(
        &self,
        tag: DomainSeparationTag,
        epoch: ChainEpoch,
        entropy: &[u8],
    ) -> Result<[u8; RANDOMNESS_LENGTH], ActorError> {
        Ok(fake_randomness(b"beacon", tag as i64, epoch, entropy))
    }

    fn get_beacon_randomness(&self, epoch: ChainEpoch) -> Result<[u8; RANDOMNESS_LENGTH], ActorError> {
        Ok(fake_randomness(b"beacon-raw", 0, epoch, &[]))
    }

    fn create<T: Serialize>(&self, obj: &T) -> Result<(), ActorError> {
        if self.state.borrow().is_some() {
            return Err(actor_error!(illegal_state; "state already constructed"));
        }
        let c = self
            .store
            .put_cbor(obj, Code::Blake2b256)
            .map_err(|e| actor_error!(illegal_argument; "failed to write actor state during creation: {}", e.to_string()))?;
        self.state.replace(Some(c));
        *self.commits.borrow_mut() += 1;
        Ok(())
    }

    fn state<T: DeserializeOwned>(&self) -> Result<T, ActorError> {
        let root = self.state.borrow().expect("State does not exist for actor state root");
        Ok(self
            .store
            .get_cbor(&root)
            .map_err(|_| actor_error!(illegal_argument; "failed to get actor for Readonly state"))?
            .expect("State does not exist for actor state root"))
    }

    fn get_state_root(&self) -> Result<Cid, ActorError> {
        Ok(self.state.borrow().unwrap_or(EMPTY_ARR_CID))
    }

    fn set_state_root(&self, root: &Cid) -> Result<(), ActorError> {
        self.state.replace(Some(*root));
        *self.commits.borrow_mut() += 1;
        Ok(())
    }

    fn transaction<S, RT, F>(&self, f: F) -> Result<RT, ActorError>
    where
        S: Serialize + DeserializeOwned,
        F: FnOnce(&mut S, &Self) -> Result<RT, ActorError>,
    {
        if *self.in_transaction.borrow() {
            return Err(actor_error!(assertion_failed; "nested transaction"));
        }
        let mut st: S = self.state()?;
        self.in_transaction.replace(true);
        let ret = f(&mut st, self);
        self.in_transaction.replace(false);
        // roll back on Err: the modified copy is simply dropped
        let ret = ret?;
        let c = self
            .store
            .put_cbor(&st, Code::Blake2b256)
            .map_err(|e| actor_error!(illegal_argument; "failed to write actor state in transaction: {}", e.to_string()))?;
        self.state.replace(Some(c));
        *self.commits.borrow_mut() += 1;
        Ok(ret)
    }

    fn store(&self) -> &Rc<MemoryBlockstore> {
        &self.store
    }

    fn send(
        &self,
        to: &Address,
        method: MethodNum,
        params: Option<IpldBlock>,
        value: TokenAmount,
        gas_limit: Option<u64>,
        flags: SendFlags,
    ) -> Result<Response, SendError> {
        let mut rec = SendRecord {
            to: *to,
            method,
            value: value.clone(),
            params,
            gas_limit,
            flags,
            ok: false,
            exit_code: None,
            syserr: None,
            note: None,
        };
        let fail = |mut rec: SendRecord, e: ErrorNumber, note: &'static str| {
            rec.syserr = Some(format!("{:?}", e));
            rec.note = Some(note);
            self.record(rec);
            Err(SendError(e))
        };
        // EVERY send call consumes one scripted outcome (also the ones rejected below without
        // looking at it), so that the script stays aligned with the order of the send calls
        let scripted = self.script.borrow_mut().pop_front();
        if *self.in_transaction.borrow() {
            return fail(rec, ErrorNumber::IllegalOperation, "send inside transaction");
        }

        if value.is_negative() || value.atto() > &BigInt::from(u128::MAX) {
            return fail(rec, ErrorNumber::InsufficientFunds, "value not representable");
        }
        if (self.read_only || flags.read_only()) && !value.is_zero() {
            return fail(rec, ErrorNumber::ReadOnly, "value transfer in read-only mode");
        }
        if value > *self.balance.borrow() {
            return fail(rec, ErrorNumber::InsufficientFunds, "value exceeds balance");
        }
        match scripted {
            None => {
                self.script_exhausted.replace(true);
                rec.exit_code = Some(SCRIPT_EXHAUSTED_EXIT_CODE);
                rec.note = Some("script exhausted");
                self.record(rec);
                Ok(Response { exit_code: ExitCode::new(SCRIPT_EXHAUSTED_EXIT_CODE), return_data: None })
            }
            Some(SendOutcome::SysErr(e)) => fail(rec, e, "scripted"),
            Some(SendOutcome::Fail { exit_code, ret }) => {
                rec.exit_code = Some(exit_code);
                self.record(rec);
                Ok(Response { exit_code: ExitCode::new(exit_code), return_data: ret })
            }
            Some(SendOutcome::Ok { ret }) => {
                let to_self = self.resolve_address(to).map(Address::new_id) == Some(self.receiver);
                if !to_self {
                    *self.balance.borrow_mut() -= &value;
                }
                rec.ok = true;
                rec.exit_code = Some(0);
                self.record(rec);
                Ok(Response { exit_code: ExitCode::OK, return_data: ret })
            }
        }
    }

    fn new_actor_address(&self) -> Result<Address, ActorError> {
        let n = self.created_actors.borrow().len();
        Ok(Address::new_actor(format!("replay-new-actor-{}", n).as_bytes()))
    }

    fn create_actor(
        &self,
        code_id: Cid,
        actor_id: ActorID,
        _predictable_address: Option<Address>,
    ) -> Result<(), ActorError> {
        if *self.in_transaction.borrow() {
            return Err(actor_error!(assertion_failed; "create_actor is not allowed during transaction"));
        }
        if self.read_only {
            return Err(ActorError::read_only("create_actor in read-only mode".into()));
        }
        self.code_cids.borrow_mut().insert(actor_id, Some(code_id));
        self.created_actors.borrow_mut().push((actor_id, code_id));
        Ok(())
    }

    fn delete_actor(&self) -> Result<(), ActorError> {
        if *self.in_transaction.borrow() {
            return Err(actor_error!(assertion_failed; "delete_actor is not allowed during transaction"));
        }
        if self.read_only {
            return Err(ActorError::read_only("delete_actor in read-only mode".into()));
        }
        // the state object is kept so that it can still be printed; `deleted` tells the story
        self.deleted.replace(true);
        Ok(())
    }

    fn resolve_builtin_actor_type(&self, code_id: &Cid) -> Option<Type> {
        ACTOR_TYPES.get(code_id).cloned()
    }

    fn get_code_cid_for_type(&self, typ: Type) -> Cid {
        *ACTOR_CODES.get(&typ).expect("unknown builtin actor type")
    }

    fn total_fil_circ_supply(&self) -> TokenAmount {
        self.circulating_supply.clone()
    }

    fn charge_gas(&self, _name: &'static str, _compute: i64) {}

    fn base_fee(&self) -> TokenAmount {
        self.base_fee.clone()
    }

    fn gas_available(&self) -> u64 {
        10_000_000_000u64
    }

    fn tipset_timestamp(&self) -> u64 {
        0
    }

    fn tipset_cid(&self, epoch: i64) -> Result<Cid, ActorError> {
        let offset = self.epoch - epoch;
        if offset <= 0 || epoch < 0 || offset > self.policy.chain_finality {
            return Err(actor_error!(illegal_argument; "invalid epoch to fetch tipset_cid {}", epoch));
        }
        Ok(make_identity_cid(format!("replay/tipset/{}", epoch).as_bytes()))
    }

    fn emit_event(&self, _event: &ActorEvent) -> Result<(), ActorError> {
        if self.read_only {
            return Err(actor_error!(assertion_failed; "failed to emit event: read-only"));
        }
        *self.events.borrow_mut() += 1;
        Ok(())
    }

    fn read_only(&self) -> bool {
        self.read_only
    }
}

fn fake_randomness(kind: &[u8], tag: i64, epoch: ChainEpoch, entropy: &[u8]) -> [u8; RANDOMNESS_LENGTH] {
    let mut data = Vec::new();
    data.extend_from_slice(b"replay-randomness/");
    data.extend_from_slice(kind);
    data.extend_from_slice(&tag.to_be_bytes());
    data.extend_from_slice(&epoch.to_be_bytes());
    data.extend_from_slice(entropy);
    test_utils::blake2b_256(&data)
}

fn scripted(ok: bool, what: &str) -> anyhow::Result<()> {
    if ok {
        Ok(())
    } else {
        Err(anyhow!("{} rejected by the replay script", what))
    }
}

impl Primitives for ReplayRuntime {
    fn hash_blake2b(&self, data: &[u8]) -> [u8; 32] {
        test_utils::blake2b_256(data)
    }

    fn hash(&self, hasher: SupportedHashes, data: &[u8]) -> Vec<u8> {
        let (digest, len) = test_utils::hash(hasher, data);
        Vec::from(&digest[..len])
    }

    fn hash_64(&self, hasher: SupportedHashes, data: &[u8]) -> ([u8; 64], usize) {
        test_utils::hash(hasher, data)
    }

    fn compute_unsealed_sector_cid(&self, _reg: RegisteredSealProof, pieces: &[PieceInfo]) -> anyhow::Result<Cid> {
        let mut data = b"replay-commd".to_vec();
        for p in pieces {
            data.extend_from_slice(&p.cid.to_bytes());
            data.extend_from_slice(&p.size.0.to_be_bytes());
        }
        Ok(test_utils::make_piece_cid(&data))
    }

    fn verify_signature(&self, _signature: &Signature, _signer: &Address, _plaintext: &[u8]) -> anyhow::Result<()> {
        scripted(self.syscalls.verify_signature, "signature")
    }

    fn recover_secp_public_key(
        &self,
        hash: &[u8; SECP_SIG_MESSAGE_HASH_SIZE],
        signature: &[u8; SECP_SIG_LEN],
    ) -> anyhow::Result<[u8; SECP_PUB_LEN]> {
        test_utils::recover_secp_public_key(hash, signature).map_err(|_| anyhow!("failed to recover pubkey."))
    }

    fn verify_post(&self, _verify_info: &WindowPoStVerifyInfo) -> anyhow::Result<()> {
        scripted(self.syscalls.verify_post, "window post")
    }

    fn verify_consensus_fault(&self, _h1: &[u8], _h2: &[u8], _extra: &[u8]) -> anyhow::Result<Option<ConsensusFault>> {
        *self.consensus_fault_calls.borrow_mut() += 1;
        match &self.consensus_fault {
            Some(ConsensusFaultScript::Fault { target, epoch, fault_type }) => {
                Ok(Some(ConsensusFault { target: *target, epoch: *epoch, fault_type: *fault_type }))
            }
            Some(ConsensusFaultScript::NoFault) => Ok(None),
            Some(ConsensusFaultScript::Error) => Err(anyhow!("consensus fault verification rejected by the replay script")),
            None if self.syscalls.consensus_fault => Ok(Some(ConsensusFault {
                target: self.receiver,
                epoch: self.epoch - 1,
                fault_type: ConsensusFaultType::DoubleForkMining,
            })),
            None => Ok(None),
        }
    }

    fn batch_verify_seals(&self, batch: &[SealVerifyInfo]) -> anyhow::Result<Vec<bool>> {
        Ok(vec![self.syscalls.batch_verify_seals; batch.len()])
    }

    fn verify_aggregate_seals(&self, _aggregate: &AggregateSealVerifyProofAndInfos) -> anyhow::Result<()> {
        scripted(self.syscalls.verify_aggregate_seals, "aggregate seal proof")
    }

    fn verify_replica_update(&self, _replica: &ReplicaUpdateInfo) -> anyhow::Result<()> {
        scripted(self.syscalls.verify_replica_update, "replica update proof")
    }
}

impl RuntimePolicy for ReplayRuntime {
    fn policy(&self) -> &Policy {
        &self.policy
    }
}
