"""C16 — payment channel: vouchers redeem once and the payout is exact.

Whole-actor obligations over fil_actor_paych (update_channel_state, settle, collect) executed from MIR with
arbitrary state, caller, epoch, balance, voucher and nested-send outcomes.  The oracle below is written from the
property statement / the payment-channel spec, not from the code."""
from .common import *

PROPERTY = 'C16'
CRATES = ['fil_actors_runtime', 'fil_actor_paych']
AUTHENTICATE_MESSAGE_METHOD = 2643134072     # FRC-0042 hash of "AuthenticateMessage"
SETTLE_DELAY_SPEC = 2880 * 12 // 24 * 2 // 2  # 12 hours at 30 s epochs = 1440


def _fields():
    ST = Fields('actors/paych/src/state.rs', 'State')
    LS = Fields('actors/paych/src/state.rs', 'LaneState')
    MG = Fields('actors/paych/src/state.rs', 'Merge')
    SV = Fields('actors/paych/src/types.rs', 'SignedVoucher')
    UP = Fields('actors/paych/src/types.rs', 'UpdateChannelStateParams')
    return ST, LS, MG, SV, UP


def pre_state(E):
    """symbolic channel state with its representation invariant assumed (established by the constructor and, for
    0 <= to_send <= balance, by the post-conditions proved here: inductive)"""
    ST, LS, MG, SV, UP = _fields()
    st = LazyV('st', 'State')
    frm = fget(E, st, ST['from'], ADDR)
    to = fget(E, st, ST['to'], ADDR)
    to_send = fget(E, st, ST['to_send'], TOKEN).v
    settling_at = fget(E, st, ST['settling_at'], 'i64').v
    msh = fget(E, st, ST['min_settle_height'], 'i64').v
    E.ctx.assume(z3.And(frm.proto == 0, to.proto == 0))
    E.ctx.assume(z3.And(to_send >= 0, settling_at >= 0, msh >= 0))
    return dict(st=st, frm=frm, to=to, to_send=to_send, settling_at=settling_at, msh=msh)


def _lane_value_hook(E, m, kt, val):
    ST, LS, MG, SV, UP = _fields()
    if m.base and m.base.startswith('map(st.'):
        red = fget(E, val, LS['redeemed'], TOKEN).v
        E.ctx.assume(red >= 0)
        # channel invariant: to_send = sum of redeemed over ALL lanes, hence >= the sum over the lanes seen so far
        tot = E.ctx.env.get('redeemed_seen', 0) + red
        E.ctx.env['redeemed_seen'] = tot
        E.ctx.assume(E.ctx.env['pre']['to_send'] >= tot)


def run_update(nmerges, slim=False):
    def run(E):
        ST, LS, MG, SV, UP = _fields()
        rt, rtref = new_rt(E)
        pre = pre_state(E)
        E.ctx.env['pre'] = pre
        E.ctx.env['map_value_hook'] = _lane_value_hook
        E.ctx.assume(rt.balance >= pre['to_send'])
        merges = VecV([LazyV('merge%d' % i, 'state::Merge') for i in range(nmerges)], 'Vec<Merge>')
        sv = StructV('types::SignedVoucher', {SV['merges']: merges}, lazy='sv')
        params = StructV('types::UpdateChannelStateParams', {UP['sv']: sv}, lazy='params')
        E.ctx.env['sv'] = sv
        E.ctx.env['params'] = params
        E.ctx.env['nmerges'] = nmerges
        if slim:
            # reduced variant for the quick tier: the gates that are independent of the merge arithmetic are fixed to
            # their pass-through values (they are covered symbolically by the merges<=1 obligations)
            ex = E.lazy_enum(fget(E, sv, SV['extra'], 'std::option::Option<types::ModVerifyParams>'))
            E.ctx.assume(ex.tag == 0)
            E.ctx.assume(models_fvm._symbytes_len(E, fget(E, sv, SV['secret_pre_image'], 'std::vec::Vec<u8>')).v == 0)
            E.ctx.assume(fget(E, sv, SV['time_lock_max'], 'i64').v == 0)
            E.ctx.assume(fget(E, sv, SV['time_lock_min'], 'i64').v == 0)
            E.ctx.assume(pre['settling_at'] == 0)
            E.ctx.assume(fget(E, sv, SV['channel_addr'], ADDR).proto == 0)
            E.ctx.assume(addr_eq(rt.caller, pre['to']))
        fn = find_fn(E, 'fil_actor_paych', 'update_channel_state')
        r = E.run_function(fn, [rtref, params])
        return r, rt
    return run


def props_update(E, res):
    ST, LS, MG, SV, UP = _fields()
    ctx = res.ctx
    env = ctx.env
    rt = env['rt']
    pre = env['pre']
    P = []
    if res.kind != 'return':
        # an arithmetic-overflow or explicit panic aborts the message: state untouched by construction of the VM,
        # but a panic is never an acceptable outcome for well-typed input
        P.append(('no panic (%s)' % str(res.info)[:60], False))
        return P
    v = res.value
    if is_err(v):
        P.append(('rejected call commits nothing', rt.commits == 0))
        P.append(('rejected call transfers nothing', all_of([b_or(not s.ok, s.value == 0) for s in rt.sends])))
        return P
    sv = env['sv']
    params = env['params']
    caller = rt.caller
    # (a) only the two parties
    P.append(('caller is a channel party', b_or(addr_eq(caller, pre['frm']), addr_eq(caller, pre['to']))))
    P.append(('caller validated exactly once', len(rt.validations) == 1))
    # (b) authenticated by the other party
    P.append(('authentication send happened', len(rt.sends) >= 1))
    if not rt.sends:
        return P
    s0 = rt.sends[0]
    signer_is_other = b_or(b_and(addr_eq(caller, pre['frm']), addr_eq(s0.to, pre['to'])),
                           b_and(addr_eq(caller, pre['to']), addr_eq(s0.to, pre['frm']),
                                 b_not(addr_eq(caller, pre['frm']))))
    P.append(('signature checked against the counter-party', signer_is_other))
    P.append(('authentication uses AuthenticateMessage', zv(s0.method) == AUTHENTICATE_MESSAGE_METHOD))
    P.append(('authentication carries no value', s0.value == 0))
    P.append(('authentication succeeded', s0.ok is True))
    retn = z3.Bool('rt.send[0].ret.Some.0.as<bool>')
    P.append(('authentication answered true', retn))
    # message authenticated = this voucher's signing bytes, signature = the voucher's signature bytes
    pobj = s0.params.obj if isinstance(s0.params, BlockV) else None
    P.append(('authentication params present', pobj is not None))
    if pobj is not None:
        msg = E.deref(fget(E, pobj, 1, 'Vec<u8>'))
        sig = E.deref(fget(E, pobj, 0, 'Vec<u8>'))
        mobj = msg.obj if isinstance(msg, BlockV) else None
        P.append(('authenticated message is an encoding of the voucher', mobj is not None))
        if mobj is not None:
            for fname, fty in (('channel_addr', ADDR), ('time_lock_min', 'i64'), ('time_lock_max', 'i64'),
                               ('lane', 'u64'), ('nonce', 'u64'), ('amount', TOKEN), ('min_settle_height', 'i64')):
                a = E.deref(fget(E, mobj, SV[fname], fty))
                b = E.deref(fget(E, sv, SV[fname], fty))
                P.append(('signed bytes cover voucher.%s' % fname, deep_eq(E, a, b)))
            for fname, fty in (('secret_pre_image', 'std::vec::Vec<u8>'), ('extra', 'std::option::Option<types::ModVerifyParams>'),
                               ('merges', 'std::vec::Vec<state::Merge>')):
                a = E.deref(fget(E, mobj, SV[fname], fty))
                b = E.deref(fget(E, sv, SV[fname], fty))
                P.append(('signed bytes cover voucher.%s' % fname, deep_eq(E, a, b)))
            sgn = E.deref(fget(E, mobj, SV['signature'], '()'))
            P.append(('signed bytes exclude the signature', sgn is UNIT))
        vsig = fget(E, sv, SV['signature'], 'std::option::Option<fvm_shared::crypto::signature::Signature>')
        P.append(('voucher is signed', implied(ctx, E.lazy_enum(vsig).tag == 1) if isinstance(vsig, LazyV) else vsig.vname == 'Some'))
        P.append(('signature bytes forwarded', isinstance(sig, SymBytes) and sig.name.startswith('sv.%d.Some.0' % SV['signature'])))
    # (c) names this channel
    ch = fget(E, sv, SV['channel_addr'], ADDR)
    resolved = None
    if implied(ctx, ch.proto == 0):
        resolved = ch.key
    else:
        for (kt, val) in rt.funcs.get('resolve', []):
            if implied(ctx, key_eq(kt, ('addr', ch.proto, ch.key))):
                if val.vname == 'Some':
                    resolved = val.fields[('Some', 0)].v
    P.append(('voucher channel address resolves', resolved is not None))
    if resolved is not None:
        P.append(('voucher names this channel', resolved == rt.receiver.key))
    # (d) time lock
    tmin = fget(E, sv, SV['time_lock_min'], 'i64').v
    tmax = fget(E, sv, SV['time_lock_max'], 'i64').v
    P.append(('time_lock_min <= epoch', tmin <= rt.epoch))
    P.append(('epoch <= time_lock_max (0 = none)', b_or(tmax == 0, rt.epoch <= tmax)))
    P.append(('no voucher after settlement', b_or(pre['settling_at'] == 0, rt.epoch < pre['settling_at'])))
    # (e) secret
    spi = fget(E, sv, SV['secret_pre_image'], 'std::vec::Vec<u8>')
    secret = fget(E, params, UP['secret'], 'std::vec::Vec<u8>')
    spi_len = models_fvm._symbytes_len(E, spi).v
    if not implied(ctx, spi_len == 0):
        hk = [k for k in ctx.memo if isinstance(k, tuple) and k and k[0] == 'hash']
        okh = False
        for k in hk:
            h = ctx.memo[k]
            if repr(secret) in k[2]:
                okh = implied(ctx, models_fvm._symbytes_eq(E, h, spi))
        P.append(('secret pre-image matches hash of the supplied secret', okh))
    # (k) extra
    ex = fget(E, sv, SV['extra'], 'std::option::Option<types::ModVerifyParams>')
    exn = E.lazy_enum(ex) if isinstance(ex, LazyV) else ex
    has_extra = not implied(ctx, exn.tag == 0)
    if has_extra:
        P.append(('extra verification send happened', len(rt.sends) == 2 and rt.sends[1].ok is True))
        if len(rt.sends) == 2:
            s1 = rt.sends[1]
            exa = E.materialize(ADDR, 'sv.%d.Some.0.0' % SV['extra'])
            P.append(('extra verification goes to the named actor', addr_eq(s1.to, exa)))
            P.append(('extra verification method', zv(s1.method) == z3.Int('sv.%d.Some.0.1' % SV['extra'])))
            P.append(('extra verification carries no value', s1.value == 0))
    else:
        P.append(('no further sends', len(rt.sends) == 1))
    # lanes
    lane = fget(E, sv, SV['lane'], 'u64').v
    nonce = fget(E, sv, SV['nonce'], 'u64').v
    amount = fget(E, sv, SV['amount'], TOKEN).v
    vmsh = fget(E, sv, SV['min_settle_height'], 'i64').v
    base = 'map(st.%d)' % ST['lane_states']
    pl, lv = base_lookup(E, base, ('int', lane))
    P.append(('voucher lane was looked up', pl is not None))
    red_lane = 0
    if pl:
        red_lane = fget(E, lv, LS['redeemed'], TOKEN).v
        P.append(('nonce above the lane nonce', nonce > fget(E, lv, LS['nonce'], 'u64').v))
    P.append(('lane id within range', lane <= 2**63 - 1))
    # merges with set semantics ("the lanes it merges")
    nm = env['nmerges']
    merged = []   # (lane term, redeemed, merge nonce)
    for i in range(nm):
        mg = LazyV('merge%d' % i, 'state::Merge')
        ml = fget(E, mg, MG['lane'], 'u64').v
        mn = fget(E, mg, MG['nonce'], 'u64').v
        P.append(('merge %d: lane differs from the voucher lane' % i, ml != lane))
        pm, mv = base_lookup(E, base, ('int', ml))
        P.append(('merge %d: lane exists' % i, pm is True))
        if pm:
            P.append(('merge %d: nonce above the merged lane nonce' % i, mn > fget(E, mv, LS['nonce'], 'u64').v))
            dup = any(implied(ctx, ml == x[0]) for x in merged)
            if dup:
                P.append(('merge %d: a lane is merged once per voucher (set semantics) [same lane listed twice in merges]' % i, False))
            merged.append((ml, fget(E, mv, LS['redeemed'], TOKEN).v, mn, dup))
    final = rt.state
    to_send1 = fget(E, final, ST['to_send'], TOKEN).v
    delta_spec = amount - red_lane - sum(x[1] for x in merged if not x[3])
    duptag = ' [same lane listed twice in merges]' if any(x[3] for x in merged) else ''
    P.append(('amount owed changes by amount - already redeemed (lane and merged lanes)' + duptag, to_send1 - pre['to_send'] == delta_spec))
    P.append(('amount owed non-negative', to_send1 >= 0))
    P.append(('amount owed covered by balance', to_send1 <= rt.balance))
    P.append(('voucher amount non-negative', amount >= 0))
    # lane table after
    fcid = fget(E, final, ST['lane_states'], CID)
    fm = heap_get(E, fcid) if isinstance(fcid, CidV) else None
    P.append(('lane table written', isinstance(fm, MapM)))
    if isinstance(fm, MapM):
        p1, v1 = final_lookup(E, fm, ('int', lane))
        P.append(('voucher lane stored', p1 is True))
        if p1:
            P.append(('lane.redeemed = voucher amount', fget(E, v1, LS['redeemed'], TOKEN).v == amount))
            P.append(('lane.nonce = voucher nonce', fget(E, v1, LS['nonce'], 'u64').v == nonce))
        for i, (ml, mred, mn, dup) in enumerate(merged):
            p2, v2 = final_lookup(E, fm, ('int', ml))
            P.append(('merged lane %d kept' % i, p2 is True))
            if p2:
                later = [x for x in merged[i + 1:] if implied(ctx, x[0] == ml)]
                if not later:
                    P.append(('merged lane %d nonce advanced' % i, fget(E, v2, LS['nonce'], 'u64').v == mn))
                P.append(('merged lane %d redeemed unchanged' % i, fget(E, v2, LS['redeemed'], TOKEN).v == mred))
        # frame: every written key is the voucher lane or a merged lane
        for (k, pres, val, _) in fm.over:
            P.append(('only voucher/merged lanes written', any_of([key_eq(k, ('int', lane))] + [key_eq(k, ('int', x[0])) for x in merged])))
            P.append(('no lane deleted', pres is True))
        P.append(('lane table derives from the previous one', fm.base == base))
    # (j) settle heights only extend
    sa1 = fget(E, final, ST['settling_at'], 'i64').v
    msh1 = fget(E, final, ST['min_settle_height'], 'i64').v
    mx = lambda a, b: z3.If(a >= b, a, b)
    P.append(('min_settle_height = max(old, voucher)', msh1 == mx(pre['msh'], vmsh) if True else True))
    P.append(('settling_at only extends', sa1 == z3.If(pre['settling_at'] == 0, 0, mx(pre['settling_at'], vmsh))))
    P.append(('parties unchanged', b_and(addr_eq(fget(E, final, ST['from'], ADDR), pre['frm']),
                                         addr_eq(fget(E, final, ST['to'], ADDR), pre['to']))))
    P.append(('exactly one commit', rt.commits == 1))
    P.append(('actor not deleted', rt.deleted is False))
    return P


def scenario_update(E, res, m):
    ST, LS, MG, SV, UP = _fields()
    env = res.ctx.env
    rt = env['rt']
    pre = env['pre']
    sv = env['sv']
    base = 'map(st.%d)' % ST['lane_states']
    lanes = []
    for e in base_info(E, base).entries:
        if e[1] is True:
            lanes.append({'id': ev(m, e[0][1]), 'redeemed': ev(m, fget(E, e[2], LS['redeemed'], TOKEN).v),
                          'nonce': ev(m, fget(E, e[2], LS['nonce'], 'u64').v)})
    g = lambda f, ty: ev(m, zv(fget(E, sv, SV[f], ty)))
    merges = []
    for i in range(env['nmerges']):
        mg = LazyV('merge%d' % i, 'state::Merge')
        merges.append({'lane': ev(m, fget(E, mg, MG['lane'], 'u64').v), 'nonce': ev(m, fget(E, mg, MG['nonce'], 'u64').v)})
    ch = fget(E, sv, SV['channel_addr'], ADDR)
    ex = fget(E, sv, SV['extra'], 'std::option::Option<types::ModVerifyParams>')
    exn = E.lazy_enum(ex) if isinstance(ex, LazyV) else ex
    spi = fget(E, sv, SV['secret_pre_image'], 'std::vec::Vec<u8>')
    return {
        'actor': 'paych', 'method': 'UpdateChannelState',
        'from': ev(m, pre['frm'].key), 'to': ev(m, pre['to'].key), 'to_send': ev(m, pre['to_send']),
        'settling_at': ev(m, pre['settling_at']), 'min_settle_height': ev(m, pre['msh']), 'lanes': lanes,
        'caller': ev(m, rt.caller.key), 'receiver': ev(m, rt.receiver.key), 'epoch': ev(m, rt.epoch),
        'balance': ev(m, z3.Int('rt.balance')),
        'voucher': {'channel_is_id': ev(m, ch.proto) == 0, 'channel_key': _chan_key(E, rt, ch, m),
                    'time_lock_min': g('time_lock_min', 'i64'), 'time_lock_max': g('time_lock_max', 'i64'),
                    'lane': g('lane', 'u64'), 'nonce': g('nonce', 'u64'), 'amount': g('amount', TOKEN),
                    'min_settle_height': g('min_settle_height', 'i64'), 'merges': merges,
                    'has_extra': ev(m, exn.tag) != 0,
                    'extra_actor': ev(m, E.materialize(ADDR, 'sv.%d.Some.0.0' % SV['extra']).key),
                    'extra_method': ev(m, z3.Int('sv.%d.Some.0.1' % SV['extra'])),
                    'has_secret': ev(m, models_fvm._symbytes_len(E, spi).v) != 0,
                    'secret_empty': ev(m, models_fvm._symbytes_len(E, fget(E, env['params'], UP['secret'], 'std::vec::Vec<u8>')).v) == 0,
                    'secret_ok': _secret_ok(E, res, m, spi)},
        'sends': send_script(E, rt, m, lambda i, s: {'bool': bool(ev(m, z3.Bool('rt.send[0].ret.Some.0.as<bool>')))} if i == 0 else None),
        'predicted': _pred_update(E, res, m),
    }


def _secret_ok(E, res, m, spi):
    for k, h in res.ctx.memo.items():
        if isinstance(k, tuple) and k and k[0] == 'hash':
            kk = ('byteseq',) + tuple(sorted((h.name, spi.name)))
            b = res.ctx.memo.get(kk)
            if b is not None:
                return bool(ev(m, b))
    return True


def _chan_key(E, rt, ch, m):
    if ev(m, ch.proto) == 0:
        return ev(m, ch.key)
    for (kt, val) in rt.funcs.get('resolve', []):
        if ev(m, kt[1]) == ev(m, ch.proto) and ev(m, kt[2]) == ev(m, ch.key) and val.vname == 'Some':
            return ev(m, val.fields[('Some', 0)].v)
    return 0


def _pred_update(E, res, m):
    ST, LS, MG, SV, UP = _fields()
    rt = res.ctx.env['rt']
    p = {'result': result_pred(E, res, m), 'sends': sends_pred(E, rt, m), 'deleted': False}
    if res.kind == 'return' and is_ok(res.value):
        st = rt.state
        p['to_send'] = str(ev(m, zv(fget(E, st, ST['to_send'], TOKEN))))
        p['settling_at'] = ev(m, zv(fget(E, st, ST['settling_at'], 'i64')))
        p['min_settle_height'] = ev(m, zv(fget(E, st, ST['min_settle_height'], 'i64')))
        fcid = fget(E, st, ST['lane_states'], CID)
        fm = heap_get(E, fcid) if isinstance(fcid, CidV) else None
        lanes = {}
        if isinstance(fm, MapM):
            for e in base_info(E, fm.base).entries if fm.base else []:
                if e[1] is True:
                    lanes[ev(m, e[0][1])] = e[2]
            for (k, pres, val, _) in fm.over:
                if pres:
                    lanes[ev(m, k[1])] = val
                else:
                    lanes.pop(ev(m, k[1]), None)
        p['lanes'] = [{'id': i, 'redeemed': str(ev(m, fget(E, v, LS['redeemed'], TOKEN).v)), 'nonce': ev(m, fget(E, v, LS['nonce'], 'u64').v)}
                      for i, v in sorted(lanes.items())]
    return p


# ---------------------------------------------------------------------------------------
# settle

def run_settle(E):
    rt, rtref = new_rt(E)
    pre = pre_state(E)
    E.ctx.env['pre'] = pre
    fn = find_fn(E, 'fil_actor_paych', 'settle')
    return E.run_function(fn, [rtref]), rt


def props_settle(E, res):
    ST, LS, MG, SV, UP = _fields()
    env = res.ctx.env
    rt, pre = env['rt'], env['pre']
    P = []
    if res.kind != 'return':
        # epoch + SETTLE_DELAY overflows only beyond i64::MAX - delay; epochs are assumed < 2^62
        P.append(('no panic (%s)' % str(res.info)[:60], False))
        return P
    if is_err(res.value):
        P.append(('rejected settle commits nothing', rt.commits == 0))
        return P
    final = rt.state
    sa1 = fget(E, final, ST['settling_at'], 'i64').v
    P.append(('caller is a channel party', b_or(addr_eq(rt.caller, pre['frm']), addr_eq(rt.caller, pre['to']))))
    P.append(('settle only once', pre['settling_at'] == 0))
    d = rt.epoch + 1440
    P.append(('settling_at = max(epoch + 12h, min_settle_height)', sa1 == z3.If(d >= pre['msh'], d, pre['msh'])))
    P.append(('amount owed untouched', fget(E, final, ST['to_send'], TOKEN).v == pre['to_send']))
    P.append(('min_settle_height untouched', fget(E, final, ST['min_settle_height'], 'i64').v == pre['msh']))
    P.append(('no sends', len(rt.sends) == 0))
    return P


# ---------------------------------------------------------------------------------------
# collect

def run_collect(E):
    rt, rtref = new_rt(E)
    pre = pre_state(E)
    E.ctx.env['pre'] = pre
    E.ctx.assume(rt.balance >= pre['to_send'])
    E.ctx.env['balance0'] = rt.balance
    fn = find_fn(E, 'fil_actor_paych', 'collect')
    return E.run_function(fn, [rtref]), rt


def props_collect(E, res):
    env = res.ctx.env
    rt, pre = env['rt'], env['pre']
    bal0 = env['balance0']
    P = []
    if res.kind != 'return':
        P.append(('no panic (%s)' % str(res.info)[:60], False))
        return P
    if is_err(res.value):
        P.append(('failed collect does not delete the channel', rt.deleted is False))
        P.append(('failed collect commits nothing', rt.commits == 0))
        return P
    P.append(('caller is a channel party', b_or(addr_eq(rt.caller, pre['frm']), addr_eq(rt.caller, pre['to']))))
    P.append(('collect only after the settlement delay', b_and(pre['settling_at'] != 0, rt.epoch >= pre['settling_at'])))
    P.append(('two payouts', len(rt.sends) == 2 and all(s.ok is True for s in rt.sends)))
    if len(rt.sends) == 2:
        a, b = rt.sends
        P.append(('payee first', addr_eq(a.to, pre['to'])))
        P.append(('payee gets exactly the amount owed', a.value == pre['to_send']))
        P.append(('plain transfers', b_and(zv(a.method) == 0, zv(b.method) == 0)))
        P.append(('remainder to the payer', addr_eq(b.to, pre['frm'])))
        selfpay = addr_eq(pre['to'], rt.receiver)
        P.append(('remainder = balance - amount owed', b_or(selfpay, b.value == bal0 - pre['to_send'])))
    P.append(('channel deleted', rt.deleted is True))
    return P


def build(tier):
    obls = []
    nm_list = [0, 1] if tier == 'quick' else [0, 1, 2]
    for nm in nm_list:
        obls.append(Obligation(
            'paych.update_channel_state[merges=%d]' % nm, run_update(nm), props_update,
            descr='accepted voucher => authenticated by counter-party, names this channel, inside time lock, secret ok, '
                  'nonce/merge nonces strictly increase, to_send changes by amount - redeemed(lane) - sum redeemed(merged lanes), '
                  '0 <= to_send <= balance, lane table updated, settle heights only extend; rejected => nothing committed',
            bounds='one call; %d merge entries; lanes table symbolic (unbounded, aliasing decided by forking); all amounts/epochs/nonces unbounded' % nm,
            max_paths=60000 if nm < 2 else 400000, scenario=scenario_update))
    if tier == 'quick':
        obls.append(Obligation(
            'paych.update_channel_state[merges=2,slim]', run_update(2, slim=True), props_update,
            descr='as above with two merge entries (same or different lanes); voucher gates independent of the merge arithmetic fixed to pass-through values',
            bounds='one call; 2 merge entries; no extra, no secret, no time lock, channel not settling, caller = payee, ID channel address',
            max_paths=100000, scenario=scenario_update))
    obls.append(Obligation('paych.settle', run_settle, props_settle,
                           descr='settle: parties only, once, settling_at = max(epoch + 1440, min_settle_height)',
                           bounds='one call; all state symbolic', max_paths=2000))
    obls.append(Obligation('paych.collect', run_collect, props_collect,
                           descr='collect: parties only, only at epoch >= settling_at != 0, pays to_send to payee then the rest to payer, deletes',
                           bounds='one call; all state symbolic; both sends succeed or fail independently', max_paths=2000))
    from . import paych_ctor
    obls += paych_ctor.build(tier)
    return obls
