from mirsym.models_core import mk_enum  # noqa: F401
