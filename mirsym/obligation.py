"""Obligation framework: an obligation = (how to run one call symbolically, which formulas must hold on every
completed path).  Each formula is decided by the solver under the path condition: unsat of pc ∧ ¬P = holds for every
value on that path; sat = candidate counterexample (concrete model extracted for native replay)."""
import os
import sys
import re
import time
import json
import z3

from .engine import (Engine, Program, explore_parallel, new_stats, Inconclusive, PathEnd, b_and, b_or, b_not)
from .values import *
from . import srcindex


class Obligation:
    def __init__(self, name, run, props, descr='', bounds='', max_paths=20000, functions=(), tier='quick',
                 expect_ok=True, scenario=None, known_key=None, wall_s=None, fresh_solver=False):
        self.name = name
        self.run = run              # run(E) -> (value, extra)
        self.props = props          # props(E, res) -> list of (label, formula | bool)
        self.descr = descr
        self.bounds = bounds
        self.max_paths = max_paths
        self.functions = functions
        self.tier = tier
        self.expect_ok = expect_ok  # vacuity: at least one path must reach a success exit
        self.scenario = scenario    # scenario(E, res, model) -> json-able dict for native replay
        self.known_key = known_key
        self.fresh_solver = fresh_solver   # decide property queries with a fresh (preprocessing) solver instead of the incremental path solver
        self.wall_s = wall_s     # hard wall-clock cap for this obligation (default: what is left of the tier cap)


def model_to_dict(m, limit=600):
    out = {}
    for d in m.decls():
        if len(out) >= limit:
            break
        try:
            v = m[d]
            if z3.is_int_value(v):
                out[d.name()] = v.as_long()
            elif z3.is_true(v):
                out[d.name()] = True
            elif z3.is_false(v):
                out[d.name()] = False
            else:
                out[d.name()] = str(v)
        except Exception:
            pass
    return out


def ev(m, x, default=0):
    """evaluate python/z3 scalar under model m (model completion on)"""
    if isinstance(x, (int, bool)):
        return x
    v = m.eval(x, model_completion=True)
    if z3.is_int_value(v):
        return v.as_long()
    if z3.is_true(v):
        return True
    if z3.is_false(v):
        return False
    return default


def is_ok(v):
    return isinstance(v, EnumV) and v.vname == 'Ok'


def is_err(v):
    return isinstance(v, EnumV) and v.vname == 'Err'


def err_code(E, v):
    """exit code (int or z3) of Result::Err(ActorError)"""
    ae = v.fields[('Err', 0)]
    ae = E.deref(ae)
    ec = E.project(ae, ('field', 0, 'ExitCode'))
    return E.project(ec, ('field', 0, 'u32')).v


def exit_label(E, res):
    if res.kind != 'return':
        return res.kind + ':' + str(res.info)[:60]
    v = res.value
    if is_ok(v):
        return 'Ok'
    if is_err(v):
        try:
            c = err_code(E, v)
            return 'Err(%s)' % (c if not is_sym(c) else 'sym')
        except Exception:
            return 'Err(?)'
    return 'ret'


TRACE = bool(os.environ.get('VERIF_TRACE'))


def external_unsat(smt2_text, timeout_s=90):
    """True iff an external solver process (cvc5, then /usr/bin/z3) answers `unsat` without any error line"""
    import subprocess, tempfile
    with tempfile.NamedTemporaryFile('w', suffix='.smt2', delete=False, dir=os.environ.get('TMPDIR', '/tmp')) as f:
        f.write('(set-logic ALL)\n' + smt2_text)
        path = f.name
    try:
        for cmd in (['cvc5', '--lang', 'smt2', '--tlimit=%d' % (timeout_s * 1000), path], ['/usr/bin/z3', '-T:%d' % timeout_s, path]):
            try:
                out = subprocess.run(cmd, capture_output=True, text=True, timeout=timeout_s + 10).stdout
            except Exception:
                continue
            lines = [l.strip() for l in out.splitlines() if l.strip()]
            if any(l.startswith('(error') for l in lines):
                continue
            if lines and lines[-1] == 'unsat' and 'sat' not in [l for l in lines[:-1]]:
                return True
        return False
    finally:
        try:
            os.unlink(path)
        except OSError:
            pass


def make_on_path(E, obl):
    def on_path(res):
        out = {'exit': exit_label(E, res), 'violations': [], 'unknown': [], 'checked': 0, 'trivial': 0}
        try:
            props = obl.props(E, res)
        except Inconclusive as e:
            out['unknown'].append('props: ' + str(e)[:300])
            return out
        except Exception as e:
            import traceback
            out['unknown'].append('props raised %r: %s' % (e, traceback.format_exc()[-700:]))
            return out
        s = res.ctx.solver
        for label, Pf in props:
            s = res.ctx.solver
            if Pf is True:
                out['trivial'] += 1
                continue
            t0 = time.time()
            if obl.fresh_solver and Pf is not False:
                r = z3.unknown
            elif Pf is False:
                r = s.check()
            else:
                r = s.check(z3.Not(Pf))
            res.ctx.stats['solver_s'] += time.time() - t0
            res.ctx.stats['queries'] += 1
            out['checked'] += 1
            if TRACE and time.time() - t0 > 2:
                sys.stderr.write('slow query %.1fs %s: %s [%s]\n' % (time.time() - t0, r, label[:100], out['exit']))
            if r == z3.unknown:
                # the path solver is incremental (no preprocessing); a fresh solver over the same assertions runs z3's full
                # tactic pipeline and decides e.g. div/mod-by-constant queries the incremental core gives up on
                t1 = time.time()
                s2 = z3.Solver()
                s2.set('timeout', 60000)
                s2.add(s.assertions())
                if Pf is not False:
                    s2.add(z3.Not(Pf))
                r = s2.check()
                if r == z3.unknown:
                    # second and third opinion on the same SMT-LIB text: cvc5 and the system z3 (another version). Only an
                    # `unsat` from them is used (a `sat` still needs a model from the in-process solver to be reported)
                    if external_unsat(s2.to_smt2()):
                        r = z3.unsat
                    else:
                        s2.set('timeout', 200000)
                        s2.set('random_seed', 7)
                        r = s2.check()
                res.ctx.stats['solver_s'] += time.time() - t1
                res.ctx.stats['queries'] += 1
                if r == z3.sat:
                    s = s2
            if r == z3.unknown:
                # a loaded machine can push one query over the per-query budget: retry once with ten times the budget
                try:
                    s.set('timeout', 200000)
                    t1 = time.time()
                    r = s.check() if Pf is False else s.check(z3.Not(Pf))
                    res.ctx.stats['solver_s'] += time.time() - t1
                    res.ctx.stats['queries'] += 1
                finally:
                    s.set('timeout', 20000)
            if r == z3.unsat:
                continue
            if r == z3.unknown or label.startswith('oracle-precondition'):
                # an undecidable query, or a side condition the oracle itself needs: never a verdict
                out['unknown'].append(label)
                continue
            m = s.model()
            v = {'label': label, 'model': model_to_dict(m), 'exit': out['exit'], 'decisions': len(res.decisions)}
            if obl.scenario is not None:
                try:
                    v['scenario'] = obl.scenario(E, res, m)
                except Exception as e:  # scenario construction is best effort; replay will then be impossible
                    v['scenario_error'] = repr(e)[:300]
            out['violations'].append(v)
        if len(out['violations']) > 3:
            out['violations'] = out['violations'][:3]
        return out
    return on_path


def run_obligation(E, obl, jobs=16, deadline=None):
    t0 = time.time()
    E.encoded = {}
    E.models_used = {}
    E.cuts = {}
    result = {'name': obl.name, 'descr': obl.descr, 'bounds': obl.bounds, 'status': 'discharged', 'paths': 0,
              'exits': {}, 'queries': 0, 'violations': [], 'problems': []}
    try:
        leaves, stats = explore_parallel(E, obl.run, make_on_path(E, obl), jobs=jobs, max_paths=obl.max_paths,
                                         deadline=deadline, wall_s=obl.wall_s)
    except Inconclusive as e:
        result['status'] = 'inconclusive'
        result['problems'].append(str(e)[:1500])
        leaves = getattr(e, 'leaves', [])
        stats = getattr(e, 'stats', new_stats())
    exits = {}
    nq = 0
    for lf in leaves:
        exits[lf['exit']] = exits.get(lf['exit'], 0) + 1
        nq += lf['checked']
        for v in lf['violations']:
            result['violations'].append(v)
        for u in lf['unknown']:
            result['problems'].append('solver unknown / props failure: ' + u)
    result['paths'] = stats.get('paths', 0)
    result['exits'] = exits
    result['prop_queries'] = nq
    result['feasibility_queries'] = stats.get('queries', 0)
    result['solver_s'] = round(stats.get('solver_s', 0.0), 3)
    result['forks'] = stats.get('forks', 0)
    result['wall_s'] = round(time.time() - t0, 2)
    result['functions_encoded'] = sorted('%s::%s (%d MIR lines, sha1 %s)' % (v[0], k[-90:], v[1], v[2])
                                         for k, v in E.encoded.items())
    result['models_used'] = dict(E.models_used)
    if result['problems'] and result['status'] == 'discharged':
        result['status'] = 'inconclusive'
    if result['violations']:
        result['status'] = 'violated'
    elif result['status'] == 'discharged':
        if obl.expect_ok and not any(k == 'Ok' or k == 'ret' for k in exits):
            result['status'] = 'inconclusive'
            result['problems'].append('vacuous: no path reached the success exit (exits: %s)' % exits)
    return result


# ---------------------------------------------------------------------------------------
# source helpers for oracles (field name -> index)

def struct_fields(path, name):
    """ordered field names of `struct name { .. }` in /repo/<path>"""
    full = os.path.join(srcindex.REPO, path)
    with open(full) as f:
        src = f.read()
    m = re.search(r'struct\s+%s\b[^{;]*\{' % re.escape(name), src)
    if not m:
        raise KeyError('struct %s not found in %s' % (name, path))
    i = m.end()
    depth = 1
    j = i
    while depth:
        c = src[j]
        if c == '{':
            depth += 1
        elif c == '}':
            depth -= 1
        j += 1
    body = src[i:j - 1]
    body = re.sub(r'//[^\n]*', '', body)
    body = re.sub(r'#\[[^\]]*\]', '', body, flags=re.S)
    out = []
    depth = 0
    cur = ''
    for ch in body:
        if ch in '<([{':
            depth += 1
        elif ch in '>)]}':
            depth -= 1
        if ch == ',' and depth == 0:
            out.append(cur)
            cur = ''
        else:
            cur += ch
    if cur.strip():
        out.append(cur)
    names = []
    for part in out:
        mm = re.match(r'\s*(?:pub(?:\([a-z]+\))?\s+)?([A-Za-z_][A-Za-z0-9_]*)\s*:', part)
        if mm:
            names.append(mm.group(1))
    return names


class Fields:
    """index lookup by field name for one struct"""

    def __init__(self, path, name):
        self.names = struct_fields(path, name)
        self.idx = {n: i for i, n in enumerate(self.names)}

    def __getitem__(self, n):
        return self.idx[n]


def fget(E, v, idx, ty):
    """field idx of struct value v (materialising lazily with type ty)"""
    v = E.deref(v)
    return E.project(v, ('field', idx, ty))


def implied(ctx, f):
    """is formula f implied by the path condition?"""
    if isinstance(f, bool):
        return f
    return ctx.solver.check(z3.Not(f)) == z3.unsat
