"""C08 — deal lifecycle: unique publication, one timely activation by the provider (partial, see DESIGN.md).

State-level and helper-level obligations of the market actor: strictly increasing deal ids, pending-proposal set
semantics, the activation gate (preactivate_deal / validate_deal_can_activate), and the missed-activation clean-up
(get_active_deal_or_process_timeout)."""
from .common import *
from .market_common import *
from . import C07

PROPERTY = 'C08'
EX_DEAL_EXPIRED = 32


def run_can_activate(E):
    rt, rtref = new_rt(E)
    deal = mk_deal(E)
    miner = E.materialize(ADDR, 'miner')
    se = E.materialize('i64', 'sector_expiration').v
    ep = E.materialize('i64', 'epoch').v
    E.ctx.env.update(dict(deal=deal, miner=miner, se=se, ep=ep))
    fn = find_fn(E, MARKET, 'validate_deal_can_activate')
    return E.run_function(fn, [RefV(Cell(deal['v'], 'd'), ()), RefV(Cell(miner, 'm'), ()), IntV(se, 'i64'), IntV(ep, 'i64')]), rt


def props_can_activate(E, res):
    env = res.ctx.env
    if res.kind != 'return':
        return [('no panic (%s)' % str(res.info)[:60], False)]
    d = env['deal']
    spec = z3.And(addr_eq(d['provider'], env['miner']), env['ep'] <= d['start'], d['end'] <= env['se'])
    return [('a deal can be activated iff by its own provider, no later than its start epoch, in a sector that outlives it',
             z3.BoolVal(is_ok(res.value)) == spec)]


def run_gen_id(E):
    rt, rtref = new_rt(E)
    ST, DPF, DSF = F()
    st = StructV('State', {}, lazy='st')
    nid = fget(E, st, ST['next_id'], 'u64').v
    E.ctx.assume(nid < 2**63)
    E.ctx.env['nid'] = nid
    cell = Cell(st, 'st')
    fn = find_fn(E, MARKET, 'generate_storage_deal_id')
    r = E.run_function(fn, [RefV(cell, (), True)])
    r2 = E.run_function(fn, [RefV(cell, (), True)])
    E.ctx.env['r1'] = r
    E.ctx.env['st1'] = cell.value
    return r2, rt


def props_gen_id(E, res):
    env = res.ctx.env
    if res.kind != 'return':
        return [('no panic (%s)' % str(res.info)[:60], False)]
    ST, DPF, DSF = F()
    return [('deal ids are handed out in strictly increasing order starting at next_id', z3.And(env['r1'].v == env['nid'], res.value.v == env['nid'] + 1)),
            ('next_id advances past every id handed out', fget(E, env['st1'], ST['next_id'], 'u64').v == env['nid'] + 2)]


def run_pending(E):
    """put then has then remove then has, on an arbitrary pending set"""
    rt, rtref = new_rt(E)
    ST, DPF, DSF = F()
    st = StructV('State', {}, lazy='st')
    cell = Cell(st, 'st')
    c1 = E.materialize(CID, 'cid1')
    c2 = E.materialize(CID, 'cid2')
    store = lambda: RefV(Cell(OpaqueV('store'), 'store'), ())
    has0 = E.run_function(find_fn(E, MARKET, 'has_pending_deal'), [RefV(cell, ()), store(), RefV(Cell(c2, 'c2'), ())])
    E.run_function(find_fn(E, MARKET, 'put_pending_deals'), [RefV(cell, (), True), store(), RefV(Cell(VecV([c1], '[Cid]'), 'v'), ())])
    has1 = E.run_function(find_fn(E, MARKET, 'has_pending_deal'), [RefV(cell, ()), store(), RefV(Cell(c1, 'c1'), ())])
    has2 = E.run_function(find_fn(E, MARKET, 'has_pending_deal'), [RefV(cell, ()), store(), RefV(Cell(c2, 'c2'), ())])
    rem = E.run_function(find_fn(E, MARKET, 'remove_pending_deal'), [RefV(cell, (), True), store(), c1])
    has3 = E.run_function(find_fn(E, MARKET, 'has_pending_deal'), [RefV(cell, ()), store(), RefV(Cell(c1, 'c1'), ())])
    E.ctx.env.update(dict(has0=has0, has1=has1, has2=has2, rem=rem, has3=has3, c1=c1, c2=c2))
    return has3, rt


def okval(E, r):
    return r.fields[('Ok', 0)] if is_ok(r) else None


def props_pending(E, res):
    env = res.ctx.env
    if res.kind != 'return':
        return [('no panic (%s)' % str(res.info)[:60], False)]
    vals = [okval(E, env[k]) for k in ('has0', 'has1', 'has2', 'rem', 'has3')]
    if any(v is None for v in vals):
        return [('pending-set operations do not fail', False)]
    h0, h1, h2, rem, h3 = vals
    same = env['c1'].term == env['c2'].term
    bz_ = lambda x: x if is_sym(x) else z3.BoolVal(bool(x))
    return [('a published proposal is pending (duplicate detection sees it)', bz_(h1) == z3.BoolVal(True)),
            ('publishing one proposal does not affect others', bz_(h2) == z3.Or(same, bz_(h0))),
            ('removal reports the entry and clears it', z3.And(rem.vname == 'Some', bz_(h3) == z3.BoolVal(False)))]


# ---- get_active_deal_or_process_timeout ----------------------------------------------------------------

def run_timeout(E, pending_known=True):
    rt, rtref = new_rt(E)
    ST, DPF, DSF = F()
    deal = mk_deal(E)
    fee = deal['price'] * (deal['end'] - deal['start'])
    tb = mk_tables(E, deal, deal['cc'] + fee, deal['pc'])
    E.ctx.assume(z3.And(tb['tcc'] >= deal['cc'], tb['tpc'] >= deal['pc'], tb['tsf'] >= fee))
    ep = E.materialize('i64', 'epoch').v
    E.ctx.assume(z3.And(ep >= 0, ep < 2**40))
    did = E.materialize('u64', 'deal_id').v
    dcid = E.materialize(CID, 'dcid')
    # state tables: the proposal is stored under deal_id, its cid is pending (market invariant for an unactivated proposal)
    pb = BaseInfo()
    E.ctx.memo[('mapbase', 'map(st.%d)' % ST['proposals'])] = pb
    pb.entries.append([('int', did), True, deal['v'], IntV(did, 'u64')])
    qb = BaseInfo()
    E.ctx.memo[('mapbase', 'map(st.%d)' % ST['pending_proposals'])] = qb
    if pending_known:
        qb.entries.append([('cid', dcid.term), True, UNIT, dcid])
    # else: the pending set is arbitrary (the entry may be missing: an older deal with the same proposal cid retired it)
    E.ctx.env['pending_known'] = pending_known
    E.ctx.env.update(dict(deal=deal, tb=tb, ep=ep, did=did, dcid=dcid))
    cell = Cell(tb['st'], 'st')
    fn = find_fn(E, MARKET, 'get_active_deal_or_process_timeout')
    r = E.run_function(fn, [RefV(cell, (), True), RefV(Cell(OpaqueV('store'), 'store'), ()), IntV(ep, 'i64'), IntV(did, 'u64'),
                            RefV(Cell(deal['v'], 'd'), ()), RefV(Cell(dcid, 'c'), ())])
    E.ctx.env['st1'] = cell.value
    return r, rt


def props_timeout(E, res):
    env = res.ctx.env
    ctx = res.ctx
    if res.kind != 'return':
        return [('no panic (%s)' % str(res.info)[:60], False)]
    ST, DPF, DSF = F()
    deal, tb, ep, did = env['deal'], env['tb'], env['ep'], env['did']
    if is_err(res.value):
        if env.get('pending_known', True):
            return [('clean-up of a well-formed unactivated proposal never fails', False)]
        # settle_deal_payments tolerates a failure per deal and keeps the state: a failing clean-up must be all or nothing
        # with respect to what could be repeated or stranded: funds released <=> proposal deleted
        st1 = env['st1']
        pm = heap_get(E, fget(E, st1, ST['proposals'], CID))
        gone = isinstance(pm, MapM) and final_lookup(E, pm, ('int', did))[0] is False
        ec0, lc0 = tb['bal']['client']
        lc1, _ = table_balance(E, st1, 'locked_table', deal['client'], tb['lbase'])
        fee_ = deal['price'] * (deal['end'] - deal['start'])
        due = deal['cc'] + fee_ + (deal['pc'] if tb['same'] else 0)
        if gone:
            f = lc1 == lc0 - due       # proposal deleted: its funds must have been released (nothing stranded)
        else:
            f = lc1 == lc0             # proposal kept: nothing may have been released (the release could be repeated)
        return [('a failing time-out clean-up never releases the deal\'s funds while keeping the proposal (the release could be repeated), nor deletes the proposal while keeping the funds locked', f)]
    lds = res.value.fields[('Ok', 0)]
    st1 = env['st1']
    sb, sv = base_lookup(E, 'map(st.%d)' % ST['states'], ('int', did))
    activated = sb is True
    P = []
    if lds.vname == 'Loaded':
        P.append(('an activated deal is returned as is', activated))
        return P
    P.append(('no deal state exists for an unactivated proposal', not activated))
    if lds.vname == 'TooEarly':
        P.append(('before the start epoch nothing happens', ep < deal['start']))
        P.append(('nothing is written before the start epoch', all(not isinstance(heap_get(E, fget(E, st1, ST[f], CID)), MapM) or len(heap_get(E, fget(E, st1, ST[f], CID)).over) == 0
                                                                  for f in ('proposals', 'pending_proposals', 'escrow_table', 'locked_table'))))
        return P
    # ProposalExpired
    P.append(('a proposal times out only at or after its start epoch', ep >= deal['start']))
    slashed = big(E, lds.fields[('ProposalExpired', 0)])
    P.append(("missed activation burns the provider's collateral", slashed == deal['pc']))
    pm = heap_get(E, fget(E, st1, ST['proposals'], CID))
    qm = heap_get(E, fget(E, st1, ST['pending_proposals'], CID))
    P.append(('the proposal is removed', isinstance(pm, MapM) and final_lookup(E, pm, ('int', did))[0] is False))
    P.append(('its pending entry is removed', isinstance(qm, MapM) and final_lookup(E, qm, ('cid', env['dcid'].term))[0] is False))
    fee = deal['price'] * (deal['end'] - deal['start'])
    res2 = res
    P += C07.accounting_props(E, res2, 0, deal['cc'] + fee, 0, deal['pc'], 'time-out')
    return P


def run_auth(E):
    rt, rtref = new_rt(E)
    cdp = LazyV('cdp', 'deal::ClientDealProposal')
    E.ctx.env['cdp'] = cdp
    fn = find_fn(E, MARKET, 'deal_proposal_is_internally_valid')
    return E.run_function(fn, [rtref, RefV(Cell(cdp, 'cdp'), ())]), rt


def props_auth(E, res):
    env = res.ctx.env
    rt = env['rt']
    ctx = res.ctx
    if res.kind != 'return':
        return [('no panic (%s)' % str(res.info)[:60], False)]
    if is_err(res.value):
        return [('a refused proposal changes nothing', rt.commits == 0)]
    ST, DPF, DSF = F()
    prop = fget(E, env['cdp'], 0, DP)
    client = fget(E, prop, DPF['client'], ADDR)
    P = [('exactly one authentication request', len(rt.sends) == 1)]
    if len(rt.sends) == 1:
        s = rt.sends[0]
        P.append(('the request went to the proposal\'s client', addr_eq(s.to, client)))
        P.append(('AuthenticateMessage (FRC-42 2643134072), read-only, no value', b_and(zv(s.method) == 2643134072, s.value == 0)))
        P.append(('the client actor answered successfully', s.ok is True))
        # the answer: a block that decodes to `true`
        ans = None
        for k, v in ctx.memo.items():
            if isinstance(k, tuple) and len(k) == 3 and k[0] == 'mat' and k[2].startswith('rt.send[0].ret') and k[2].endswith('.as<bool>'):
                ans = v
        P.append(('accepted only when the client\'s answer is true', bool_of(ans) if ans is not None else False))
        # the signed message is the serialised proposal, the signature the one supplied with it
        pr = s.params.obj if isinstance(s.params, BlockV) else None
        P.append(('the request carries typed params', pr is not None))
    return P


# ---- batch_activate_deals ---------------------------------------------------------------------------------

def run_batch_activate(shape):
    """shape: number of deal ids per sector, e.g. [3] or [1, 1]"""
    def run(E):
        rt, rtref = new_rt(E)
        rt.state = LazyV('st', 'State')
        E.ctx.env['lazy_vec_lens'] = [0, 1]      # deal ids already recorded for the sector: none or one
        ST, DPF, DSF = F()

        def hook(E2, m, kt, val):
            # market invariant: stored proposals carry resolved (ID) client and provider addresses
            if m.base == 'map(st.%d)' % ST['proposals']:
                E2.ctx.assume(z3.And(fget(E2, val, DPF['client'], ADDR).proto == 0, fget(E2, val, DPF['provider'], ADDR).proto == 0))
            return None
        E.ctx.env['map_value_hook'] = hook
        ids = []
        sectors = []
        for i, n in enumerate(shape):
            dl = [E.materialize('u64', 's%d.deal%d' % (i, j)) for j in range(n)]
            ids.append([d.v for d in dl])
            se = E.materialize('i64', 's%d.expiry' % i)
            sectors.append(StructV('types::SectorDeals', {0: E.materialize('u64', 's%d.number' % i), 1: LazyV('s%d.type' % i, 'fvm_shared::sector::RegisteredSealProof'),
                                                          2: se, 3: VecV(dl, 'Vec<u64>')}))
        params = StructV('types::BatchActivateDealsParams', {0: VecV(sectors, 'Vec<SectorDeals>'), 1: False})
        E.ctx.env.update(dict(ids=ids, sectors=sectors))
        fn = find_fn(E, MARKET, 'batch_activate_deals')
        return E.run_function(fn, [rtref, params]), rt
    return run


def props_batch_activate(E, res):
    env = res.ctx.env
    ctx = res.ctx
    rt = env['rt']
    if res.kind != 'return':
        return [('no panic (%s)' % str(res.info)[:60], False)]
    if is_err(res.value):
        return [('a failed batch commits nothing', rt.commits == 0)]
    ST, DPF, DSF = F()
    r = E.deref(res.value.fields[('Ok', 0)])
    RF = Fields('actors/market/src/types.rs', 'BatchActivateDealsResult')
    acts = E.deref(fget(E, r, RF['activations'], 'Vec<SectorDealActivation>'))
    br = E.deref(fget(E, r, RF['activation_results'], 'BatchReturn'))
    nsucc = zv(E.deref(fget(E, br, 0, 'u32')))
    fails = E.deref(fget(E, br, 1, 'Vec<FailCode>')).items
    failed_idx = set()
    for f in fails:
        f = E.deref(f)
        i = zv(E.deref(f.fields[0]))
        if is_sym(i):
            raise Inconclusive('symbolic fail index')
        failed_idx.add(int(i))
    ids = env['ids']
    ok_sectors = [i for i in range(len(ids)) if i not in failed_idx]
    P = [('one activation record per successful sector', len(acts.items) == len(ok_sectors) and implied(ctx, nsucc == len(ok_sectors)))]
    P.append(('only a miner actor activates deals', rt.caller_type == ACTOR_TYPES['Miner']))
    activated = [(i, j, d) for i in ok_sectors for j, d in enumerate(ids[i])]
    for a in range(len(activated)):
        for b in range(a + 1, len(activated)):
            P.append(('no deal is activated twice in one batch (sector %d deal %d vs sector %d deal %d)' % (activated[a][0], activated[a][1], activated[b][0], activated[b][1]),
                      activated[a][2] != activated[b][2]))
    st1 = rt.state
    sm = heap_get(E, fget(E, st1, ST['states'], CID))
    for k, i in enumerate(ok_sectors):
        a = E.deref(acts.items[k])
        alist = E.deref(fget(E, a, 0, 'Vec<ActivatedDeal>'))
        P.append(('every requested deal of a successful sector is activated', len(alist.items) == len(ids[i])))
        se = zv(env['sectors'][i].fields[2])
        for j, d in enumerate(ids[i]):
            kt = ('int', d)
            present, prop = base_lookup(E, 'map(st.%d)' % ST['proposals'], kt)
            P.append(('an activated deal was published (proposal on record)', present is True))
            sb, _ = base_lookup(E, 'map(st.%d)' % ST['states'], kt)
            P.append(('an activated deal had not been activated before', sb is False))
            if present is True:
                prop = E.deref(prop)
                provider = fget(E, prop, DPF['provider'], ADDR)
                start = fget(E, prop, DPF['start_epoch'], 'i64').v
                end = fget(E, prop, DPF['end_epoch'], 'i64').v
                P.append(('activated by the deal\'s own provider', addr_eq(provider, rt.caller)))
                P.append(('activated no later than the start epoch', rt.epoch <= start))
                P.append(('the sector outlives the deal', end <= se))
            if isinstance(sm, MapM):
                fp, fv = final_lookup(E, sm, kt)
                P.append(('a deal state is recorded for the activated deal', fp is True))
                if fp is True:
                    fv = E.deref(fv)
                    P.append(('activation epoch = current epoch; never settled, never slashed',
                              z3.And(fget(E, fv, DSF['sector_start_epoch'], 'i64').v == rt.epoch, fget(E, fv, DSF['last_updated_epoch'], 'i64').v == -1,
                                     fget(E, fv, DSF['slash_epoch'], 'i64').v == -1)))
            else:
                P.append(('deal states table written', False))
    # failed sectors leave their deals un-activated (unless also named by a successful sector)
    if isinstance(sm, MapM):
        for i in sorted(failed_idx):
            for d in ids[i]:
                fp, _ = final_lookup(E, sm, ('int', d))
                also = any_of([d == x for (_, _, x) in activated])
                sb, _ = base_lookup(E, 'map(st.%d)' % ST['states'], ('int', d))
                if fp is True and sb is not True:
                    P.append(('a deal of a failed sector gains no state', also))
    return P


# ---- sector_content_changed (activation through the miner's ProveCommitSectors3 / replica-update notification) -------------

def run_content_changed(shape):
    """shape: number of pieces per sector"""
    def run(E):
        rt, rtref = new_rt(E)
        rt.state = LazyV('st', 'State')
        E.ctx.env['lazy_vec_lens'] = [0, 1]
        E.ctx.env['decode_always_ok'] = True          # piece payloads that do not decode to a deal id are skipped (first `continue`)
        ST, DPF, DSF = F()

        def hook(E2, m, kt, val):
            if m.base == 'map(st.%d)' % ST['proposals']:
                E2.ctx.assume(z3.And(fget(E2, val, DPF['client'], ADDR).proto == 0, fget(E2, val, DPF['provider'], ADDR).proto == 0))
            return None
        E.ctx.env['map_value_hook'] = hook
        ids, pieces, sectors = [], [], []
        for i, n in enumerate(shape):
            row, prow = [], []
            for j in range(n):
                d = E.materialize('u64', 's%d.deal%d' % (i, j))
                pc = StructV('ext::miner::PieceChange', {0: E.materialize(CID, 's%d.piece%d.data' % (i, j)),
                                                         1: StructV('fvm_shared::piece::PaddedPieceSize', {0: E.materialize('u64', 's%d.piece%d.size' % (i, j))}),
                                                         2: BlockV(d)})
                row.append(d.v)
                prow.append(pc)
            ids.append(row)
            pieces.append(prow)
            mce = E.materialize('i64', 's%d.min_commitment' % i)
            sectors.append(StructV('ext::miner::SectorChanges', {0: E.materialize('u64', 's%d.number' % i), 1: mce, 2: VecV(prow, 'Vec<PieceChange>')}))
        params = StructV('ext::miner::SectorContentChangedParams', {0: VecV(sectors, 'Vec<SectorChanges>')})
        E.ctx.env.update(dict(ids=ids, pieces=pieces, sectors=sectors))
        fn = find_fn(E, MARKET, 'sector_content_changed')
        return E.run_function(fn, [rtref, params]), rt
    return run


def props_content_changed(E, res):
    env = res.ctx.env
    ctx = res.ctx
    rt = env['rt']
    if res.kind != 'return':
        return [('no panic (%s)' % str(res.info)[:60], False)]
    if is_err(res.value):
        return [('a failed notification commits nothing', rt.commits == 0)]
    ST, DPF, DSF = F()
    r = E.deref(res.value.fields[('Ok', 0)])
    srets = E.deref(fget(E, r, 0, 'Vec<SectorReturn>')).items
    ids = env['ids']
    P = [('only a miner actor notifies sector content', rt.caller_type == ACTOR_TYPES['Miner']),
         ('one answer per sector and per piece', len(srets) == len(ids))]
    accepted = []
    for i, sr in enumerate(srets):
        prs = E.deref(fget(E, E.deref(sr), 0, 'Vec<PieceReturn>')).items
        P.append(('one answer per piece', len(prs) == len(ids[i])))
        for j, pr in enumerate(prs):
            acc = E.deref(fget(E, E.deref(pr), 0, 'bool'))
            if acc is True or (is_sym(acc) and implied(ctx, acc)):
                accepted.append((i, j, ids[i][j]))
            elif not (acc is False or (is_sym(acc) and implied(ctx, z3.Not(acc)))):
                P.append(('oracle-precondition: acceptance decided on this path', False))
    for a in range(len(accepted)):
        for b in range(a + 1, len(accepted)):
            P.append(('no deal is activated twice in one notification', accepted[a][2] != accepted[b][2]))
    sm = heap_get(E, fget(E, rt.state, ST['states'], CID))
    for (i, j, d) in accepted:
        kt = ('int', d)
        present, prop = base_lookup(E, 'map(st.%d)' % ST['proposals'], kt)
        P.append(('an activated deal was published (proposal on record)', present is True))
        sb, _ = base_lookup(E, 'map(st.%d)' % ST['states'], kt)
        P.append(('an activated deal had not been activated before', sb is False))
        if present is True:
            prop = E.deref(prop)
            mce = zv(env['sectors'][i].fields[1])
            pc = env['pieces'][i][j]
            P.append(("activated by the deal's own provider", addr_eq(fget(E, prop, DPF['provider'], ADDR), rt.caller)))
            P.append(('activated no later than the start epoch', rt.epoch <= fget(E, prop, DPF['start_epoch'], 'i64').v))
            P.append(('the sector is committed at least until the deal ends', fget(E, prop, DPF['end_epoch'], 'i64').v <= mce))
            P.append(('the piece notified is the piece of the deal (cid and size)',
                      b_and(deep_eq(E, fget(E, prop, DPF['piece_cid'], CID), pc.fields[0]),
                            fget(E, fget(E, prop, DPF['piece_size'], 'PaddedPieceSize'), 0, 'u64').v == zv(E.deref(pc.fields[1]).fields[0]))))
        if isinstance(sm, MapM):
            fp, fv = final_lookup(E, sm, kt)
            P.append(('a deal state is recorded for the activated deal', fp is True))
            if fp is True:
                fv = E.deref(fv)
                P.append(('activation epoch = current epoch; never settled, never slashed',
                          z3.And(fget(E, fv, DSF['sector_start_epoch'], 'i64').v == rt.epoch, fget(E, fv, DSF['last_updated_epoch'], 'i64').v == -1,
                                 fget(E, fv, DSF['slash_epoch'], 'i64').v == -1)))
        else:
            P.append(('deal states table written', False))
    # pieces not accepted gain no state (unless the same deal id was accepted elsewhere)
    if isinstance(sm, MapM):
        for i, row in enumerate(ids):
            for j, d in enumerate(row):
                if (i, j, d) in accepted:
                    continue
                fp, _ = final_lookup(E, sm, ('int', d))
                sb, _ = base_lookup(E, 'map(st.%d)' % ST['states'], ('int', d))
                if fp is True and sb is not True:
                    P.append(('a rejected piece activates nothing', any_of([d == x for (_, _, x) in accepted])))
    return P


def bool_of(v):
    if isinstance(v, bool):
        return v
    if isinstance(v, IntV):
        return v.v != 0
    if z3.is_expr(v):
        return v
    return False


def build(tier):
    from . import market_publish, market_batch
    return market_publish.build_for('C08', tier) + market_batch.build_next_update('C08', tier) + [
        Obligation('market.deal_proposal_is_internally_valid', run_auth, props_auth,
                   descr='a proposal passes only if its client actor answered AuthenticateMessage successfully with `true`',
                   bounds='one proposal; the nested send may succeed with any answer, fail or hit a syscall error', max_paths=2000),
    ] + [
        Obligation('market.batch_activate_deals[sector sizes %s]' % ','.join(map(str, sh)), run_batch_activate(sh), props_batch_activate,
                   descr='each deal activated at most once per batch, only published + never-activated deals, by their provider, by the start epoch, in a sector that outlives them; state recorded',
                   bounds='sectors with %s deal ids (all ids symbolic, may coincide); compute_cid = false; market tables arbitrary' % (sh,), max_paths=100000)
        for sh in ([[1], [2], [3], [1, 1]] if tier == 'quick' else [[1], [2], [3], [1, 1], [2, 1], [1, 2]])
    ] + [
        Obligation('market.sector_content_changed[pieces per sector %s]' % ','.join(map(str, sh)), run_content_changed(sh), props_content_changed,
                   descr='activation through the sector-content notification: each deal at most once, only published + never-activated deals, by their provider, by the start epoch, committed until the deal ends, piece cid and size matching; state recorded; rejected pieces activate nothing',
                   bounds='sectors with %s piece(s) (deal ids symbolic, may coincide); payloads decode to deal ids; market tables arbitrary' % (sh,), max_paths=200000)
        for sh in ([[1], [2], [1, 1]] if tier == 'quick' else [[1], [2], [3], [1, 1], [2, 1]])
    ] + [
        Obligation('market.validate_deal_can_activate', run_can_activate, props_can_activate,
                   descr='activation gate = provider match, epoch <= start, end <= sector expiry', bounds='all fields symbolic', max_paths=200, expect_ok=False),
        Obligation('market.generate_storage_deal_id x2', run_gen_id, props_gen_id, descr='ids strictly increasing, next_id advances', bounds='two calls', max_paths=200, expect_ok=False),
        Obligation('market.pending proposals set (has/put/remove)', run_pending, props_pending,
                   descr='a published proposal cid is pending until removed; other cids unaffected', bounds='one put / remove on an arbitrary set', max_paths=2000, expect_ok=False),
        Obligation('market.get_active_deal_or_process_timeout[pending entry possibly missing]', lambda E: run_timeout(E, False), props_timeout,
                   descr='with an arbitrary pending set (an older deal with the same proposal cid may have retired the entry): a failing clean-up is all-or-nothing w.r.t. funds released / proposal deleted; a succeeding one as below',
                   bounds='one proposal; client = / != provider; pending set symbolic', max_paths=60000, expect_ok=False),
        Obligation('market.get_active_deal_or_process_timeout', run_timeout, props_timeout,
                   descr='unactivated proposal: too early before start (no change); at/after start removed with pending entry, provider collateral burnt, client fully unlocked',
                   bounds='one proposal; client = / != provider', max_paths=60000, expect_ok=False),
    ]
