"""C07 — deal payments are exact and independent of the settlement schedule.

Step obligations over market::State::{process_deal_update, process_slashed_deal, process_deal_init_timed_out}
executed from MIR on symbolic balance tables; a two-settlement chain on the real code for path independence.
Closed forms (the oracle) come from the property statement: the provider earns price * (number of epochs in
[start, min(end, termination)) not yet paid); nothing before start, nothing after end, nothing twice."""
from .common import *
from .market_common import *

PROPERTY = 'C07'


def mk_state(E, name='ds'):
    ST, DPF, DSF = F()
    s = LazyV(name, DS)
    ss = fget(E, s, DSF['sector_start_epoch'], 'i64').v
    lu = fget(E, s, DSF['last_updated_epoch'], 'i64').v
    se = fget(E, s, DSF['slash_epoch'], 'i64').v
    E.ctx.assume(z3.And(ss >= -1, lu >= -1, se >= -1))
    return dict(v=s, ss=ss, lu=lu, se=se)


def paid_from(deal, lu):
    """first epoch not yet paid for"""
    return z3.If(lu == -1, deal['start'], zmax(deal['start'], lu))


def setup_update(E, slashed):
    rt, rtref = new_rt(E)
    deal = mk_deal(E)
    ds = mk_state(E)
    epoch = E.materialize('i64', 'epoch').v
    E.ctx.assume(z3.And(epoch >= 0, epoch < 2**40))
    # deal-state invariant of an activated, unfinished deal at `epoch`
    E.ctx.assume(z3.Or(ds['lu'] == -1, z3.And(ds['lu'] <= epoch, ds['lu'] < deal['end'])))
    if slashed:
        E.ctx.assume(z3.And(ds['se'] >= 0, ds['se'] <= epoch, ds['se'] <= deal['end'],
                            z3.Or(ds['lu'] == -1, ds['lu'] <= ds['se'])))
    else:
        E.ctx.assume(ds['se'] == -1)
    pf = paid_from(deal, ds['lu'])
    ob_client = deal['cc'] + deal['price'] * (deal['end'] - pf)
    tb = mk_tables(E, deal, ob_client, deal['pc'])
    E.ctx.assume(z3.And(tb['tcc'] >= deal['cc'], tb['tpc'] >= deal['pc'], tb['tsf'] >= deal['price'] * (deal['end'] - pf)))
    E.ctx.env.update(dict(deal=deal, ds=ds, epoch=epoch, tb=tb, pf=pf))
    return rt, rtref, deal, ds, epoch, tb


def call_update(E, stcell, deal, ds_val, epoch):
    fn = find_fn(E, MARKET, 'process_deal_update')
    dcid = E.materialize(CID, 'dcid')
    return E.run_function(fn, [RefV(stcell, (), True), RefV(Cell(OpaqueV('store'), 'store'), ()),
                               RefV(Cell(ds_val, 'ds'), ()), RefV(Cell(deal['v'], 'deal'), ()),
                               RefV(Cell(dcid, 'dcid'), ()), IntV(epoch, 'i64')])


def run_update(slashed):
    def run(E):
        rt, rtref, deal, ds, epoch, tb = setup_update(E, slashed)
        stcell = Cell(tb['st'], 'st')
        r = call_update(E, stcell, deal, ds['v'], epoch)
        E.ctx.env['st1'] = stcell.value
        return r, rt
    return run


def balances_after(E, st1, deal, tb):
    ec, em = table_balance(E, st1, 'escrow_table', deal['client'], tb['ebase'])
    lc, lm = table_balance(E, st1, 'locked_table', deal['client'], tb['lbase'])
    ep, _ = table_balance(E, st1, 'escrow_table', deal['provider'], tb['ebase'])
    lp, _ = table_balance(E, st1, 'locked_table', deal['provider'], tb['lbase'])
    return ec, lc, ep, lp, em, lm


def accounting_props(E, res, paid, unlock_c, unlock_p, slash_p, what):
    """C06/C07 accounting equalities for one processing step of one deal"""
    env = res.ctx.env
    deal, tb = env['deal'], env['tb']
    st1 = env['st1']
    ec0, lc0 = tb['bal']['client']
    ep0, lp0 = tb['bal']['provider']
    ec, lc, ep, lp, em, lm = balances_after(E, st1, deal, tb)
    P = []
    if tb['same']:
        P.append(('%s: escrow of the (single) party moves only by the burn' % what, ec == ec0 - slash_p))
        P.append(('%s: locked falls by payment + released + burnt amounts' % what, lc == lc0 - paid - unlock_c - unlock_p - slash_p))
    else:
        P.append(('%s: client escrow falls by exactly the payment' % what, ec == ec0 - paid))
        P.append(('%s: client locked falls by payment + released amounts' % what, lc == lc0 - paid - unlock_c))
        P.append(('%s: provider escrow rises by the payment minus the burn' % what, ep == ep0 + paid - slash_p))
        P.append(('%s: provider locked falls by released + burnt collateral' % what, lp == lp0 - unlock_p - slash_p))
    P.append(('%s: locked never exceeds escrow (client)' % what, lc <= ec))
    P.append(('%s: locked never exceeds escrow (provider)' % what, lp <= ep))
    P.append(('%s: balances stay non-negative' % what, z3.And(ec >= 0, lc >= 0, ep >= 0, lp >= 0)))
    P += frame_tables(E, em, [deal['client'], deal['provider']], what + ' escrow')
    P += frame_tables(E, lm, [deal['client'], deal['provider']], what + ' locked')
    return P


def props_update(slashed):
    def props(E, res):
        env = res.ctx.env
        deal, ds, epoch, tb, pf = env['deal'], env['ds'], env['epoch'], env['tb'], env['pf']
        if res.kind != 'return':
            return [('no panic (%s)' % str(res.info)[:60], False)]
        v = res.value
        if is_err(v):
            # under the deal-state invariant the only legitimate refusal is an expiring deal with no sector start
            return [('settlement of a well-formed deal never fails', z3.And(epoch >= deal['end'], ds['ss'] == -1) if not slashed else False)]
        tup = v.fields[('Ok', 0)]
        slash_r, pay_r = big(E, tup.fields[0]), big(E, tup.fields[1])
        completed, remove = tup.fields[2], tup.fields[3]
        st1 = env['st1']
        tcc1, tpc1, tsf1 = totals(E, st1)
        started = epoch >= deal['start']
        # result contract relied upon by the batch methods (cron_tick, settle_deal_payments): see market_batch.py
        # (the informational payment figure of the legacy marked-for-termination branch can be negative when the slash epoch
        # precedes the deal start; no caller uses it - settle_deal_payments refuses such deals, cron_tick ignores the figure)
        CONTRACT = [('result contract: the slashed amount is non-negative and a deal that continues is never slashed',
                     z3.And(slash_r >= 0, z3.Implies(z3.Not(bz(remove)), slash_r == 0)))]
        # frame on the pending-proposal set (it is what prevents a proposal from being published twice, C08): only the FIRST
        # update of a deal retires its pending entry; later updates must not touch the set (another live deal may since
        # have been published with the same proposal cid)
        ST_, DPF_, DSF_ = F()
        qm = heap_get(E, fget(E, st1, ST_['pending_proposals'], CID)) if isinstance(fget(E, st1, ST_['pending_proposals'], CID), CidV) else None
        touched = isinstance(qm, MapM) and len(qm.over) > 0
        CONTRACT.append(('only the first update of a deal retires its pending-proposal entry; later updates leave the pending set alone',
                         z3.Implies(ds['lu'] != -1, z3.BoolVal(not touched))))
        if not slashed:
            pay_end = zmin(deal['end'], epoch)
            paid = z3.If(started, deal['price'] * (pay_end - pf), 0)
            done = epoch >= deal['end']
            uc = z3.If(done, deal['cc'], 0)
            up = z3.If(done, deal['pc'], 0)
            P = [('payment = price * epochs in [max(start,last_updated), min(end,now))', pay_r == paid),
                 ('nothing is paid before the deal starts', z3.Implies(z3.Not(started), pay_r == 0)),
                 ('payment never negative', pay_r >= 0),
                 ('no slashing on a live deal', slash_r == 0),
                 ('completed exactly at/after the end epoch', bz(completed) == done),
                 ('removed iff completed', bz(remove) == done)]
            P += accounting_props(E, res, paid, uc, up, 0, 'update')
            P.append(('market totals move with the deal (fees)', tsf1 == tb['tsf'] - paid))
            P.append(('market totals move with the deal (client collateral)', tcc1 == tb['tcc'] - uc))
            P.append(('market totals move with the deal (provider collateral)', tpc1 == tb['tpc'] - up))
            return P + CONTRACT
        # legacy slashed deal: paid up to the slash epoch, rest refunded, provider collateral burnt in full;
        # before the start epoch the call is a no-op (the deal is processed once it has started)
        se = ds['se']
        paid = z3.If(started, z3.If(se > pf, deal['price'] * (se - pf), 0), 0)
        remaining = z3.If(started, deal['price'] * (deal['end'] - zmax(se, deal['start'])), 0)
        cc = z3.If(started, deal['cc'], 0)
        pc = z3.If(started, deal['pc'], 0)
        P = [('provider collateral burnt in full on termination', slash_r == pc),
             ('terminated deal is removed, not completed', z3.And(bz(remove) == started, z3.Not(bz(completed))))]
        P += accounting_props(E, res, paid, cc + remaining, 0, pc, 'terminated')
        P.append(('market totals move with the deal (fees)', tsf1 == tb['tsf'] - paid - remaining))
        P.append(('market totals move with the deal (client collateral)', tcc1 == tb['tcc'] - cc))
        P.append(('market totals move with the deal (provider collateral)', tpc1 == tb['tpc'] - pc))
        return P + CONTRACT
    return props


def bz(x):
    return x if is_sym(x) else z3.BoolVal(bool(x))


# ---- two settlements vs. one: path independence on the real code ---------------------------------------

def run_chain(E):
    rt, rtref, deal, ds, e2, tb = setup_update(E, False)
    e1 = E.materialize('i64', 'epoch1').v
    E.ctx.assume(z3.And(e1 >= 0, e1 <= e2, z3.Or(ds['lu'] == -1, ds['lu'] <= e1), e1 < deal['end']))
    E.ctx.env['e1'] = e1
    stcell = Cell(tb['st'], 'st')
    r1 = call_update(E, stcell, deal, ds['v'], e1)
    n1, r1v = variant(E, r1)
    if n1 != 'Ok':
        raise PathEnd('infeasible')       # first settlement refusals are covered by the single-step obligation
    ST, DPF, DSF = F()
    # the caller (settle_deal_payments / cron) records last_updated_epoch := epoch for a deal that continues
    ds2 = StructV(DS, {DSF['sector_number']: fget(E, ds['v'], DSF['sector_number'], 'u64'),
                       DSF['sector_start_epoch']: IntV(ds['ss'], 'i64'), DSF['last_updated_epoch']: IntV(e1, 'i64'),
                       DSF['slash_epoch']: IntV(ds['se'], 'i64')})
    r2 = call_update(E, stcell, deal, ds2, e2)
    E.ctx.env['st1'] = stcell.value
    E.ctx.env['r1'] = r1v
    return r2, rt


def props_chain(E, res):
    env = res.ctx.env
    deal, ds, e2, tb, pf, e1 = env['deal'], env['ds'], env['epoch'], env['tb'], env['pf'], env['e1']
    if res.kind != 'return':
        return [('no panic (%s)' % str(res.info)[:60], False)]
    if is_err(res.value):
        return [('second settlement of a well-formed deal never fails', z3.And(e2 >= deal['end'], ds['ss'] == -1))]
    p1 = big(E, env['r1'].fields[('Ok', 0)].fields[1])
    p2 = big(E, res.value.fields[('Ok', 0)].fields[1])
    started = e2 >= deal['start']
    total = z3.If(started, deal['price'] * (zmin(deal['end'], e2) - pf), 0)
    done = e2 >= deal['end']
    P = [('two settlements pay exactly what one settlement at the later epoch pays', p1 + p2 == total),
         ('no epoch paid twice / skipped: second payment starts where the first stopped',
          p2 == z3.If(started, deal['price'] * (zmin(deal['end'], e2) - zmax(deal['start'], e1)), 0))]
    P += accounting_props(E, res, total, z3.If(done, deal['cc'], 0), z3.If(done, deal['pc'], 0), 0, 'chain')
    return P


# ---- termination and missed activation -----------------------------------------------------------------

def run_slashed(E):
    rt, rtref = new_rt(E)
    deal = mk_deal(E)
    ds = mk_state(E)
    # terminate_deals: slash_epoch := now, now <= end, last update not after now
    E.ctx.assume(z3.And(ds['se'] >= 0, ds['se'] <= deal['end'], z3.Or(ds['lu'] == -1, z3.And(ds['lu'] <= ds['se'], ds['lu'] < deal['end']))))
    pf = paid_from(deal, ds['lu'])
    tb = mk_tables(E, deal, deal['cc'] + deal['price'] * (deal['end'] - pf), deal['pc'])
    E.ctx.assume(z3.And(tb['tcc'] >= deal['cc'], tb['tpc'] >= deal['pc'], tb['tsf'] >= deal['price'] * (deal['end'] - pf)))
    E.ctx.env.update(dict(deal=deal, ds=ds, tb=tb, pf=pf))
    stcell = Cell(tb['st'], 'st')
    fn = find_fn(E, MARKET, 'process_slashed_deal')
    r = E.run_function(fn, [RefV(stcell, (), True), RefV(Cell(OpaqueV('store'), 'store'), ()),
                            RefV(Cell(deal['v'], 'deal'), ()), RefV(Cell(ds['v'], 'ds'), ())])
    E.ctx.env['st1'] = stcell.value
    return r, rt


def props_slashed(E, res):
    env = res.ctx.env
    deal, ds, tb, pf = env['deal'], env['ds'], env['tb'], env['pf']
    if res.kind != 'return':
        return [('no panic (%s)' % str(res.info)[:60], False)]
    if is_err(res.value):
        return [('termination of a well-formed deal never fails', False)]
    se = ds['se']
    paid = z3.If(zmin(deal['end'], se) > pf, deal['price'] * (zmin(deal['end'], se) - pf), 0)
    remaining = deal['price'] * (deal['end'] - zmax(se, deal['start']))
    slashed = big(E, res.value.fields[('Ok', 0)])
    P = [('provider collateral burnt in full on early termination', slashed == deal['pc']),
         ('paid + refunded = what was still locked for fees', paid + remaining == deal['price'] * (deal['end'] - pf))]
    P += accounting_props(E, res, paid, deal['cc'] + remaining, 0, deal['pc'], 'termination')
    tcc1, tpc1, tsf1 = totals(E, env['st1'])
    P.append(('market totals move with the deal', z3.And(tsf1 == tb['tsf'] - paid - remaining, tcc1 == tb['tcc'] - deal['cc'], tpc1 == tb['tpc'] - deal['pc'])))
    return P


def run_timed_out(E):
    rt, rtref = new_rt(E)
    deal = mk_deal(E)
    fee = deal['price'] * (deal['end'] - deal['start'])
    tb = mk_tables(E, deal, deal['cc'] + fee, deal['pc'])
    E.ctx.assume(z3.And(tb['tcc'] >= deal['cc'], tb['tpc'] >= deal['pc'], tb['tsf'] >= fee))
    E.ctx.env.update(dict(deal=deal, tb=tb))
    stcell = Cell(tb['st'], 'st')
    fn = find_fn(E, MARKET, 'process_deal_init_timed_out')
    r = E.run_function(fn, [RefV(stcell, (), True), RefV(Cell(OpaqueV('store'), 'store'), ()), RefV(Cell(deal['v'], 'deal'), ())])
    E.ctx.env['st1'] = stcell.value
    return r, rt


def props_timed_out(E, res):
    env = res.ctx.env
    deal, tb = env['deal'], env['tb']
    if res.kind != 'return':
        return [('no panic (%s)' % str(res.info)[:60], False)]
    if is_err(res.value):
        return [('time-out processing of a well-formed proposal never fails', False)]
    fee = deal['price'] * (deal['end'] - deal['start'])
    slashed = big(E, res.value.fields[('Ok', 0)])
    P = [('missed activation burns the provider collateral', slashed == deal['pc'])]
    P += accounting_props(E, res, 0, deal['cc'] + fee, 0, deal['pc'], 'time-out')
    tcc1, tpc1, tsf1 = totals(E, env['st1'])
    P.append(('market totals move with the deal', z3.And(tsf1 == tb['tsf'] - fee, tcc1 == tb['tcc'] - deal['cc'], tpc1 == tb['tpc'] - deal['pc'])))
    return P


def build(tier):
    O = [
        Obligation('market.process_deal_update[live]', run_update(False), props_update(False), scenario=make_scenario('process_deal_update'),
                   descr='payment = price*(min(end,now) - max(start,last_updated)); nothing before start; collaterals released exactly at completion; tables and totals move by exactly these amounts',
                   bounds='one deal, one call; client = / != provider; all amounts and epochs unbounded', max_paths=20000),
        Obligation('market.process_deal_update[marked-for-termination]', run_update(True), props_update(True), scenario=make_scenario('process_deal_update'),
                   descr='legacy slashed branch: paid to the slash epoch, remainder refunded, provider collateral burnt in full',
                   bounds='one deal, one call', max_paths=20000),
        Obligation('market.process_deal_update x2 (schedule independence)', run_chain, props_chain, scenario=make_scenario('process_deal_update_x2'),
                   descr='settle at e1 then at e2 (caller records last_updated := e1) == one settlement at e2, on the real code',
                   bounds='two chained calls, any lu <= e1 <= e2', max_paths=40000),
        Obligation('market.process_slashed_deal', run_slashed, props_slashed, scenario=make_scenario('process_slashed_deal'),
                   descr='termination: provider paid to min(end, slash), client refunded the rest + collateral, provider collateral burnt in full',
                   bounds='one deal, one call', max_paths=20000),
        Obligation('market.process_deal_init_timed_out', run_timed_out, props_timed_out, scenario=make_scenario('process_deal_init_timed_out'),
                   descr='missed activation: provider collateral burnt, client fully refunded', bounds='one deal, one call', max_paths=20000),
    ]
    from . import market_batch
    O += market_batch.build_for('C07', tier)
    # settle_deal_payments as a whole (shared with C01): collateral slashed for missed activations is burnt in full
    from . import C01
    O += [o for o in C01.build_settle(tier)]
    return O


# ---------------------------------------------------------------------------------------
# native replay scenarios ("market_state" adapter: calls the State method directly on a MemoryBlockstore)

def _tables_json(E, res, m):
    env = res.ctx.env
    deal, tb = env['deal'], env['tb']
    out = {'escrow': [], 'locked': []}
    names = ['client'] if tb['same'] else ['client', 'provider']
    for nm in names:
        a = deal[nm]
        esc, lck = tb['bal'][nm]
        out['escrow'].append({'addr': ev(m, a.key), 'amount': str(ev(m, esc)),
                              'present': bool(ev(m, z3.Or(esc > 0, z3.Bool('zero_entry_escrow_' + nm))))})
        out['locked'].append({'addr': ev(m, a.key), 'amount': str(ev(m, lck)),
                              'present': bool(ev(m, z3.Or(lck > 0, z3.Bool('zero_entry_locked_' + nm))))})
    out['totals'] = {'client_collateral': str(ev(m, tb['tcc'])), 'provider_collateral': str(ev(m, tb['tpc'])),
                     'storage_fee': str(ev(m, tb['tsf']))}
    return out


def _deal_json(m, deal):
    return {'client': ev(m, deal['client'].key), 'provider': ev(m, deal['provider'].key), 'start': ev(m, deal['start']),
            'end': ev(m, deal['end']), 'price': str(ev(m, deal['price'])), 'provider_collateral': str(ev(m, deal['pc'])),
            'client_collateral': str(ev(m, deal['cc']))}


def _after_json(E, res, m):
    env = res.ctx.env
    deal, tb = env['deal'], env['tb']
    ec, lc, ep, lp, em, lm = balances_after(E, env['st1'], deal, tb)
    tcc1, tpc1, tsf1 = totals(E, env['st1'])
    p = {'escrow': [{'id': ev(m, deal['client'].key), 'amount': str(ev(m, ec))}],
         'locked': [{'id': ev(m, deal['client'].key), 'amount': str(ev(m, lc))}],
         'totals': {'client_collateral': str(ev(m, tcc1)), 'provider_collateral': str(ev(m, tpc1)), 'storage_fee': str(ev(m, tsf1))}}
    if not tb['same']:
        p['escrow'].append({'id': ev(m, deal['provider'].key), 'amount': str(ev(m, ep))})
        p['locked'].append({'id': ev(m, deal['provider'].key), 'amount': str(ev(m, lp))})
    return p


def make_scenario(method):
    def scenario(E, res, m):
        env = res.ctx.env
        deal = env['deal']
        sc = {'actor': 'market_state', 'method': method, 'deal': _deal_json(m, deal)}
        sc.update(_tables_json(E, res, m))
        if 'ds' in env:
            ds = env['ds']
            sc['deal_state'] = {'sector_number': 1, 'sector_start_epoch': ev(m, ds['ss']), 'last_updated_epoch': ev(m, ds['lu']),
                                'slash_epoch': ev(m, ds['se'])}
        if 'epoch' in env:
            sc['epoch'] = ev(m, env['epoch'])
        if 'e1' in env:
            sc['epoch1'] = ev(m, env['e1'])
        pred = {'result': result_pred(E, res, m)}
        if res.kind == 'return' and is_ok(res.value):
            pred.update(_after_json(E, res, m))
            okv = res.value.fields[('Ok', 0)]
            if isinstance(okv, StructV):
                pred['ret'] = {'slashed': str(ev(m, big(E, okv.fields[0]))), 'payment': str(ev(m, big(E, okv.fields[1]))),
                               'completed': bool(ev(m, okv.fields[2])), 'remove': bool(ev(m, okv.fields[3]))}
            else:
                pred['ret'] = {'slashed': str(ev(m, big(E, okv)))}
        sc['predicted'] = pred
        return sc
    return scenario
