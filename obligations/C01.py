"""C01 — no FIL is created, lost or stranded: conservation and solvency.

The VM's send conserves FIL; the repo's part is that every actor only emits value it is entitled to emit and stays
solvent.  Inductive step obligations (arbitrary pre-state satisfying the solvency inequality, every success/failure
pattern of nested sends): miner money methods, market deposit/withdraw + per-deal accounting, paych (in C16),
reward award_block_reward."""
from .common import *
from . import miner_money, C14, C06

PROPERTY = 'C01'
CRATES = ['fil_actors_runtime', 'fil_actor_miner', 'fil_actor_market', 'fil_actor_reward']
REWARD_CRATE = 'fil_actor_reward'


def run_award(E):
    rt, rtref = new_rt(E)
    rt.state = LazyV('st', 'State')
    RS = Fields('actors/reward/src/state.rs', 'State')
    ter = fget(E, rt.state, RS['this_epoch_reward'], TOKEN).v
    tot = fget(E, rt.state, RS['total_storage_power_reward'], TOKEN).v
    E.ctx.assume(z3.And(ter >= 0, tot >= 0))
    E.ctx.env.update(dict(ter=ter, tot=tot, balance0=rt.balance))
    params = LazyV('params', 'types::AwardBlockRewardParams')
    E.ctx.env['params'] = params
    fn = find_fn(E, REWARD_CRATE, 'award_block_reward')
    return E.run_function(fn, [rtref, params]), rt


def props_award(E, res):
    env = res.ctx.env
    rt = env['rt']
    ctx = res.ctx
    if res.kind != 'return':
        return [('no panic (%s)' % str(res.info)[:60], False)]
    if is_err(res.value):
        return []
    RS = Fields('actors/reward/src/state.rs', 'State')
    AP = Fields('actors/reward/src/types.rs', 'AwardBlockRewardParams')
    pa = env['params']
    gas = fget(E, pa, AP['gas_reward'], TOKEN).v
    pen = fget(E, pa, AP['penalty'], TOKEN).v
    wins = fget(E, pa, AP['win_count'], 'i64').v
    bal0 = env['balance0']
    block = (env['ter'] * wins) / 5
    total = gas + block
    capped = z3.If(total > bal0, bal0, total)
    block_paid = capped - gas
    tot1 = fget(E, rt.state, RS['total_storage_power_reward'], TOKEN).v
    value_out = sum(s.value for s in rt.sends if s.ok) if rt.sends else 0
    P = [('only the system actor awards block rewards', b_and(rt.caller.proto == 0, rt.caller.key == 0)),
         ('the reward actor never pays out more than it holds', value_out <= bal0),
         ('reward = min(gas + this_epoch_reward*wins/5, balance)', (rt.sends[0].value == capped) if rt.sends else False),
         ('block reward never negative', block_paid >= 0),
         ('total mined counter grows by exactly the block reward paid', tot1 == env['tot'] + block_paid),
         ('inputs non-negative', z3.And(gas >= 0, pen >= 0, wins > 0))]
    if rt.sends:
        s0 = rt.sends[0]
        P.append(('first send is ApplyRewards to the winning miner', zv(s0.method) == 14))
        if not s0.ok:
            P.append(('an undeliverable reward is burnt, not kept or re-routed',
                      len(rt.sends) == 2 and implied(ctx, b_and(rt.sends[1].to.key == 99, rt.sends[1].to.proto == 0, rt.sends[1].value == s0.value))
                      if len(rt.sends) >= 2 else False))
        else:
            P.append(('no further sends after a delivered reward', len(rt.sends) == 1))
    P.append(('the call succeeds whatever the miner / burn sends do', True))
    return P


def build(tier):
    O = miner_money.build_for('C01', tier)
    for o in C14.build(tier):
        if o.name.startswith('miner.withdraw_balance'):
            O.append(o)
    for o in C06.build(tier):
        if 'withdraw_balance[accounting]' in o.name or 'add_balance' in o.name:
            O.append(o)
    O.append(Obligation('reward.award_block_reward', run_award, props_award,
                        descr='reward paid = min(gas + epoch reward share, balance); never more than held; undeliverable reward burnt; total counter exact; always Ok',
                        bounds='one call; state/params symbolic; both nested sends may fail', max_paths=20000))
    return O
