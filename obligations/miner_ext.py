"""C10, miner side: extension of sectors that carry verified claims (ExtendSectorExpiration2), at function level:
validate_extension_declarations (claims fetched from the registry, checked and summed per sector) and
extend_simple_qap_sector (the summed space is compared with the sector's verified space; claims may be dropped only in
the last 30 days).  The sector tables around them (loading sectors, re-queueing expirations) are the C04 area."""
from .common import *

MINER = 'fil_actor_miner'
DROP_PERIOD = 30 * 2880
CLAIM = 'ext::verifreg::Claim'


def CF():
    return Fields('actors/miner/src/ext.rs', 'Claim')


def claim_view(E, c):
    C = CF()
    g = lambda n, t: zv(fget(E, c, C[n], t))
    size = fget(E, fget(E, c, C['size'], 'fvm_shared::piece::PaddedPieceSize'), 0, 'u64').v
    return dict(provider=g('provider', 'u64'), sector=g('sector', 'u64'), size=size, term_max=g('term_max', 'i64'), term_start=g('term_start', 'i64'))


# ---- validate_extension_declarations -----------------------------------------------------------------------------

def run_validate(shape, second_decl=False):
    """shape = (number of maintained claim ids, number of dropped claim ids) of the single sector-with-claims"""
    nm, nd = shape

    def run(E):
        rt, rtref = new_rt(E)
        E.ctx.assume(rt.receiver.proto == 0)
        ids = [E.materialize('u64', 'claim_id%d' % i) for i in range(nm + nd)]
        sector = E.materialize('u64', 'sector')
        new_exp = E.materialize('i64', 'new_expiration')
        sc = StructV('types::SectorClaim', {0: sector, 1: VecV(ids[:nm], 'Vec<u64>'), 2: VecV(ids[nm:], 'Vec<u64>')})
        decl = StructV('types::ExpirationExtension2', {0: E.materialize('u64', 'deadline'), 1: E.materialize('u64', 'partition'),
                                                        2: models_fvm.BitSetV(()), 3: VecV([sc], 'Vec<SectorClaim>'), 4: new_exp})
        decls = [decl]
        env = E.ctx.env
        if second_decl:
            s2 = E.materialize('u64', 'sector2')
            e2 = E.materialize('i64', 'new_expiration2')
            decls.append(StructV('types::ExpirationExtension2', {0: E.materialize('u64', 'deadline2'), 1: E.materialize('u64', 'partition2'),
                                                                 2: models_fvm.BitSetV((s2.v,)), 3: VecV([], 'Vec<SectorClaim>'), 4: e2}))
            env.update(dict(sector2=s2.v, new_exp2=e2.v))
        claims = []

        def hook(E2, rt2, rec, nm_):
            # the registry answers GetClaims(ids) with the claims stored under those ids, in order: the same id yields
            # the same claim (decided by forking on id equality)
            ch = E2.ctx.choose(3, nm_ + '.outcome')
            if ch:
                return ('fail', None) if ch == 1 else ('syserr', None)
            out = []
            for i, idv in enumerate(ids):
                same = None
                for j in range(i):
                    if E2.ctx.branch(ids[j].v == idv.v):
                        same = out[j]
                        break
                out.append(same if same is not None else LazyV('claim%d' % i, CLAIM))
            claims[:] = out
            env['claims'] = list(out)
            # environment contract: claims stored by the registry are well formed (registry-side obligations of C10):
            # 0 <= term_start < 2^40, 0 <= term_max <= 5 years, padded piece sizes < 2^40
            for cl in out:
                v = claim_view(E2, cl)
                E2.ctx.assume(z3.And(v['term_start'] >= 0, v['term_start'] < 2**40, v['term_max'] >= 0, v['term_max'] <= 5 * (31556925 // 30), v['size'] < 2**40))
            ret = StructV('ext::verifreg::GetClaimsReturn', {0: StructV('BatchReturn', {0: IntV(len(ids), 'u32'), 1: VecV([], 'Vec<FailCode>')}),
                                                             1: VecV(list(out), 'Vec<Claim>')})
            return ('ok', some(BlockV(ret)))
        rt.send_hook = hook
        env.update(dict(ids=[x.v for x in ids], nm=nm, sector=sector.v, new_exp=new_exp.v))
        fn = find_fn(E, MINER, 'validate_extension_declarations')
        return E.run_function(fn, [rtref, VecV(decls, 'Vec<ExpirationExtension2>')]), rt
    return run


def props_validate(E, res):
    env = res.ctx.env
    ctx = res.ctx
    rt = env['rt']
    if res.kind != 'return':
        return [('no panic (%s)' % str(res.info)[:60], False)]
    if is_err(res.value):
        return []
    claims = env.get('claims')
    if claims is None:
        return [('claims are fetched from the verified registry', False)]
    ids, nm = env['ids'], env['nm']
    P = []
    s = rt.sends[0] if rt.sends else None
    P.append(('claims are fetched from the verified registry (f06) for this provider', s is not None and implied(ctx, b_and(s.to.proto == 0, s.to.key == 6))))
    views = [claim_view(E, c) for c in claims]
    for i, v in enumerate(views):
        kind = 'maintained' if i < nm else 'dropped'
        P.append(('every declared claim (%s) belongs to this provider' % kind, v['provider'] == rt.receiver.key))
        P.append(('every declared claim (%s) is a claim for the declared sector' % kind, v['sector'] == env['sector']))
        if i < nm:
            P.append(("a maintained claim's maximum term covers the new expiration", env['new_exp'] <= v['term_start'] + v['term_max']))
    # the per-sector space: every claim counted once
    r = E.deref(res.value.fields[('Ok', 0)])
    EF = Fields('actors/miner/src/lib.rs', 'ExtendExpirationsInner')
    cm = E.deref(fget(E, r, EF['claims'], 'Option<BTreeMap>'))
    n_, cv = variant(E, cm)
    d = E.deref(payload(E, cv, 'Some')) if n_ == 'Some' else None
    dm = d.obj if isinstance(d, ObjV) else d
    entry = None
    if dm is not None:
        for (kt, kv, cell) in dm.items:
            if implied(ctx, kt[1] == env['sector']):
                entry = E.deref(cell.value)
    if entry is None:
        P.append(('the declared sector has an entry in the claimed-space table', False))
        return P
    check, maintain = zv(E.deref(entry.fields[0])), zv(E.deref(entry.fields[1]))
    distinct = []
    for i in range(len(ids)):
        first = all(implied(ctx, ids[j] != ids[i]) for j in range(i))
        dup = any(implied(ctx, ids[j] == ids[i]) for j in range(i))
        if not first and not dup:
            P.append(('oracle-precondition: claim id aliasing decided', False))
            return P
        distinct.append(first)
    tot = sum(views[i]['size'] for i in range(len(ids)) if distinct[i]) if any(distinct) else 0
    mt = sum(views[i]['size'] for i in range(nm) if distinct[i]) if any(distinct[:nm]) else 0
    dup_tag = '' if all(distinct) else ' [same claim id listed twice]'
    P.append(('the space claimed for the sector counts every declared claim exactly once' + dup_tag, check == tot))
    P.append(('the space kept after the extension counts every maintained claim exactly once' + dup_tag, maintain == mt))
    if 'sector2' in env:
        # a second declaration of the same message extending the same sector without listing claims
        same = env['sector2'] == env['sector']
        for i in range(nm):
            P.append(("no declaration of the message extends the sector beyond a maintained claim's maximum term [same sector in two declarations]",
                      z3.Implies(same, env['new_exp2'] <= views[i]['term_start'] + views[i]['term_max'])))
    return P


# ---- extend_simple_qap_sector --------------------------------------------------------------------------------------

def run_extend(has_entry):
    def run(E):
        rt, rtref = new_rt(E)
        SF = Fields('actors/miner/src/types.rs', 'SectorOnChainInfo')
        sec = LazyV('sector', 'types::SectorOnChainInfo')
        g = lambda n, t: fget(E, sec, SF[n], t)
        exp, pbe = g('expiration', 'i64').v, g('power_base_epoch', 'i64').v
        vdw, dw = big(E, g('verified_deal_weight', 'BigInt')), big(E, g('deal_weight', 'BigInt'))
        snum = g('sector_number', 'u64').v
        cur = E.materialize('i64', 'curr_epoch').v
        new_exp = E.materialize('i64', 'new_expiration').v
        # sector invariants: weights non-negative, a live sector (power base <= now < expiration <= 2^40)
        E.ctx.assume(z3.And(vdw >= 0, dw >= 0, pbe >= 0, pbe <= cur, cur < exp, exp < 2**40, new_exp >= exp, new_exp < 2**41))
        check, maintain = E.materialize('u64', 'space.check'), E.materialize('u64', 'space.maintain')
        E.ctx.assume(z3.And(maintain.v <= check.v, check.v < 2**62))       # produced by validate_extension_declarations
        d = models_std.DictM('BTreeMap')
        if has_entry:
            d.items.append([('int', snum), IntV(snum, 'u64'), Cell(StructV('tuple', {0: check, 1: maintain}), 'space')])
        policy = E.do_call(None, '<Policy as Default>::default', [], 'Policy') if False else None
        env = E.ctx.env
        env.update(dict(exp=exp, pbe=pbe, vdw=vdw, cur=cur, new_exp=new_exp, check=check.v, maintain=maintain.v, has_entry=has_entry, sec=sec))
        fn = find_fn(E, MINER, 'extend_simple_qap_sector')
        pol = rt_policy(E, rt, rtref)
        return E.run_function(fn, [pol, IntV(new_exp, 'i64'), IntV(cur, 'i64'), RefV(Cell(sec, 'sec'), ()), RefV(Cell(ObjV(d), 'space'), ())]), rt
    return run


def rt_policy(E, rt, rtref):
    return E.do_call(None, '<MockRT as Runtime>::policy', [rtref], '&Policy')


def props_extend(E, res):
    env = res.ctx.env
    if res.kind != 'return':
        return [('no panic (%s)' % str(res.info)[:60], False)]
    if is_err(res.value):
        return []
    SF = Fields('actors/miner/src/types.rs', 'SectorOnChainInfo')
    new = E.deref(res.value.fields[('Ok', 0)])
    vdw1 = big(E, fget(E, new, SF['verified_deal_weight'], 'BigInt'))
    old_dur = env['exp'] - env['pbe']
    new_dur = env['new_exp'] - env['cur']
    space = env['vdw'] / old_dur
    has_verified = env['vdw'] > 0
    P = [('the sector is re-based on the current epoch and takes the new expiration',
          z3.And(fget(E, new, SF['expiration'], 'i64').v == env['new_exp'], fget(E, new, SF['power_base_epoch'], 'i64').v == env['cur']))]
    if not env['has_entry']:
        P.append(('a sector with verified weight cannot be extended without declaring its claims', z3.Not(has_verified)))
        P.append(('verified weight unchanged when there is none', vdw1 == env['vdw']))
        return P
    P.append(('the declared claims account for the whole verified space of the sector', z3.Implies(has_verified, env['check'] == space)))
    dropping = env['maintain'] != env['check']
    P.append(("claims are dropped only in the last 30 days of the sector's life", z3.Implies(z3.And(has_verified, dropping), env['exp'] - env['cur'] <= DROP_PERIOD)))
    P.append(('verified weight after the extension = space of the maintained claims x new duration', z3.Implies(has_verified, vdw1 == env['maintain'] * new_dur)))
    return P


def build_for(tier):
    O = []
    shapes = [(1, 0), (0, 1), (1, 1), (2, 0)] if tier == 'quick' else [(1, 0), (0, 1), (1, 1), (2, 0), (0, 2), (2, 1)]
    for sh in shapes:
        O.append(Obligation('miner.validate_extension_declarations[maintain=%d, drop=%d]' % sh, run_validate(sh), props_validate,
                            descr="declared claims belong to this provider and this sector; maintained claims' terms cover the new expiration; per-sector space counts every claim once",
                            bounds='one declaration, one sector with %d maintained + %d dropped claim ids (ids symbolic, may coincide); registry answer: the stored claims in order, failure or syscall error' % sh, max_paths=100000))
    O.append(Obligation('miner.validate_extension_declarations[maintain=1 + second declaration]', run_validate((1, 0), True), props_validate,
                        descr="a second declaration of the same message naming the same sector without claims cannot extend it beyond the maintained claim's term",
                        bounds='two declarations: one sector with one maintained claim, one plain sector (numbers symbolic, may coincide)', max_paths=100000))
    for he in (True, False):
        O.append(Obligation('miner.extend_simple_qap_sector[%s]' % ('claims declared' if he else 'no claims declared'), run_extend(he), props_extend,
                            descr='declared space must equal the verified space; claims dropped only in the final 30 days; new verified weight = maintained space x new duration',
                            bounds='one sector; all fields symbolic under the sector invariants (weights >= 0, power base <= now < expiration)', max_paths=20000, expect_ok=True))
    return O
