"""C17 — decided by engine K (Kani/CBMC harnesses over the real EVM interpreter sources, /verif/kani); see DESIGN.md."""
PROPERTY = 'C17'
CRATES = []
ENGINES = ['K']
CHECKER_CMD = ('cargo kani (Kani 0.68.0, CBMC 6.11.0, cadical) on the harness crate /verif/kani, which #[path]-includes the real sources of /repo; '
               'unwinding assertions on; vacuity guarded by kani::cover! witnesses')
TRUSTED = ['rustc + Kani codegen', 'CBMC', 'the byte-wise / limb-wise reference oracles inside the harnesses (written from the Yellow Paper, EIP-145, EIP-3855)']


def build(tier):
    return []
