//! C18 – totality / bounds of the EVM stack (interpreter/stack.rs, contains `unsafe`).
//!
//! Every harness builds a REAL `Stack` with real `push` calls: `d` fully symbolic 256-bit
//! values `vals[0..d]` are pushed, `vals[0]` deepest, `vals[d-1]` on top.  The depth `d` is
//! ENUMERATED over a small window around the interesting boundary (every d in 0..=S+1 for
//! pop_many::<S>) by a loop with a concrete counter: a symbolic `d` makes the Vec length and
//! every heap offset symbolic and CBMC runs out of 12 GB even for d <= 4 (measured), and a
//! symbolic depth 0..=1024 crashed at 13 GB.  The set of (depth, contents) states covered is
//! the same.  CBMC's pointer checks (dereference of dead / out-of-bounds / deallocated
//! objects) are active for the `unsafe` blocks.
//!
//! Order returned by `pop_many::<S>()`: a reference to the S top-most items in STACK-BOTTOM-
//! FIRST order, i.e. `r[0]` is the deepest of the S items (Yellow Paper µs[S-1]) and `r[S-1]`
//! the former top of stack (µs[0]).  (The `rev!` macro in instructions/mod.rs then binds the
//! first macro argument to `r[S-1]` = top of stack.)
use super::util::*;
use crate::interpreter::stack::{STACK_SIZE, Stack};
use crate::{EVM_CONTRACT_STACK_OVERFLOW, EVM_CONTRACT_STACK_UNDERFLOW};
use fil_actors_evm_shared::uints::U256;

/// Exit codes the EVM actor documents for stack faults (actors/evm/src/lib.rs): 36 / 37.
/// The harness compares against the constants generated from the current /repo text AND pins
/// the numeric values.
const UNDERFLOW: u32 = 36;
const OVERFLOW: u32 = 37;

pub const MAXV: usize = 8;

pub fn any_vals<const N: usize>() -> [U256; N] {
    let mut v = [U256([0; 4]); N];
    let mut i = 0;
    while i < N {
        v[i] = any_u256();
        i += 1;
    }
    v
}

/// Build a stack holding vals[0..d] (vals[0] deepest) through the real checked `push`.
pub fn build<const N: usize>(vals: &[U256; N], d: usize) -> Stack {
    let mut s = Stack::new();
    let mut i = 0;
    while i < N {
        if i < d {
            assert!(s.push(vals[i]).is_ok());
        }
        i += 1;
    }
    assert!(s.len() == d);
    s
}

pub fn eq(a: &U256, b: &U256) -> bool {
    same(a, b.0)
}

/// Pops everything that is left and checks it equals vals[0..d] (top first).
pub fn drain_equals<const N: usize>(s: &mut Stack, vals: &[U256; N], d: usize) {
    assert!(s.len() == d);
    let mut i = N;
    while i > 0 {
        i -= 1;
        if i < d {
            let v = s.pop();
            assert!(v.is_ok());
            assert!(eq(&v.unwrap(), &vals[i]));
        }
    }
    assert!(s.len() == 0);
    assert!(s.is_empty());
}

fn pop_many_case<const S: usize>(d: usize) {
    let vals: [U256; MAXV] = any_vals();
    let mut s = build(&vals, d);
    let out: Option<[U256; S]> = match s.pop_many::<S>() {
        Ok(r) => Some(*r),
        Err(e) => {
            assert!(e.exit_code() == EVM_CONTRACT_STACK_UNDERFLOW);
            assert!(e.exit_code().value() == UNDERFLOW);
            None
        }
    };
    match out {
        None => {
            // underflow iff fewer than S items; the stack is left untouched
            assert!(d < S);
            drain_equals(&mut s, &vals, d);
        }
        Some(r) => {
            assert!(d >= S);
            let mut j = 0;
            while j < S {
                // r[j] is the item that was at absolute position d - S + j
                assert!(eq(&r[j], &vals[d - S + j]));
                j += 1;
            }
            // exactly S items were removed, the rest is unchanged
            drain_equals(&mut s, &vals, d - S);
        }
    }
    if d == S + 1 {
        kani::cover!(out.is_some() && vals[0].0[3] != 0);
    }
    if d + 1 == S {
        kani::cover!(out.is_none());
    }
}

macro_rules! pop_many_harness {
    ($name:ident, $s:literal, $unw:literal) => {
        #[kani::proof]
        #[kani::unwind($unw)]
        fn $name() {
            let mut d = 0;
            while d <= $s + 1 {
                pop_many_case::<$s>(d);
                d += 1;
            }
            kani::cover!(d == $s + 2);
        }
    };
}
// S values used by instructions/mod.rs: 0 (JUMPDEST/INVALID/STOP), 1..=4, 5 (LOG3), 6, 7 (CALL)
pop_many_harness!(c18_stack_pop_many_0, 0, 10);
pop_many_harness!(c18_stack_pop_many_1, 1, 10);
pop_many_harness!(c18_stack_pop_many_2, 2, 10);
pop_many_harness!(c18_stack_pop_many_3, 3, 10);
pop_many_harness!(c18_stack_pop_many_4, 4, 10);
pop_many_harness!(c18_stack_pop_many_5, 5, 10);
pop_many_harness!(c18_stack_pop_many_6, 6, 10);
pop_many_harness!(c18_stack_pop_many_7, 7, 10);

/// `pop` / `drop` / `len` / `is_empty` on every depth 0..=3: LIFO order, underflow error
/// code, a failed operation leaves the stack unchanged.
#[kani::proof]
#[kani::unwind(10)]
fn c18_stack_pop_drop() {
    let mut d = 0;
    while d <= 3 {
        pop_drop_case(d);
        d += 1;
    }
    kani::cover!(d == 4);
}

fn pop_drop_case(d: usize) {
    let vals: [U256; MAXV] = any_vals();
    let mut s = build(&vals, d);
    assert!(s.is_empty() == (d == 0));
    let use_drop: bool = kani::any();
    if use_drop {
        match s.drop() {
            Ok(()) => {
                assert!(d > 0);
                drain_equals(&mut s, &vals, d - 1);
            }
            Err(e) => {
                assert!(d == 0 && e.exit_code().value() == UNDERFLOW);
                assert!(e.exit_code() == EVM_CONTRACT_STACK_UNDERFLOW);
                assert!(s.len() == 0);
            }
        }
    } else {
        match s.pop() {
            Ok(v) => {
                assert!(d > 0 && eq(&v, &vals[d - 1]));
                drain_equals(&mut s, &vals, d - 1);
            }
            Err(e) => {
                assert!(d == 0 && e.exit_code().value() == UNDERFLOW);
                assert!(e.exit_code() == EVM_CONTRACT_STACK_UNDERFLOW);
                assert!(s.len() == 0);
            }
        }
    }
    if d == 3 {
        kani::cover!(use_drop && vals[2].0[0] == 7);
    }
    if d == 0 {
        kani::cover!(!use_drop);
    }
}

/// `dup(i)` for every depth 0..=5 and symbolic i in 1..=6: underflow iff i > depth (stack
/// unchanged), otherwise depth+1 items, new top == item i-1 below the old top, rest unchanged.
#[kani::proof]
#[kani::unwind(10)]
fn c18_stack_dup() {
    let mut d = 0;
    while d <= 5 {
        dup_case(d);
        d += 1;
    }
    kani::cover!(d == 6);
}

fn dup_case(d: usize) {
    let vals: [U256; MAXV] = any_vals();
    let i: usize = kani::any();
    kani::assume(i >= 1 && i <= 6);
    let mut s = build(&vals, d);
    match s.dup(i) {
        Ok(()) => {
            assert!(i <= d);
            assert!(s.len() == d + 1);
            let top = s.pop();
            assert!(top.is_ok() && eq(&top.unwrap(), &vals[d - i]));
            drain_equals(&mut s, &vals, d);
        }
        Err(e) => {
            assert!(i > d);
            assert!(e.exit_code() == EVM_CONTRACT_STACK_UNDERFLOW && e.exit_code().value() == UNDERFLOW);
            drain_equals(&mut s, &vals, d);
        }
    }
    if d == 5 {
        kani::cover!(i == 5 && vals[0].0[1] == 9);
    }
    if d == 2 {
        kani::cover!(i == 3);
    }
}

/// `swap_top(i)` for every depth 0..=5, symbolic i in 0..=6: underflow iff depth <= i
/// (unchanged), otherwise exchanges top with the item i below it and nothing else.
#[kani::proof]
#[kani::unwind(10)]
fn c18_stack_swap_top() {
    let mut d = 0;
    while d <= 5 {
        swap_case(d);
        d += 1;
    }
    kani::cover!(d == 6);
}

fn swap_case(d: usize) {
    let vals: [U256; MAXV] = any_vals();
    let i: usize = kani::any();
    kani::assume(i <= 6);
    let mut s = build(&vals, d);
    match s.swap_top(i) {
        Ok(()) => {
            assert!(i < d);
            let mut expect = vals;
            let t = expect[d - 1];
            expect[d - 1] = expect[d - 1 - i];
            expect[d - 1 - i] = t;
            drain_equals(&mut s, &expect, d);
        }
        Err(e) => {
            assert!(i >= d);
            assert!(e.exit_code() == EVM_CONTRACT_STACK_UNDERFLOW && e.exit_code().value() == UNDERFLOW);
            drain_equals(&mut s, &vals, d);
        }
    }
    if d == 5 {
        kani::cover!(i == 4 && vals[0].0[1] == 9);
    }
    if d == 3 {
        kani::cover!(i == 3);
        kani::cover!(i == 0);
    }
}

/// `ensure_one` + `push_unchecked` far below the limit (depth 0..=4): always Ok, LIFO.
#[kani::proof]
#[kani::unwind(10)]
fn c18_stack_ensure_one() {
    let mut d = 0;
    while d <= 4 {
        let vals: [U256; MAXV] = any_vals();
        let mut s = build(&vals, d);
        assert!(s.ensure_one().is_ok());
        let x = any_u256();
        s.push_unchecked(x);
        assert!(s.len() == d + 1);
        let t = s.pop();
        assert!(t.is_ok() && eq(&t.unwrap(), &x));
        drain_equals(&mut s, &vals, d);
        d += 1;
    }
    kani::cover!(d == 5);
}

/// Crossing the initial Vec capacity (INITIAL_STACK_SIZE = 32): 31 constant items, then
/// symbolic pushes / dup across the reallocation; contents survive the move.
#[kani::proof]
#[kani::unwind(40)]
fn c18_stack_realloc() {
    let mut s = Stack::new();
    let mut i = 0;
    while i < 31 {
        s.push_unchecked(U256([i as u64, 0, 0, 0]));
        i += 1;
    }
    let a = any_u256();
    let b = any_u256();
    assert!(s.push(a).is_ok()); // 32 = capacity
    assert!(s.dup(1).is_ok()); // 33: `reserve(1)` inside dup reallocates
    assert!(s.push(b).is_ok()); // 34
    assert!(s.swap_top(2).is_ok()); // b <-> a(original)
    assert!(s.len() == 34);
    let r = *s.pop_many::<3>().unwrap();
    assert!(eq(&r[0], &b) && eq(&r[1], &a) && eq(&r[2], &a));
    let t = s.pop().unwrap();
    assert!(same(&t, [30, 0, 0, 0]));
    assert!(s.len() == 30);
    kani::cover!(a.0[3] != 0 && b.0[0] != a.0[0]);
}

/// Yellow Paper 9.1 stack limit 1024.  Filling a stack with 1023 real pushes is beyond CBMC
/// (1022 x push_unchecked + unwind 1030: CBMC aborted at the 12 GB cap after 5 min), so the
/// pre-filled stack is made from a `Vec<U256>` of capacity 1024 and length 1022 + n
/// (n symbolic in 0..=2, contents nondeterministic) re-interpreted as `Stack` – `Stack` is a
/// single-field struct around `Vec<U256>`; the harness asserts equal size and that `len()`
/// reads back.  On that stack the REAL `push`, `ensure_one`, `dup(1)` must succeed iff the
/// depth is < 1024, report EVM_CONTRACT_STACK_OVERFLOW (37) otherwise and never exceed 1024.
#[kani::proof]
#[kani::unwind(6)]
fn c18_stack_push_limit() {
    assert!(STACK_SIZE == 1024);
    assert!(core::mem::size_of::<Stack>() == core::mem::size_of::<Vec<U256>>());
    let n: usize = kani::any();
    kani::assume(n <= 2);
    let d = 1022 + n;
    let mut v: Vec<U256> = Vec::with_capacity(1024);
    // SAFETY (harness only): U256 is plain-old-data; CBMC treats the fresh allocation as
    // nondeterministic, i.e. arbitrary stack contents.
    unsafe { v.set_len(d) };
    let top = any_u256();
    v[d - 1] = top;
    let mut s: Stack = unsafe { core::mem::transmute::<Vec<U256>, Stack>(v) };
    assert!(s.len() == d);
    let full = d >= 1024;
    match s.ensure_one() {
        Ok(()) => assert!(!full),
        Err(e) => assert!(full && e.exit_code() == EVM_CONTRACT_STACK_OVERFLOW && e.exit_code().value() == OVERFLOW),
    }
    let which: bool = kani::any();
    let x = any_u256();
    if which {
        match s.push(x) {
            Ok(()) => {
                assert!(!full && s.len() == d + 1);
                let t = s.pop();
                assert!(t.is_ok() && eq(&t.unwrap(), &x));
            }
            Err(e) => {
                assert!(full && e.exit_code() == EVM_CONTRACT_STACK_OVERFLOW && e.exit_code().value() == OVERFLOW);
            }
        }
    } else {
        match s.dup(1) {
            Ok(()) => {
                assert!(!full && s.len() == d + 1);
                let t = s.pop();
                assert!(t.is_ok() && eq(&t.unwrap(), &top));
            }
            Err(e) => {
                assert!(full && e.exit_code() == EVM_CONTRACT_STACK_OVERFLOW && e.exit_code().value() == OVERFLOW);
            }
        }
    }
    assert!(s.len() == d && s.len() <= 1024);
    let t = s.pop();
    assert!(t.is_ok() && eq(&t.unwrap(), &top));
    kani::cover!(full && which);
    kani::cover!(full && !which);
    kani::cover!(n == 1 && !which);
    kani::cover!(n == 0 && which);
}
