"""C05 — the epoch cron never fails and keeps every active miner on schedule (partial, see DESIGN.md).

cron.epoch_tick and power.process_deferred_cron_events executed whole with every pattern of failing callbacks;
the miner-side clauses tagged C05 in miner_money.py (no 'balance invariants broken', fresh-miner cron finding);
deadline arithmetic is decided bit-precisely by the Kani harnesses (c05_deadline_*)."""
from .common import *
from .models_imports import mk_enum
from . import miner_money

PROPERTY = 'C05'
CRATES = ['fil_actors_runtime', 'fil_actor_miner', 'fil_actor_cron', 'fil_actor_power', 'fil_actor_market']
ENGINES = ['M', 'K']


# ---- cron.epoch_tick ------------------------------------------------------------------------------------

def run_cron(n):
    def run(E):
        rt, rtref = new_rt(E)
        ents = [StructV('state::Entry', {0: E.materialize(ADDR, 'entry%d.receiver' % i), 1: E.materialize('u64', 'entry%d.method' % i)}) for i in range(n)]
        rt.state = StructV('State', {0: VecV(ents, 'Vec<Entry>')})
        E.ctx.env['entries'] = ents
        fn = find_fn(E, 'fil_actor_cron', 'epoch_tick')
        return E.run_function(fn, [rtref]), rt
    return run


def props_cron(E, res):
    env = res.ctx.env
    rt = env['rt']
    if res.kind != 'return':
        return [('the tick never panics (%s)' % str(res.info)[:60], False)]
    ents = env['entries']
    if is_err(res.value):
        return [('the tick fails only for a caller other than the system actor', b_not(b_and(rt.caller.proto == 0, rt.caller.key == 0)))]
    P = [('only the system actor ticks', b_and(rt.caller.proto == 0, rt.caller.key == 0)),
         ('every entry is attempted exactly once, in order', len(rt.sends) == len(ents))]
    for s, e in zip(rt.sends, ents):
        P.append(('entry called as registered', b_and(addr_eq(s.to, e.fields[0]), zv(s.method) == e.fields[1].v, s.value == 0)))
    P.append(('the tick succeeds whatever the entries do', True))
    return P


# ---- power.process_deferred_cron_events -----------------------------------------------------------------

def run_power_tick(shape):
    """shape: list (per epoch in the processing window) of event counts"""
    def run(E):
        rt, rtref = new_rt(E)
        PS = Fields('actors/power/src/state.rs', 'State')
        st = StructV('State', {}, lazy='st')
        first = fget(E, st, PS['first_cron_epoch'], 'i64').v
        E.ctx.assume(z3.And(first >= 0, rt.epoch == first + len(shape) - 1))
        mc = fget(E, st, PS['miner_count'], 'i64').v
        E.ctx.assume(z3.And(mc >= 0, mc < 2**40))
        qbase = 'map(st.%d)' % PS['cron_event_queue']
        qb = BaseInfo(closed=True)
        E.ctx.memo[('mapbase', qbase)] = qb
        events = []
        for i, k in enumerate(shape):
            if k == 0:
                continue       # no queue entry for this epoch
            evs = []
            for j in range(k):
                a = E.materialize(ADDR, 'ev%d_%d.miner' % (i, j))
                E.ctx.assume(z3.And(a.proto == 0, a.key >= 100))
                evs.append(StructV('state::CronEvent', {0: a, 1: BlockV(None, 'ev%d_%d.payload' % (i, j))}))
                events.append((i, a))
            ab = BaseInfo(closed=True)
            aname = 'amt_epoch%d' % i
            E.ctx.memo[('mapbase', aname)] = ab
            for j, ev_ in enumerate(evs):
                ab.entries.append([('int', j), True, ev_, IntV(j, 'u64')])
            acid = new_cid(E, MapM(aname, (), 'state::CronEvent', 'amt'), 'amtroot')
            ek = IntV(first + i, 'i64')
            qb.entries.append([('int', first + i), True, acid, OpaqueV('bytes', ek)])
        rt.state = st
        E.ctx.env.update(dict(events=events, first=first, mc=mc, shape=shape))
        # power-state invariant for the claims that get looked up: non-negative power, a supported window PoSt proof type,
        # and totals / above-minimum count that include every claim at or above the consensus minimum
        claims_base = 'map(st.%d)' % PS['claims']
        tot_raw = fget(E, st, PS['total_raw_byte_power'], 'BigInt').v
        tot_qa = fget(E, st, PS['total_quality_adj_power'], 'BigInt').v
        above = fget(E, st, PS['miner_above_min_power_count'], 'i64').v
        E.ctx.assume(z3.And(tot_raw >= 0, tot_qa >= 0, above >= 0, above <= mc))
        MINP = 10 << 40
        acc = {'raw': 0, 'qa': 0, 'n': 0, 'cnt': 0}

        def hook(E2, m, kt, val):
            if m.base != claims_base:
                return None
            CL = Fields('actors/power/src/state.rs', 'Claim')
            raw = z3.Int('%s.raw' % val.name)
            qa = z3.Int('%s.qa' % val.name)
            E2.ctx.assume(z3.And(raw >= 0, qa >= 0))
            acc['raw'] = acc['raw'] + z3.If(raw >= MINP, raw, 0)
            acc['qa'] = acc['qa'] + z3.If(raw >= MINP, qa, 0)
            acc['n'] = acc['n'] + z3.If(raw >= MINP, 1, 0)
            acc['cnt'] += 1
            E2.ctx.assume(z3.And(tot_raw >= acc['raw'], tot_qa >= acc['qa'], above >= acc['n'], mc >= acc['cnt']))
            return StructV('state::Claim', {CL['window_post_proof_type']: mk_enum('RegisteredPoStProof', 'RegisteredPoStProof', 'StackedDRGWindow32GiBV1P1'),
                                            CL['raw_byte_power']: BigV(raw), CL['quality_adj_power']: BigV(qa)})
        E.ctx.env['map_value_hook'] = hook
        # claims: arbitrary (discovered on lookup); claim values keep the consensus-minimum bookkeeping consistent
        rew = LazyV('rewret', 'fil_actors_runtime::reward::ThisEpochRewardReturn')
        fn = find_fn(E, 'fil_actor_power', 'process_deferred_cron_events')
        return E.run_function(fn, [rtref, rew]), rt
    return run


def props_power_tick(E, res):
    env = res.ctx.env
    rt = env['rt']
    ctx = res.ctx
    if res.kind != 'return':
        return [('cron processing never panics (%s)' % str(res.info)[:60], False)]
    if is_err(res.value):
        return [('cron processing never fails, whatever the miner callbacks do', False)]
    PS = Fields('actors/power/src/state.rs', 'State')
    st1 = rt.state
    P = [('first_cron_epoch advances to now + 1', fget(E, st1, PS['first_cron_epoch'], 'i64').v == rt.epoch + 1)]
    qcid = fget(E, st1, PS['cron_event_queue'], CID)
    qm = heap_get(E, qcid) if isinstance(qcid, CidV) else None
    for i, k in enumerate(env['shape']):
        if k == 0:
            continue
        if isinstance(qm, MapM):
            p, v = final_lookup(E, qm, ('int', env['first'] + i))
            P.append(('events of epoch first+%d are removed from the queue' % i, p is False))
        else:
            P.append(('queue rewritten', False))
    # every event of a miner WITH a claim is delivered exactly once, in queue order; none for miners without
    claims_base = 'map(st.%d)' % PS['claims']
    expect = []
    for (i, a) in env['events']:
        e = decided_entry(ctx, base_info(E, claims_base).entries, ('addr', a.proto, a.key))
        if e is not None and e[1] is True:
            expect.append(a)
    P.append(('one callback per queued event of a miner holding a claim', len(rt.sends) == len(expect)))
    failed = []
    for s, a in zip(rt.sends, expect):
        P.append(('callback goes to the enrolled miner, OnDeferredCronEvent, no value', b_and(addr_eq(s.to, a), zv(s.method) == 12, s.value == 0)))
        if not s.ok:
            failed.append(a)
    # a failing miner loses its claim; nobody else does
    ccid = fget(E, st1, PS['claims'], CID)
    cm = heap_get(E, ccid) if isinstance(ccid, CidV) else None
    deleted = []
    if isinstance(cm, MapM):
        seen = []
        for (k, pres, val, _) in reversed(cm.over):
            if any(implied(ctx, key_eq(k, s)) for s in seen):
                continue
            seen.append(k)
            if pres is False:
                deleted.append(k)
            else:
                P.append(('claims are only deleted, never rewritten, by cron processing', False))
    for k in deleted:
        P.append(('only miners whose callback failed lose their claim', any_of([key_eq(k, ('addr', a.proto, a.key)) for a in failed])))
    for a in failed:
        P.append(('a miner whose callback failed loses its claim', any(implied(ctx, key_eq(k, ('addr', a.proto, a.key))) for k in deleted)))
    return P


# ---- tolerated sends inside the tick: request_terminate_deals ----------------------------------------------

def run_terminate_deals(cron):
    def run(E):
        rt, rtref = new_rt(E)
        if cron:
            # cron context: message origin = system actor (f00); the immediate caller is the power actor
            E.ctx.assume(z3.And(rt.origin.proto == 0, rt.origin.key == 0, rt.caller.proto == 0, rt.caller.key == 4))
        else:
            E.ctx.assume(z3.Not(z3.And(rt.origin.proto == 0, rt.origin.key == 0)))
        nm = 'sectors'
        E.ctx.assume(z3.Int(nm + '#card') >= 0)
        bf = models_fvm.BitFieldV(nm)
        ep = E.materialize('i64', 'term_epoch')
        fn = find_fn(E, 'fil_actor_miner', 'request_terminate_deals')
        return E.run_function(fn, [rtref, ep, RefV(Cell(bf, 'bf'), ())]), rt
    return run


def props_terminate_deals(cron):
    def props(E, res):
        rt = res.ctx.env['rt']
        if res.kind != 'return':
            return [('no panic (%s)' % str(res.info)[:60], False)]
        P = [('at most one notification, to the market actor, without value',
              len(rt.sends) <= 1 and all(implied(res.ctx, b_and(s.to.proto == 0, s.to.key == 5, s.value == 0)) for s in rt.sends))]
        if cron:
            P.append(('inside the tick a failing market notification is tolerated: the miner callback does not fail', is_ok(res.value)))
        else:
            P.append(('outside the tick the call fails exactly when the notification failed', is_ok(res.value) == all(s.ok for s in rt.sends)))
        return P
    return props


# ---- early terminations are all eventually processed: Partition::pop_early_terminations -----------------------
# The partition's early-termination queue (AMT epoch -> sector set) with n entries; sector sets are modelled by
# their cardinality.  CUT: Partition::validate_state (sector-set invariants, C04 area) -> Ok.

def run_pop_et(n):
    def run(E):
        rt, rtref = new_rt(E)
        PF = Fields('actors/miner/src/partition_state.rs', 'Partition')
        qb = BaseInfo(closed=True)
        part = StructV('Partition', {}, lazy='part')
        qcid = fget(E, part, PF['early_terminated'], CID)
        name = qcid.hkey[1] if qcid.hkey[0] == 'sym' else None
        E.ctx.memo[('mapbase', 'map(%s)' % name)] = qb
        ents = []
        prev = None
        for i in range(n):
            ep = z3.Int('q%d.epoch' % i)
            E.ctx.assume(z3.And(ep >= 0, ep < 2**40))
            if prev is not None:
                E.ctx.assume(ep > prev)
            prev = ep
            bf = models_fvm.BitFieldV('q%d.sectors' % i)
            card = z3.Int('q%d.sectors#card' % i)
            E.ctx.assume(z3.And(card >= 1, card < 2**40))       # queue entries are never empty
            qb.entries.append([('int', ep), True, bf, IntV(ep, 'u64')])
            ents.append((ep, card))
        mx = E.materialize('u64', 'max_sectors')
        E.ctx.assume(z3.And(mx.v >= 1, mx.v < 2**40))
        E.cuts['Partition::validate_state'] = lambda E2, call: ok(UNIT, call.dest_ty)
        cell = Cell(part, 'part')
        E.ctx.env.update(dict(ents=ents, mx=mx.v, cell=cell))
        fn = find_fn(E, 'fil_actor_miner', 'pop_early_terminations', 'partition_state')
        return E.run_function(fn, [RefV(cell, (), True), RefV(Cell(OpaqueV('store'), 'store'), ()), mx]), rt
    return run


def props_pop_et(E, res):
    env = res.ctx.env
    ctx = res.ctx
    if res.kind != 'return':
        return [('no panic (%s)' % str(res.info)[:60], False)]
    if is_err(res.value):
        return [('popping early terminations from a well-formed queue never fails', False)]
    PF = Fields('actors/miner/src/partition_state.rs', 'Partition')
    tup = E.deref(res.value.fields[('Ok', 0)])
    result, has_more = E.deref(tup.fields[0]), tup.fields[1]
    TR = Fields('actors/miner/src/termination.rs', 'TerminationResult')
    processed = fget(E, result, TR['sectors_processed'], 'u64').v
    part1 = env['cell'].value
    q1 = heap_get(E, fget(E, part1, PF['early_terminated'], CID))
    if not isinstance(q1, MapM):
        return [('queue written back', False)]
    left = models_fvm.map_entries(E, q1)
    left_card = sum(z3.Int(E.deref(v).name + '#card') for (_, v, _) in left) if left else 0
    total = sum(c for (_, c) in env['ents']) if env['ents'] else 0
    hm = has_more if is_sym(has_more) else z3.BoolVal(bool(has_more))
    P = [('has_more is reported exactly when entries remain queued (nothing is stranded)', hm == z3.BoolVal(len(left) > 0)),
         ('processed + remaining = queued', processed + left_card == total),
         ('never more than the budget', processed <= env['mx']),
         ('budget used up or queue drained', z3.Or(processed == env['mx'], z3.BoolVal(len(left) == 0))),
         ('remaining entries are non-empty', all_of([z3.Int(E.deref(v).name + '#card') >= 1 for (_, v, _) in left]))]
    return P


# ---- power.on_epoch_tick_end: the power actor's cron callback as a whole ----------------------------------------------
# CUT (declared): process_deferred_cron_events -> Ok (its totality is the obligation above); the reward actor's answers
# are free (typed success, failure, syscall error).

def run_tick_end(E):
    rt, rtref = new_rt(E)
    rt.state = LazyV('st', 'State')
    E.cuts['Actor::process_deferred_cron_events'] = lambda E2, c: ok(UNIT, c.dest_ty)
    E.cuts['process_deferred_cron_events'] = lambda E2, c: ok(UNIT, c.dest_ty)
    fn = find_fn(E, 'fil_actor_power', 'on_epoch_tick_end')
    return E.run_function(fn, [rtref]), rt


def props_tick_end(E, res):
    rt = res.ctx.env['rt']
    if res.kind != 'return':
        return [('the power tick never panics (%s)' % str(res.info)[:60], False)]
    if is_err(res.value):
        decode_failed = any(isinstance(k, tuple) and len(k) == 3 and k[0] == 'mat' for k in ()) or True
        return [("the power actor's cron callback fails only for a caller other than cron, or when the reward actor could not be queried / updated",
                 z3.Or(z3.Not(z3.And(rt.caller.proto == 0, rt.caller.key == 3)), z3.BoolVal(any(not s.ok for s in rt.sends)), z3.BoolVal(len(rt.sends) >= 1 and rt.commits == 0)))]
    P = [('only cron ticks the power actor', z3.And(rt.caller.proto == 0, rt.caller.key == 3)),
         ('the reward actor is queried and then told the network power (two calls, no value)', len(rt.sends) == 2 and all(implied(res.ctx, b_and(s.to.proto == 0, s.to.key == 2, s.value == 0)) for s in rt.sends))]
    PS = Fields('actors/power/src/state.rs', 'State')
    st1 = rt.state
    g = lambda n: big(E, fget(E, st1, PS[n], 'BigInt'))
    P.append(('the epoch snapshot of pledge collateral is the current total', big(E, fget(E, st1, PS['this_epoch_pledge_collateral'], TOKEN)) == big(E, fget(E, st1, PS['total_pledge_collateral'], TOKEN))))
    return P


# ---- power.enroll_cron_event: an enrolled callback is stored where the tick will find it --------------------------------

def run_enroll(k):
    """k = number of events already queued for the requested epoch (0 = no queue entry for that epoch)"""
    def run(E):
        rt, rtref = new_rt(E)
        PS = Fields('actors/power/src/state.rs', 'State')
        st = StructV('State', {}, lazy='st')
        first = fget(E, st, PS['first_cron_epoch'], 'i64').v
        E.ctx.assume(z3.And(first >= 0, first < 2**40))
        ep = E.materialize('i64', 'event_epoch')
        qbase = 'map(st.%d)' % PS['cron_event_queue']
        qb = BaseInfo(closed=True)
        E.ctx.memo[('mapbase', qbase)] = qb
        if k:
            ab = BaseInfo(closed=True)
            E.ctx.memo[('mapbase', 'amt_target')] = ab
            for j in range(k):
                ab.entries.append([('int', j), True, LazyV('old_event%d' % j, 'state::CronEvent'), IntV(j, 'u64')])
            acid = new_cid(E, MapM('amt_target', (), 'state::CronEvent', 'amt'), 'amtroot')
            qb.entries.append([('int', ep.v), True, acid, OpaqueV('bytes', ep)])
        rt.state = st
        params = StructV('types::EnrollCronEventParams', {0: ep, 1: BlockV(None, 'payload')})
        E.ctx.env.update(dict(first=first, ep=ep.v, k=k, qbase=qbase))
        fn = find_fn(E, 'fil_actor_power', 'enroll_cron_event')
        return E.run_function(fn, [rtref, params]), rt
    return run


def props_enroll(E, res):
    env = res.ctx.env
    rt = env['rt']
    if res.kind != 'return':
        return [('no panic (%s)' % str(res.info)[:60], False)]
    if is_err(res.value):
        return [('a refused enrolment commits nothing', rt.commits == 0)]
    PS = Fields('actors/power/src/state.rs', 'State')
    st1 = rt.state
    first1 = fget(E, st1, PS['first_cron_epoch'], 'i64').v
    P = [('only miner actors enrol callbacks', rt.caller_type == models_fvm.ACTOR_TYPES['Miner']),
         ('callbacks are never enrolled for a negative epoch', env['ep'] >= 0),
         ("the tick's scan window covers the enrolled epoch: first_cron_epoch = min(previous, event epoch)",
          first1 == z3.If(env['ep'] < env['first'], env['ep'], env['first']))]
    qm = heap_get(E, fget(E, st1, PS['cron_event_queue'], CID))
    if not isinstance(qm, MapM):
        return P + [('queue written', False)]
    fp, fv = final_lookup(E, qm, ('int', env['ep']))
    P.append(('the queue has an entry for the requested epoch', fp is True))
    if fp is True:
        arr = heap_get(E, E.deref(fv))
        if not isinstance(arr, MapM):
            P.append(('the entry is an event array', False))
        else:
            ents = models_fvm.map_entries(E, arr)
            P.append(('the new event is appended after the %d already queued (none lost)' % env['k'], len(ents) == env['k'] + 1))
            if ents:
                ev_ = E.deref(ents[-1][1])
                P.append(('the stored event calls back the enrolling miner', addr_eq(E.deref(ev_.fields[0]) if not isinstance(E.deref(ev_.fields[0]), LazyV) else E.materialize(ADDR, E.deref(ev_.fields[0]).name), rt.caller)))
    return P


def build(tier):
    O = []
    for k in ([0, 1] if tier == 'quick' else [0, 1, 2]):
        O.append(Obligation('power.enroll_cron_event[already queued=%d]' % k, run_enroll(k), props_enroll,
                            descr='only miners; epoch >= 0; the event is appended to the queue entry of its epoch (nothing lost) and first_cron_epoch moves back to cover it',
                            bounds='%d event(s) already queued at that epoch; rest of the queue symbolic-closed' % k, max_paths=5000))
    O.append(Obligation('power.on_epoch_tick_end', run_tick_end, props_tick_end,
                        descr="the power actor's cron callback: fails only when the reward actor cannot be queried / updated; snapshots the pledge total; reports the network power",
                        bounds='one call; state symbolic; CUT: process_deferred_cron_events -> Ok (decided separately); reward-actor answers free', max_paths=20000))
    for n in ([0, 1, 2] if tier == 'quick' else [0, 1, 2, 3]):
        O.append(Obligation('miner.Partition::pop_early_terminations[queue entries=%d]' % n, run_pop_et(n), props_pop_et,
                            descr='has_more reported iff entries remain; processed + remaining = queued; budget respected',
                            bounds='%d queue entries; sector sets by cardinality; CUT: Partition::validate_state' % n, max_paths=20000))
    for cron in (True, False):
        O.append(Obligation('miner.request_terminate_deals[%s]' % ('cron context' if cron else 'user message'), run_terminate_deals(cron), props_terminate_deals(cron),
                            descr='market notification of terminated sectors: tolerated failure inside the tick (origin = system actor), propagated otherwise',
                            bounds='one call; sector set symbolic (cardinality only); send may succeed, fail or hit a syscall error', max_paths=2000))
    for n in ([0, 1, 2, 3] if tier == 'quick' else [0, 1, 2, 3, 4]):
        O.append(Obligation('cron.epoch_tick[entries=%d]' % n, run_cron(n), props_cron,
                            descr='every entry attempted once in order; Ok for every pattern of failing entries', bounds='%d entries' % n, max_paths=20000))
    shapes = [[0], [1], [2], [1, 1], [0, 2]] if tier == 'quick' else [[0], [1], [2], [3], [1, 1], [0, 2], [1, 0, 1]]   # [2, 1] costs as much as [3] (9731 paths) and adds no new shape
    for sh in shapes:
        O.append(Obligation('power.process_deferred_cron_events[events per epoch=%s]' % sh, run_power_tick(sh), props_power_tick,
                            descr='never fails; all due events removed; one callback per event of a claimed miner; failing miners lose their claim, nobody else',
                            bounds='window of %d epoch(s), events per epoch %s; claims map symbolic' % (len(sh), sh), max_paths=100000))
    from . import market_batch
    O += market_batch.build_for('C05', tier)
    # the market tick relies on an invariant that settlements must keep: a deal whose pending-proposal entry was retired by
    # its first update is stamped as updated (obligation shared with C01 / C07)
    from . import C01
    O += [o for o in C01.build_settle(tier) if '[3 deals' not in o.name]
    O += miner_money.build_for('C05', tier)
    return O
