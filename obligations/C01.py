"""C01 — no FIL is created, lost or stranded: conservation and solvency.

The VM's send conserves FIL; the repo's part is that every actor only emits value it is entitled to emit and stays
solvent.  Inductive step obligations (arbitrary pre-state satisfying the solvency inequality, every success/failure
pattern of nested sends): miner money methods, market deposit/withdraw + per-deal accounting, paych (in C16),
reward award_block_reward."""
from .common import *
from . import miner_money, C14, C06, C16

PROPERTY = 'C01'
CRATES = ['fil_actors_runtime', 'fil_actor_miner', 'fil_actor_market', 'fil_actor_reward', 'fil_actor_paych']
REWARD_CRATE = 'fil_actor_reward'


def run_award(E):
    rt, rtref = new_rt(E)
    rt.state = LazyV('st', 'State')
    RS = Fields('actors/reward/src/state.rs', 'State')
    ter = fget(E, rt.state, RS['this_epoch_reward'], TOKEN).v
    tot = fget(E, rt.state, RS['total_storage_power_reward'], TOKEN).v
    E.ctx.assume(z3.And(ter >= 0, tot >= 0))
    E.ctx.env.update(dict(ter=ter, tot=tot, balance0=rt.balance))
    params = LazyV('params', 'types::AwardBlockRewardParams')
    E.ctx.env['params'] = params
    fn = find_fn(E, REWARD_CRATE, 'award_block_reward')
    return E.run_function(fn, [rtref, params]), rt


def props_award(E, res):
    env = res.ctx.env
    rt = env['rt']
    ctx = res.ctx
    if res.kind != 'return':
        return [('no panic (%s)' % str(res.info)[:60], False)]
    if is_err(res.value):
        return []
    RS = Fields('actors/reward/src/state.rs', 'State')
    AP = Fields('actors/reward/src/types.rs', 'AwardBlockRewardParams')
    pa = env['params']
    gas = fget(E, pa, AP['gas_reward'], TOKEN).v
    pen = fget(E, pa, AP['penalty'], TOKEN).v
    wins = fget(E, pa, AP['win_count'], 'i64').v
    bal0 = env['balance0']
    block = (env['ter'] * wins) / 5
    total = gas + block
    capped = z3.If(total > bal0, bal0, total)
    block_paid = capped - gas
    tot1 = fget(E, rt.state, RS['total_storage_power_reward'], TOKEN).v
    value_out = sum(s.value for s in rt.sends if s.ok) if rt.sends else 0
    P = [('only the system actor awards block rewards', b_and(rt.caller.proto == 0, rt.caller.key == 0)),
         ('the reward actor never pays out more than it holds', value_out <= bal0),
         ('reward = min(gas + this_epoch_reward*wins/5, balance)', (rt.sends[0].value == capped) if rt.sends else False),
         ('block reward never negative', block_paid >= 0),
         ('total mined counter grows by exactly the block reward paid', tot1 == env['tot'] + block_paid),
         ('inputs non-negative', z3.And(gas >= 0, pen >= 0, wins > 0))]
    if rt.sends:
        s0 = rt.sends[0]
        P.append(('first send is ApplyRewards to the winning miner', zv(s0.method) == 14))
        if not s0.ok:
            P.append(('an undeliverable reward is burnt, not kept or re-routed',
                      len(rt.sends) == 2 and implied(ctx, b_and(rt.sends[1].to.key == 99, rt.sends[1].to.proto == 0, rt.sends[1].value == s0.value))
                      if len(rt.sends) >= 2 else False))
        else:
            P.append(('no further sends after a delivered reward', len(rt.sends) == 1))
    P.append(('the call succeeds whatever the miner / burn sends do', True))
    return P


# ---- market.settle_deal_payments: every amount slashed while settling a batch is burnt ------------------------
# Cuts (declared): State::get_active_deal_or_process_timeout and State::process_deal_update are replaced by their
# result contracts (their own accounting is decided in C07 / C08); the loop, the accumulation of slashed amounts, the
# transaction and the burn are the real code.

def run_settle(ndeals, cut_index=False):
    def run(E):
        from .market_common import MARKET, F
        rt, rtref = new_rt(E)
        rt.state = LazyV('st', 'State')
        ST, DPF, DSF = F()
        E.ctx.env['lazy_vec_lens'] = [0, 1]
        ids = [E.materialize('u64', 'deal%d' % i).v for i in range(ndeals)]
        for a, b in zip(ids, ids[1:]):
            E.ctx.assume(a < b)            # a bit field is a set; iteration is ascending
        pens = []
        pays = []

        def hook(E2, m, kt, val):
            if m.base == 'map(st.%d)' % ST['proposals']:
                E2.ctx.assume(z3.And(fget(E2, val, DPF['client'], ADDR).proto == 0, fget(E2, val, DPF['provider'], ADDR).proto == 0))
            return None
        E.ctx.env['map_value_hook'] = hook

        def cut_load(E2, call):
            nm = 'load%d' % len([1 for _ in E2.ctx.env.setdefault('loads', [])])
            E2.ctx.env['loads'].append(nm)
            E2.ctx.env['last_loaded_id'] = zv(call.args[3])
            ch = E2.ctx.choose(4, nm)
            ty = type_args(call.dest_ty)[0] if call.dest_ty else 'state::LoadDealState'
            if ch == 0:
                return ok(EnumV(ty, 0, 'TooEarly', {}), call.dest_ty)
            if ch == 1:
                pen = z3.Int(nm + '.slashed')
                E2.ctx.assume(pen >= 0)
                pens.append(pen)
                E2.ctx.env['pens'] = list(pens)
                return ok(EnumV(ty, 1, 'ProposalExpired', {('ProposalExpired', 0): BigV(pen)}), call.dest_ty)
            if ch == 2:
                return ok(EnumV(ty, 2, 'Loaded', {('Loaded', 0): LazyV(nm + '.state', 'deal::DealState')}), call.dest_ty)
            code = z3.Int(nm + '.err')
            E2.ctx.assume(z3.And(code >= 16, code < 100))
            return err(models_fvm.actor_error(E2, code), call.dest_ty)

        def cut_update(E2, call):
            nm = 'upd%d' % len(E2.ctx.env.setdefault('upds', []))
            E2.ctx.env['upds'].append(nm)
            if E2.ctx.choose(2, nm) == 1:
                code = z3.Int(nm + '.err')
                E2.ctx.assume(z3.And(code >= 16, code < 100))
                return err(models_fvm.actor_error(E2, code), call.dest_ty)
            pay = z3.Int(nm + '.payment')
            E2.ctx.assume(pay >= 0)
            done = E2.ctx.fresh_bool(nm + '.completed')
            rem = E2.ctx.fresh_bool(nm + '.remove')
            E2.ctx.env['updated'] = E2.ctx.env.get('updated', []) + [dict(did=E2.ctx.env.get('last_loaded_id'), remove=rem)]
            return ok(StructV('tuple', {0: BigV(0), 1: BigV(pay), 2: done, 3: rem}), call.dest_ty)
        E.cuts['State::get_active_deal_or_process_timeout'] = cut_load
        if cut_index:
            E.cuts['State::remove_sector_deal_ids'] = lambda E2, c: ok(UNIT, c.dest_ty)      # provider->sector->deal index maintenance
        E.cuts['State::process_deal_update'] = cut_update
        E.ctx.env['pens'] = []
        E.ctx.env['balance0'] = rt.balance
        params = StructV('types::SettleDealPaymentsParams', {0: models_fvm.BitSetV(ids)})
        fn = find_fn(E, MARKET, 'settle_deal_payments')
        return E.run_function(fn, [rtref, params]), rt
    return run


def props_settle(E, res):
    env = res.ctx.env
    rt = env['rt']
    ctx = res.ctx
    if res.kind != 'return':
        return [('no panic (%s)' % str(res.info)[:60], False)]
    pens = env.get('pens', [])
    total = sum(pens) if pens else 0
    if is_err(res.value):
        return [('a failed settlement batch either commits nothing or failed in the burn', b_or(rt.commits == 0, any(not s.ok for s in rt.sends)))]
    P = []
    burns = [s for s in rt.sends]
    for s in burns:
        P.append(('the only value leaving the market while settling goes to the burnt-funds actor', b_and(s.to.proto == 0, s.to.key == 99, zv(s.method) == 0)))
    sent = sum(s.value for s in burns) if burns else 0
    P.append(('every amount slashed from timed-out proposals in the batch is burnt: nothing is stranded in the market actor', sent == total))
    # a settled deal that continues is written back stamped with the settlement epoch: the first update retires the deal's
    # pending-proposal entry (C07 contract of process_deal_update), and the cron tick treats an unstamped deal as one whose
    # entry must still exist - an unstamped settled deal would make every later tick fail
    from .market_common import F
    ST, DPF, DSF = F()
    sm = heap_get(E, fget(E, rt.state, ST['states'], CID))
    for u in env.get('updated', []):
        if implied(ctx, u['remove'] if is_sym(u['remove']) else z3.BoolVal(bool(u['remove']))):
            continue
        if not isinstance(sm, MapM) or u['did'] is None:
            P.append(('a settled deal that continues is written back', False))
            continue
        pres, val = final_lookup(E, sm, ('int', u['did']))
        if pres is not True or val is None:
            P.append(('a settled deal that continues is written back stamped with the settlement epoch (the cron tick relies on the stamp)', False))
        else:
            P.append(('a settled deal that continues is written back stamped with the settlement epoch (the cron tick relies on the stamp)',
                      fget(E, E.deref(val), DSF['last_updated_epoch'], 'i64').v == rt.epoch))
    return P


def build_settle(tier):
    O = []
    for n in ([1, 2] if tier == 'quick' else [1, 2, 3]):
        O.append(Obligation('market.settle_deal_payments[%d deals%s]' % (n, '; index maintenance cut' if n >= 3 else ''), run_settle(n, n >= 3), props_settle,
                            descr='amounts slashed from timed-out proposals while settling a batch are burnt in full (one burn), nothing else leaves',
                            bounds='%d deal ids; CUTS: get_active_deal_or_process_timeout and process_deal_update replaced by result contracts (decided in C07/C08)' % n,
                            max_paths=200000))
    return O


def build(tier):
    O = miner_money.build_for('C01', tier)
    O += build_settle(tier)
    for o in C14.build(tier):
        if o.name.startswith('miner.withdraw_balance'):
            O.append(o)
    for o in C06.build(tier):
        if 'withdraw_balance[accounting]' in o.name or 'add_balance' in o.name:
            O.append(o)
    # payment channel: the channel holds at least what it owes the payee; collect pays out exactly the balance
    MONEY = ('amount owed', 'payee gets exactly', 'remainder', 'two payouts', 'plain transfers', 'no panic', 'failed collect')
    def money_only(f):
        return lambda E, res: [(l, P) for (l, P) in f(E, res) if any(k in l for k in MONEY)]
    for o in C16.build(tier):
        if ('update_channel_state' in o.name and 'merges=2' not in o.name) or 'collect' in o.name:
            O.append(Obligation(o.name, o.run, money_only(o.props), descr='C01 clauses of: ' + o.descr, bounds=o.bounds,
                                max_paths=o.max_paths, scenario=o.scenario, wall_s=getattr(o, 'wall_s', None)))
    from . import market_batch
    O += market_batch.build_for('C01', tier)
    O.append(Obligation('reward.award_block_reward', run_award, props_award,
                        descr='reward paid = min(gas + epoch reward share, balance); never more than held; undeliverable reward burnt; total counter exact; always Ok',
                        bounds='one call; state/params symbolic; both nested sends may fail', max_paths=20000))
    return O
