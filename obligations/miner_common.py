"""Symbolic miner actor state for the money obligations (C01, C03, C14, C15, C05).

State = the four ledgers (pre_commit_deposits, locked_funds, initial_pledge, fee_debt), a vesting table with a fixed
number of entries (head + tail object) satisfying its representation invariant (strictly increasing epochs, tail
amounts positive, locked_funds = sum of the table), MinerInfo (see C13) and the scheduling fields."""
from .common import *
from . import C13

MINER = 'fil_actor_miner'
CRATES = ['fil_actors_runtime', 'fil_actor_miner']
VF = 'vesting_state::VestingFund'


def SF():
    return Fields('actors/miner/src/state.rs', 'State')


def mk_vesting(E, n, name='vest'):
    """VestingFunds with n entries (n = 0: None).  returns (value, [(epoch, amount)], total)"""
    ctx = E.ctx
    wrap = lambda o: StructV('vesting_state::VestingFunds', {0: o})
    if n == 0:
        return wrap(EnumV('std::option::Option<vesting_state::VestingFundsInner>', 0, 'None', {})), [], 0
    ents = []
    prev = None
    for i in range(n):
        e = z3.Int('%s%d.epoch' % (name, i))
        a = z3.Int('%s%d.amount' % (name, i))
        ctx.assume(z3.And(e >= 0, e < 2**50))
        if prev is not None:
            ctx.assume(e > prev)
        ctx.assume(a >= 0)      # zero-amount entries occur (exhausted head; floor schedule of tiny sums)
        prev = e
        ents.append((e, a))
    mkf = lambda e, a: StructV(VF, {0: IntV(e, 'i64'), 1: BigV(a)})
    tail = VecV([mkf(e, a) for (e, a) in ents[1:]], 'Vec<VestingFund>')
    tcid = new_cid(E, tail, 'vesttail')
    inner = StructV('vesting_state::VestingFundsInner', {0: mkf(*ents[0]), 1: tcid})
    total = sum(a for (_, a) in ents)
    return wrap(EnumV('std::option::Option<vesting_state::VestingFundsInner>', 1, 'Some', {('Some', 0): inner})), ents, total


def vesting_entries(E, vf):
    """entries [(epoch, amount)] of a VestingFunds value after a call (concrete shape per path)"""
    vf = E.deref(vf)
    if isinstance(vf, StructV) and 0 in vf.fields and isinstance(E.deref(vf.fields[0]), EnumV):
        vf = E.deref(vf.fields[0])      # newtype VestingFunds(Option<Inner>)
    if isinstance(vf, EnumV):
        if vf.vname == 'None':
            return []
        inner = E.deref(vf.fields[('Some', 0)])
    else:
        raise Inconclusive('vesting funds of unexpected shape %r' % (vf,))
    head = E.deref(inner.fields[0])
    tail = heap_get(E, inner.fields[1])
    out = []
    ha = big(E, head.fields[1])
    # load(): the head is part of the table only while its amount is positive
    out.append((head.fields[0].v, ha, 'head'))
    for f in E.deref(tail).items:
        f = E.deref(f)
        out.append((f.fields[0].v, big(E, f.fields[1]), 'tail'))
    return out


def mk_miner_state(E, nvest=1, ncontrol=0, with_info=True):
    ST = SF()
    ctx = E.ctx
    vf, ents, vtotal = mk_vesting(E, nvest)
    fields = {ST['vesting_funds']: vf}
    pre = {}
    if with_info:
        ip = C13.pre_info(E, ncontrol)
        fields[ST['info']] = fget(E, ip['st'], ST['info'], CID)
        pre['info'] = ip['info']
        pre['owner'], pre['worker'], pre['ben'] = ip['owner'], ip['worker'], ip['ben']
    st = StructV('State', fields, lazy='st')
    pcd = fget(E, st, ST['pre_commit_deposits'], TOKEN).v
    lf = fget(E, st, ST['locked_funds'], TOKEN).v
    ip_ = fget(E, st, ST['initial_pledge'], TOKEN).v
    fd = fget(E, st, ST['fee_debt'], TOKEN).v
    pps = fget(E, st, ST['proving_period_start'], 'i64').v
    ctx.assume(z3.And(pcd >= 0, ip_ >= 0, fd >= 0, pps >= 0, pps < 2**50))
    ctx.assume(lf == vtotal)                     # C03: locked-funds total = sum of the vesting schedule
    pre.update(dict(st=st, pcd=pcd, lf=lf, ip=ip_, fd=fd, pps=pps, vents=ents, vtotal=vtotal))
    ctx.env['pre'] = pre
    return pre


def ledgers(E, st):
    ST = SF()
    return dict(pcd=fget(E, st, ST['pre_commit_deposits'], TOKEN).v, lf=fget(E, st, ST['locked_funds'], TOKEN).v,
                ip=fget(E, st, ST['initial_pledge'], TOKEN).v, fd=fget(E, st, ST['fee_debt'], TOKEN).v,
                vents=vesting_entries(E, fget(E, st, ST['vesting_funds'], 'vesting_state::VestingFunds')))


def table_sum(ents):
    return sum(a for (_, a, _) in ents) if ents else 0


def table_wellformed(ents, what='vesting table'):
    P = []
    for i, (e, a, k) in enumerate(ents):
        if i > 0:
            P.append(('%s: epochs strictly increasing' % what, e > ents[i - 1][0]))
            P.append(('%s: amounts non-negative' % what, a >= 0))
        else:
            P.append(('%s: head amount non-negative' % what, a >= 0))
    return P


BURNT = 99
POWER = 4
REWARD = 2


def is_burn(s):
    return b_and(s.to.proto == 0, s.to.key == BURNT)


def solvency(rt, led):
    """balance >= pre-commit deposits + vesting funds + initial pledge, all ledgers non-negative"""
    return z3.And(led['pcd'] >= 0, led['lf'] >= 0, led['ip'] >= 0, led['fd'] >= 0,
                  rt.balance >= led['pcd'] + led['lf'] + led['ip'])
