"""C15 — faults and early terminations are always paid for (penalty accounting clauses; see miner_money.py and the
monies.rs formula obligations below)."""
from .common import *
from .miner_common import *
from . import miner_money

PROPERTY = 'C15'


def build(tier):
    return miner_money.build_for('C15', tier)


# ---- monies.rs formulas ---------------------------------------------------------------------------------

def run_term_fee(E):
    rt, rtref = new_rt(E)
    p, age, ff = z3.Int('pledge'), z3.Int('age'), z3.Int('fault_fee')
    E.ctx.assume(z3.And(p >= 0, age >= 0, age < 2**40, ff >= 0))
    E.ctx.env.update(dict(p=p, age=age, ff=ff))
    fn = find_fn(E, MINER, 'pledge_penalty_for_termination')
    r = E.run_function(fn, [RefV(Cell(BigV(p), 'p'), ()), IntV(age, 'i64'), RefV(Cell(BigV(ff), 'ff'), ())])
    return r, rt


def props_term_fee(E, res):
    if res.kind != 'return':
        return [('no panic (%s)' % str(res.info)[:60], False)]
    env = res.ctx.env
    p, age, ff = env['p'], env['age'], env['ff']
    fee = big(E, res.value)
    simple = (85 * p) / 1000
    dur = (age * simple) / (140 * 2880)
    base = z3.If(simple <= dur, simple, dur)
    min_abs = (2 * p) / 100
    min_ff = (105 * ff) / 100
    minimum = z3.If(min_abs >= min_ff, min_abs, min_ff)
    cap = z3.If(simple >= min_ff, simple, min_ff)
    return [('termination fee is at least 2% of the pledge', fee >= min_abs),
            ('termination fee is at most the protocol cap max(8.5% of pledge, 105% of the fault fee)', fee <= z3.If(cap >= min_abs, cap, min_abs)),
            ('termination fee = max(min(8.5% pledge, age-scaled), max(2% pledge, 105% fault fee))', fee == z3.If(base >= minimum, base, minimum)),
            ('termination fee never negative', fee >= 0)]


def run_term_fee_mono(E):
    """two calls: older sector never pays less"""
    rt, rtref = new_rt(E)
    p, a1, a2, ff = z3.Int('pledge'), z3.Int('age1'), z3.Int('age2'), z3.Int('fault_fee')
    E.ctx.assume(z3.And(p >= 0, a1 >= 0, a2 >= a1, a2 < 2**40, ff >= 0))
    fn = find_fn(E, MINER, 'pledge_penalty_for_termination')
    r1 = E.run_function(fn, [RefV(Cell(BigV(p), 'p'), ()), IntV(a1, 'i64'), RefV(Cell(BigV(ff), 'ff'), ())])
    r2 = E.run_function(fn, [RefV(Cell(BigV(p), 'p'), ()), IntV(a2, 'i64'), RefV(Cell(BigV(ff), 'ff'), ())])
    E.ctx.env['r1'] = r1
    return r2, rt


def props_term_fee_mono(E, res):
    if res.kind != 'return':
        return [('no panic (%s)' % str(res.info)[:60], False)]
    return [('termination fee is monotone in sector age', big(E, res.value) >= big(E, res.ctx.env['r1']))]


def _cut_cumsum(E, call):
    v = E.ctx.fresh_int('cum_sum_of_ratio')      # any Q.128 value, either sign
    return BigV(v)


def run_fault_fee(which):
    def run(E):
        rt, rtref = new_rt(E)
        E.cuts['smooth::extrapolated_cum_sum_of_ratio'] = _cut_cumsum
        E.cuts['extrapolated_cum_sum_of_ratio'] = _cut_cumsum
        fe = 'fil_actors_runtime::reward::FilterEstimate'
        re_ = LazyV('reward_est', fe)
        pe = LazyV('power_est', fe)
        qp = z3.Int('qa_power')
        E.ctx.assume(qp >= 0)
        # smoothed reward / power estimates are non-negative quantities (invariant of the reward and power actors)
        E.ctx.assume(z3.And(z3.Int('reward_est.0') >= 0, z3.Int('power_est.0') >= 0))
        fn = find_fn(E, MINER, which)
        r = E.run_function(fn, [RefV(Cell(re_, 're'), ()), RefV(Cell(pe, 'pe'), ()), RefV(Cell(BigV(qp), 'qp'), ())])
        return r, rt
    return run


def props_fault_fee(floor_amount):
    def props(E, res):
        if res.kind != 'return':
            return [('no panic (%s)' % str(res.info)[:60], False)]
        return [('fault / dispute penalties are never negative (and include the fixed base where specified)', big(E, res.value) >= floor_amount)]
    return props


def run_cf_penalty(E):
    rt, rtref = new_rt(E)
    r = z3.Int('epoch_reward')
    E.ctx.assume(r >= 0)
    E.ctx.env['r'] = r
    E.ctx.env['slash'] = E.run_function(find_fn(E, MINER, 'reward_for_consensus_slash_report'), [RefV(Cell(BigV(r), 'r'), ())])
    return E.run_function(find_fn(E, MINER, 'consensus_fault_penalty'), [BigV(r)]), rt


def props_cf_penalty(E, res):
    if res.kind != 'return':
        return [('no panic (%s)' % str(res.info)[:60], False)]
    r = res.ctx.env['r']
    return [('consensus fault penalty = 5 x epoch reward / 5 expected leaders', big(E, res.value) == (5 * r) / 5),
            ('reporter share = epoch reward / (5 x 4)', big(E, res.ctx.env['slash']) == r / 20),
            ('reporter share never exceeds the penalty', big(E, res.ctx.env['slash']) <= big(E, res.value))]


_build_methods = build


# ---- State::repay_debts: the fee-debt gate used by withdrawals, pre-commits and recovery declarations ------------------

def run_repay_gate(E):
    from .miner_common import mk_miner_state
    rt, rtref = new_rt(E)
    pre = mk_miner_state(E, 0, with_info=False)
    bal = z3.Int('balance')
    E.ctx.assume(bal >= 0)
    cell = Cell(pre['st'], 'st')
    E.ctx.env.update(dict(bal=bal, cell=cell))
    fn = find_fn(E, MINER, 'repay_debts', 'state')
    return E.run_function(fn, [RefV(cell, (), True), RefV(Cell(BigV(bal), 'b'), ())]), rt


def props_repay_gate(E, res):
    from .miner_common import ledgers
    env = res.ctx.env
    pre = env['pre']
    if res.kind != 'return':
        return [('no panic (%s)' % str(res.info)[:60], False)]
    led = ledgers(E, env['cell'].value)
    unlocked = env['bal'] - pre['lf'] - pre['pcd'] - pre['ip']
    if is_err(res.value):
        return [('the gate refuses exactly when the unlocked balance cannot cover the fee debt (or the miner is insolvent), leaving the debt in place',
                 z3.And(z3.Or(unlocked < pre['fd'], unlocked < 0), led['fd'] == pre['fd']))]
    out = big(E, res.value.fields[('Ok', 0)])
    return [('the gate passes only when the unlocked balance covers the whole fee debt', unlocked >= pre['fd']),
            ('the whole debt is handed over for burning and cleared', z3.And(out == pre['fd'], led['fd'] == 0)),
            ('the other ledgers are untouched', z3.And(led['ip'] == pre['ip'], led['pcd'] == pre['pcd'], led['lf'] == pre['lf']))]


def build(tier):  # noqa: F811
    O = _build_methods(tier)
    O.append(Obligation('monies.pledge_penalty_for_termination', run_term_fee, props_term_fee,
                        descr='2% pledge <= termination fee <= cap; exact closed form', bounds='all integers unbounded', max_paths=200))
    O.append(Obligation('monies.pledge_penalty_for_termination (monotone in age)', run_term_fee_mono, props_term_fee_mono,
                        descr='older sectors never pay less (until the 140-day cap)', bounds='two calls', max_paths=500))
    O.append(Obligation('monies.pledge_penalty_for_continued_fault', run_fault_fee('pledge_penalty_for_continued_fault'), props_fault_fee(0),
                        descr='continued-fault fee >= 0 for any smoothing-filter state', bounds='CUT: extrapolated_cum_sum_of_ratio = arbitrary integer', max_paths=200))
    O.append(Obligation('monies.pledge_penalty_for_invalid_windowpost', run_fault_fee('pledge_penalty_for_invalid_windowpost'), props_fault_fee(20 * 10**18),
                        descr='disputed-PoSt penalty >= 20 FIL base', bounds='CUT: extrapolated_cum_sum_of_ratio = arbitrary integer', max_paths=200))
    O.append(Obligation('monies.consensus_fault_penalty', run_cf_penalty, props_cf_penalty,
                        descr='consensus fault penalty and reporter share formulas', bounds='reward unbounded', max_paths=100))
    from . import miner_formulas
    O += miner_formulas.build_fees(tier)
    O.append(Obligation('miner.State::repay_debts', run_repay_gate, props_repay_gate,
                        descr='fee-debt gate (withdrawals, pre-commits, recovery declarations): passes only by repaying the whole debt out of unlocked balance, otherwise refuses and keeps the debt',
                        bounds='all ledgers and the balance symbolic', max_paths=200, expect_ok=True))
    # every early-terminated sector is eventually charged: the backlog flag that keeps the fee-assessment cron going must be
    # exact (obligation shared with C05 / C14)
    from . import C05
    for n in ([0, 1, 2] if tier == 'quick' else [0, 1, 2, 3]):
        O.append(Obligation('miner.Partition::pop_early_terminations[queue entries=%d]' % n, C05.run_pop_et(n), C05.props_pop_et,
                            descr='has_more reported iff entries remain (a stranded entry would never be assessed its termination fee); processed + remaining = queued',
                            bounds='%d queue entries; sector sets by cardinality; CUT: Partition::validate_state' % n, max_paths=20000))
    return O
