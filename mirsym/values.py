"""Symbolic value domain of mirsym.

Values are immutable; mutation happens by functional update of the value held by a Cell.
Scalars are python ints/bools when concrete, z3 terms when symbolic.
"""
import re
import z3

INT_TYPES = {
    'u8': (0, 2**8 - 1), 'u16': (0, 2**16 - 1), 'u32': (0, 2**32 - 1), 'u64': (0, 2**64 - 1),
    'u128': (0, 2**128 - 1), 'usize': (0, 2**64 - 1),
    'i8': (-2**7, 2**7 - 1), 'i16': (-2**15, 2**15 - 1), 'i32': (-2**31, 2**31 - 1), 'i64': (-2**63, 2**63 - 1),
    'i128': (-2**127, 2**127 - 1), 'isize': (-2**63, 2**63 - 1),
}
INT_BITS = {'u8': 8, 'u16': 16, 'u32': 32, 'u64': 64, 'u128': 128, 'usize': 64,
            'i8': 8, 'i16': 16, 'i32': 32, 'i64': 64, 'i128': 128, 'isize': 64}


class Inconclusive(Exception):
    """the engine cannot decide (unmodelled callee, unsupported construct, cap hit)"""


class PathEnd(Exception):
    def __init__(self, kind, info=None):
        Exception.__init__(self, kind, info)
        self.kind = kind  # 'panic' | 'abort' | 'infeasible'
        self.info = info


def is_sym(x):
    return isinstance(x, z3.ExprRef)


class Cell:
    __slots__ = ('value', 'name')

    def __init__(self, value=None, name=None):
        self.value = value
        self.name = name

    def __repr__(self):
        return 'Cell(%s)' % (self.name,)


class Unit:
    def __repr__(self):
        return '()'


UNIT = Unit()


class Uninit:
    def __repr__(self):
        return '<uninit>'


UNINIT = Uninit()


class IntV:
    """machine integer of type ty; v is python int or z3 Int"""
    __slots__ = ('v', 'ty')

    def __init__(self, v, ty):
        if isinstance(v, bool):
            v = int(v)
        self.v = v
        self.ty = ty

    def __repr__(self):
        return '%s:%s' % (self.v, self.ty)


class BigV:
    """num_bigint::BigInt / BigUint as a mathematical integer"""
    __slots__ = ('v', 'unsigned')

    def __init__(self, v, unsigned=False):
        self.v = v
        self.unsigned = unsigned

    def __repr__(self):
        return 'Big(%s)' % (self.v,)


class StructV:
    """struct / tuple / tuple-struct.  fields: dict idx -> value; missing fields are materialised
    lazily from `lazy` (a symbolic base name) when present."""
    __slots__ = ('ty', 'fields', 'lazy')

    def __init__(self, ty, fields=None, lazy=None):
        self.ty = ty
        self.fields = dict(fields or {})
        self.lazy = lazy

    def __repr__(self):
        return 'Struct<%s>%r%s' % (short_ty(self.ty), self.fields, ('~' + self.lazy) if self.lazy else '')


class EnumV:
    """enum value. tag: python int or z3 Int (variant index). vname: variant name if known.
    fields: dict (vname, idx) -> value."""
    __slots__ = ('ty', 'tag', 'vname', 'fields', 'lazy')

    def __init__(self, ty, tag, vname=None, fields=None, lazy=None):
        self.ty = ty
        self.tag = tag
        self.vname = vname
        self.fields = dict(fields or {})
        self.lazy = lazy

    def __repr__(self):
        return 'Enum<%s>::%s#%s%r' % (short_ty(self.ty), self.vname, self.tag, self.fields)


class LazyV:
    """not yet inspected symbolic input of type ty, identified by its base name"""
    __slots__ = ('name', 'ty')

    def __init__(self, name, ty):
        self.name = name
        self.ty = ty

    def __repr__(self):
        return 'Lazy(%s: %s)' % (self.name, short_ty(self.ty))


class RefV:
    """reference / raw pointer / Box target: (cell, path)"""
    __slots__ = ('cell', 'path', 'mut')

    def __init__(self, cell, path=(), mut=False):
        self.cell = cell
        self.path = tuple(path)
        self.mut = mut

    def __repr__(self):
        return '&%s%s' % (self.cell, list(self.path) if self.path else '')


class VecV:
    """Vec / slice / array with concrete length"""
    __slots__ = ('items', 'ty')

    def __init__(self, items, ty=None):
        self.items = tuple(items)
        self.ty = ty

    def __repr__(self):
        return 'Vec%r' % (list(self.items),)


class ClosureV:
    __slots__ = ('loc', 'caps')

    def __init__(self, loc, caps):
        self.loc = loc
        self.caps = dict(caps)  # idx -> value

    def __repr__(self):
        return 'Closure@%s' % self.loc


class FnItemV:
    __slots__ = ('path',)

    def __init__(self, path):
        self.path = path

    def __repr__(self):
        return 'fn:%s' % self.path


class OpaqueV:
    """a value whose content is irrelevant (String, fmt::Arguments, ...) or only compared by identity"""
    __slots__ = ('kind', 'payload')

    def __init__(self, kind, payload=None):
        self.kind = kind
        self.payload = payload

    def __repr__(self):
        return 'Opaque(%s%s)' % (self.kind, '' if self.payload is None else ':%r' % (self.payload,))


class StrV:
    __slots__ = ('s',)

    def __init__(self, s):
        self.s = s

    def __repr__(self):
        return 'Str(%r)' % self.s


class ObjV:
    """python-level model object with identity (Runtime, maps, iterators); state lives in .obj"""
    __slots__ = ('obj',)

    def __init__(self, obj):
        self.obj = obj

    def __repr__(self):
        return 'Obj(%r)' % (self.obj,)


def short_ty(t):
    if t is None:
        return '?'
    t = re.sub(r'[a-z_0-9]+::', '', t)
    return t if len(t) < 60 else t[:57] + '...'


# ---------------------------------------------------------------------------------------
# type string helpers

def strip_refs(t):
    t = t.strip()
    while True:
        if t.startswith('&'):
            t = t[1:].lstrip()
            if t.startswith("'"):
                t = t.split(' ', 1)[1] if ' ' in t else t
            if t.startswith('mut '):
                t = t[4:]
            continue
        if t.startswith('*const '):
            t = t[7:]
            continue
        if t.startswith('*mut '):
            t = t[5:]
            continue
        return t.strip()


def type_head(t):
    """last path segment of the outermost type constructor, refs stripped: 'std::option::Option<T>' -> 'Option'"""
    t = strip_refs(t)
    if t.startswith('impl ') or t.startswith('dyn '):
        return t.split(' ', 1)[1].split('<')[0].split('::')[-1].split(' ')[0]
    if t.startswith('('):
        return 'tuple'
    if t.startswith('['):
        return 'slice'
    if t.startswith('{closure@'):
        return 'closure'
    if t.startswith('<'):
        return t
    depth = 0
    out = []
    for i, c in enumerate(t):
        if c == '<':
            break
        out.append(c)
    head = ''.join(out)
    return head.split('::')[-1].strip()


def type_args(t):
    """top-level generic args of a type string: 'Result<A, B>' -> ['A','B']"""
    from .parser import match_bracket, split_top
    t = strip_refs(t)
    i = t.find('<')
    if i < 0 or t.startswith('<'):
        return []
    j = match_bracket(t, i)
    return split_top(t[i + 1:j])


def is_ref_type(t):
    t = t.strip()
    return t.startswith('&') or t.startswith('*const ') or t.startswith('*mut ')
