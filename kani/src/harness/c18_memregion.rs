//! C18 – `get_memory_region` (interpreter/instructions/memory.rs), the single place where the
//! EVM memory instructions turn a 256-bit (offset, size) pair into a bounds-checked region and
//! expand memory.  VERBATIM current /repo text (build.rs -> memory_shim.rs) on the real `Memory`.
//!
//! Expected behaviour (Yellow Paper memory expansion M(s, f, l): no expansion for l == 0, else
//! max(s, ceil((f + l) / 32)); FEVM caps addressable memory at u32):
//!   * size == 0                                   -> Ok(None), memory untouched, ANY offset
//!   * size >= 2^32, or offset >= 2^32,
//!     or offset + size > u32::MAX                 -> Err(EVM_CONTRACT_ILLEGAL_MEMORY_ACCESS = 38),
//!                                                    memory untouched
//!   * otherwise                                   -> Ok(Some{offset, size}), memory length
//!                                                    max(old, ceil32(offset + size)), old bytes
//!                                                    kept, new bytes zero
//! The exit code is compared with the LITERAL 38 (and with the generated constant).
use super::util::any_u256;
use crate::interpreter::instructions::memory::get_memory_region;
use crate::interpreter::memory::Memory;
use crate::EVM_CONTRACT_ILLEGAL_MEMORY_ACCESS;
use fil_actors_evm_shared::uints::U256;

fn fits_u32(x: &U256) -> bool {
    x.0[1] == 0 && x.0[2] == 0 && x.0[3] == 0 && x.0[0] <= 0xFFFF_FFFF
}

fn grown(pre: usize, init: &[u8; 96]) -> Memory {
    let mut m = Memory::default();
    m.grow(pre);
    assert!(m.len() == pre);
    let mut i = 0;
    while i < pre {
        m[i] = init[i];
        i += 1;
    }
    m
}

/// ALL 2^512 (offset, size) pairs that must NOT yield a region: size == 0 -> Ok(None) whatever
/// the offset; size >= 2^32 / offset >= 2^32 / offset + size > u32::MAX -> exit code 38.  In both
/// situations memory must not be expanded.  The memory is the empty `Memory::default()` here:
/// a pre-grown memory needs the `Vec::resize` loop unwound >= 32 times, and with that unwind
/// the (unreachable, but encoded) `mem.grow(<symbolic>)` of the accepted path does not finish
/// (> 7 min, see NOTES.md); a non-empty memory is checked for concrete representatives of every
/// class in c18_get_memory_region_untouched.
/// unwind 6: the only loops reached are the 4-limb loops of `U256 -> u32` (`fits_word`); the
/// unwinding assertions of the `resize` loop hold because no rejected pair reaches it.
#[kani::proof]
#[kani::unwind(6)]
fn c18_get_memory_region() {
    let mut mem = Memory::default();
    let offset = any_u256();
    let size = any_u256();

    let size_zero = size.0[0] == 0 && size.0[1] == 0 && size.0[2] == 0 && size.0[3] == 0;
    let sum_ok = fits_u32(&offset) && fits_u32(&size) && offset.0[0] + size.0[0] <= 0xFFFF_FFFF;
    let reject = !size_zero && !sum_ok;
    // accepted regions (they grow memory) are enumerated in c18_get_memory_region_grow
    if size_zero || reject {
        let r = get_memory_region(&mut mem, offset, size);
        if size_zero {
            assert!(matches!(r, Ok(None)));
        } else {
            match &r {
                Err(e) => {
                    assert!(e.exit_code().value() == 38);
                    assert!(e.exit_code() == EVM_CONTRACT_ILLEGAL_MEMORY_ACCESS);
                }
                _ => assert!(false),
            }
        }
        assert!(mem.len() == 0);
        kani::cover!(size_zero && offset.0[3] != 0);
        kani::cover!(size_zero && fits_u32(&offset) && offset.0[0] == 5);
        kani::cover!(reject && !fits_u32(&size) && fits_u32(&offset));
        kani::cover!(reject && size.0[0] == 1 << 32 && size.0[1] == 0 && size.0[2] == 0 && size.0[3] == 0);
        kani::cover!(reject && fits_u32(&size) && !fits_u32(&offset));
        kani::cover!(reject && fits_u32(&size) && offset.0[0] == 1 << 32 && offset.0[1] == 0 && offset.0[2] == 0 && offset.0[3] == 0);
        kani::cover!(reject && fits_u32(&size) && fits_u32(&offset) && offset.0[0] + size.0[0] == 1 << 32);
        kani::cover!(reject && size.0[0] == 0 && size.0[3] == 1); // low limb zero, not an empty region
        kani::cover!(reject && size.0[0] == 1 && offset.0[0] == 0 && offset.0[1] == 1); // low limb of the offset zero
    }
}

/// size == 0 with a concrete offset on a 32-byte memory with symbolic contents: Ok(None),
/// length and every byte unchanged.
fn empty_region_case(offset: U256) {
    let init: [u8; 96] = kani::any();
    let mut mem = grown(32, &init);
    let r = get_memory_region(&mut mem, offset, U256::zero());
    assert!(matches!(r, Ok(None)));
    assert!(mem.len() == 32);
    let q: usize = kani::any();
    if q < 32 {
        assert!(mem[q] == init[q]);
        kani::cover!(init[q] == 0xAA);
    }
}

/// A concrete rejected (offset, size) on a 32-byte memory: exit code 38 and no expansion.
/// The CONTENTS are not read back here: CBMC does not constant-fold the `Err` discriminant of
/// the concrete `U256 -> u32` conversion, so the (infeasible) `mem.grow(<garbage>)` branch is
/// merged into the memory object and any later read of it does not finish (> 300 CPU-s,
/// 4-8 GB, also with all-zero contents and concrete read indices; see NOTES.md).  Without a
/// read-back the case takes ~10 s.
fn rejected_case(offset: U256, size: U256) {
    let mut mem = Memory::default();
    mem.grow(32);
    let r = get_memory_region(&mut mem, offset, size);
    match &r {
        Err(e) => assert!(e.exit_code().value() == 38),
        _ => assert!(false),
    }
    assert!(mem.len() == 32);
}

/// Accepted pairs are enumerated (offset + size <= 96): the largest accepted pair
/// (offset + size == u32::MAX) cannot be executed, it grows memory to 4 GiB.
fn grow_case(pre: usize, offset: usize, size: usize) {
    let init: [u8; 96] = kani::any();
    let mut mem = grown(pre, &init);
    let r = get_memory_region(&mut mem, U256::from(offset as u64), U256::from(size as u64));
    match &r {
        Ok(Some(reg)) => {
            assert!(reg.offset == offset);
            assert!(reg.size.get() == size);
        }
        _ => assert!(false),
    }
    let c = (offset + size + 31) / 32 * 32;
    let want_len = if c > pre { c } else { pre };
    assert!(mem.len() == want_len);
    assert!(mem.len() % 32 == 0 && mem.len() >= offset + size);
    let q: usize = kani::any();
    if q < want_len {
        assert!(mem[q] == if q < pre { init[q] } else { 0 });
        kani::cover!(q < pre && init[q] == 0xAA && want_len > pre);
        kani::cover!(q >= pre && q == want_len - 1);
    }
}

/// Accepted regions on empty / dirty memory: growth to the next word boundary, the first byte
/// of the next word, the last byte below 96, and a region that ends exactly at the old size.
#[kani::proof]
#[kani::unwind(70)]
fn c18_get_memory_region_grow() {
    // (pre, offset, size), offset + size <= 96
    grow_case(0, 31, 2);
    grow_case(32, 32, 1);
    grow_case(32, 95, 1);
    grow_case(32, 0, 32); // exactly the old size: no growth
    grow_case(0, 0, 1);
}

/// Thorough tier: further accepted regions.
#[kani::proof]
#[kani::unwind(100)]
fn c18_get_memory_region_grow_more() {
    grow_case(0, 31, 1);
    grow_case(0, 64, 32);
    grow_case(64, 1, 95);
    grow_case(32, 33, 31);
}

/// No region on a NON-EMPTY memory, one concrete representative per class (the classes are
/// covered exhaustively on the empty memory by c18_get_memory_region): empty regions leave
/// 32 symbolic bytes untouched, rejected ones do not expand a 32-byte memory.
#[kani::proof]
#[kani::unwind(40)]
fn c18_get_memory_region_untouched() {
    let m32 = 0xFFFF_FFFFu64;
    empty_region_case(U256([u64::MAX; 4])); // empty region at offset 2^256-1
    rejected_case(U256::zero(), U256([m32 + 1, 0, 0, 0])); // size 2^32
    rejected_case(U256([0, 1, 0, 0]), U256::from(1u64)); // offset 2^64 (low limb 0)
    rejected_case(U256([m32, 0, 0, 0]), U256::from(1u64)); // offset + size = 2^32
    kani::cover!(m32 == 0xFFFF_FFFF);
}
