"""C18 — stack/memory/jumpdest kernels decided by engine K; the read-only guards of the side-effecting instructions by engine M (evm_guards.py).
K: decided by engine K (Kani/CBMC harnesses over the real EVM interpreter sources, /verif/kani); see DESIGN.md."""
PROPERTY = 'C18'
CRATES = ['fil_actors_runtime', 'fil_actors_evm_shared', 'fil_actor_evm']
ENGINES = ['M', 'K']
CHECKER_CMD_K = ('cargo kani (Kani 0.68.0, CBMC 6.11.0, cadical) on the harness crate /verif/kani, which #[path]-includes the real sources of /repo; '
               'unwinding assertions on; vacuity guarded by kani::cover! witnesses')
TRUSTED_K = ['rustc + Kani codegen', 'CBMC', 'the byte-wise / limb-wise reference oracles inside the harnesses (written from the Yellow Paper, EIP-145, EIP-3855)']


def build(tier):
    from . import evm_guards
    return evm_guards.build_guards(tier) + [o for o in evm_guards.build_calls(tier) if 'Delegate' not in o.name] + evm_guards.build_jumps(tier)
