//! Adapter: payment channel actor (`fil_actor_paych`).
//!
//! scenario = {"actor":"paych", "method":"UpdateChannelState"|"Settle"|"Collect",
//!   "from":id, "to":id, "to_send":amount, "settling_at":i64, "min_settle_height":i64,
//!   "lanes":[{"id":u64,"redeemed":amount,"nonce":u64}],
//!   "voucher":{"channel_is_id":bool, "channel_key":id, ["channel_resolves":bool=true],
//!              "time_lock_min":i64, "time_lock_max":i64, "lane":u64, "nonce":u64, "amount":amount,
//!              "min_settle_height":i64, "merges":[{"lane":u64,"nonce":u64}],
//!              "has_extra":bool, ["extra_actor":id=9999], ["extra_method":u64=77],
//!              "has_secret":bool, ["secret_ok":bool=true], ["secret_empty":bool], ["has_signature":bool=true]},
//!   ["entry":"dispatch"|"direct"],  + the runtime keys of runtime.rs (caller, receiver, epoch, balance, sends, ...)}
//!
//! Voucher construction: channel_addr = f0<channel_key> when channel_is_id, otherwise an f2 address that
//! the resolve table maps to channel_key (unless channel_resolves=false); signature = BLS [1,2,3];
//! secret = b"sec" (empty when secret_empty) and secret_pre_image = blake2b(secret) when has_secret (blake2b of
//! another secret when secret_ok=false), both empty otherwise; extra = ModVerifyParams{f0<extra_actor>, extra_method, empty} when has_extra.
//! For UpdateChannelState the first scripted send answers the AuthenticateMessage call to the signer.

use anyhow::{anyhow, bail, Context, Result};
use fil_actor_paych::{
    Actor as PaychActor, LaneState, Merge, Method, ModVerifyParams, SignedVoucher, State,
    UpdateChannelStateParams, LANE_STATES_AMT_BITWIDTH,
};
use fil_actors_runtime::runtime::{ActorCode, Primitives};
use fil_actors_runtime::Array;
use fvm_ipld_encoding::ipld_block::IpldBlock;
use fvm_ipld_encoding::RawBytes;
use fvm_shared::address::Address;
use fvm_shared::crypto::signature::Signature;
use serde_json::{json, Value};

use crate::json_util::*;
use crate::runtime::ReplayRuntime;

pub fn replay(sc: &Value) -> Result<Value> {
    let rt = ReplayRuntime::from_scenario(sc)?;
    let method = req_str(sc, "method")?;
    let direct = match opt(sc, "entry").and_then(|v| v.as_str()) {
        None | Some("dispatch") => false,
        Some("direct") => true,
        Some(other) => bail!("malformed scenario: unknown entry '{}'", other),
    };

    // ---- pre-state
    let mut amt = Array::<LaneState, _>::new_with_bit_width(&rt.store, LANE_STATES_AMT_BITWIDTH);
    let mut seen = std::collections::BTreeSet::new();
    for (i, l) in list(sc, "lanes")?.iter().enumerate() {
        let id = req_u64(l, "id").with_context(|| format!("lanes[{}]", i))?;
        if !seen.insert(id) {
            bail!("malformed scenario: lane {} listed twice", id);
        }
        let ls = LaneState { redeemed: req_token(l, "redeemed")?, nonce: req_u64(l, "nonce")? };
        amt.set(id, ls).map_err(|e| anyhow!("malformed scenario: cannot store lane {}: {}", id, e))?;
    }
    let lane_root = amt.flush().map_err(|e| anyhow!("cannot flush lane table: {}", e))?;
    drop(amt);
    let st = State {
        from: Address::new_id(req_u64(sc, "from")?),
        to: Address::new_id(req_u64(sc, "to")?),
        to_send: req_token(sc, "to_send")?,
        settling_at: req_i64(sc, "settling_at")?,
        min_settle_height: req_i64(sc, "min_settle_height")?,
        lane_states: lane_root,
    };
    rt.set_initial_state(&st)?;

    // ---- call
    let out = match method {
        "UpdateChannelState" => {
            let params = voucher_params(&rt, req(sc, "voucher")?)?;
            if direct {
                rt.run_call(|| PaychActor::update_channel_state(&rt, params).map(|_| None))
            } else {
                let blk = IpldBlock::serialize_cbor(&params).map_err(|e| anyhow!("cannot encode params: {}", e))?;
                rt.run_call(|| PaychActor::invoke_method(&rt, Method::UpdateChannelState as u64, blk))
            }
        }
        "Settle" => {
            if direct {
                rt.run_call(|| PaychActor::settle(&rt).map(|_| None))
            } else {
                rt.run_call(|| PaychActor::invoke_method(&rt, Method::Settle as u64, None))
            }
        }
        "Collect" => {
            if direct {
                rt.run_call(|| PaychActor::collect(&rt).map(|_| None))
            } else {
                rt.run_call(|| PaychActor::invoke_method(&rt, Method::Collect as u64, None))
            }
        }
        other => bail!("unknown paych method '{}'", other),
    };

    // ---- observations
    let mut obs = rt.common_observations(&out);
    match rt.read_state::<State>() {
        Ok(Some(st)) => {
            obs.insert("from".into(), addr_json(&st.from));
            obs.insert("to".into(), addr_json(&st.to));
            obs.insert("to_send".into(), token_json(&st.to_send));
            obs.insert("settling_at".into(), json!(st.settling_at));
            obs.insert("min_settle_height".into(), json!(st.min_settle_height));
            match dump_lanes(&rt, &st) {
                Ok(l) => {
                    obs.insert("lanes".into(), Value::Array(l));
                }
                Err(e) => {
                    obs.insert("state_error".into(), json!(format!("{:#}", e)));
                }
            }
        }
        Ok(None) => {
            obs.insert("state_error".into(), json!("no state"));
        }
        Err(e) => {
            obs.insert("state_error".into(), json!(format!("{:#}", e)));
        }
    }
    Ok(Value::Object(obs))
}

fn dump_lanes(rt: &ReplayRuntime, st: &State) -> Result<Vec<Value>> {
    let amt = Array::<LaneState, _>::load(&st.lane_states, &rt.store).map_err(|e| anyhow!("cannot load lanes: {}", e))?;
    let mut lanes = vec![];
    amt.for_each(|id, ls| {
        lanes.push((id, json!({"id": id, "redeemed": token_json(&ls.redeemed), "nonce": ls.nonce})));
        Ok(())
    })
    .map_err(|e| anyhow!("cannot iterate lanes: {}", e))?;
    lanes.sort_by_key(|(id, _)| *id);
    Ok(lanes.into_iter().map(|(_, v)| v).collect())
}

fn voucher_params(rt: &ReplayRuntime, v: &Value) -> Result<UpdateChannelStateParams> {
    let key = req_u64(v, "channel_key")?;
    let channel_addr = if opt_bool(v, "channel_is_id", true)? {
        Address::new_id(key)
    } else {
        let a = Address::new_actor(format!("replay-paych-channel-{}", key).as_bytes());
        if opt_bool(v, "channel_resolves", true)? {
            rt.add_id_address(a, key);
        }
        a
    };
    let mut merges = vec![];
    for (i, m) in list(v, "merges")?.iter().enumerate() {
        merges.push(Merge {
            lane: req_u64(m, "lane").with_context(|| format!("merges[{}]", i))?,
            nonce: req_u64(m, "nonce").with_context(|| format!("merges[{}]", i))?,
        });
    }
    let has_secret = opt_bool(v, "has_secret", false)?;
    let (secret, pre_image) = if has_secret {
        let submitted = if opt_bool(v, "secret_empty", false)? { vec![] } else { b"sec".to_vec() };
        // the voucher's hash lock matches the submitted secret iff secret_ok
        let pre = if opt_bool(v, "secret_ok", true)? {
            rt.hash_blake2b(&submitted).to_vec()
        } else {
            rt.hash_blake2b(b"some other secret").to_vec()
        };
        (submitted, pre)
    } else {
        // no hash lock on the voucher; the caller may still pass a (meaningless) secret
        (if opt_bool(v, "secret_empty", true)? { vec![] } else { b"junk".to_vec() }, vec![])
    };
    let extra = if opt_bool(v, "has_extra", false)? {
        Some(ModVerifyParams {
            actor: Address::new_id(opt_u64(v, "extra_actor", 9999)?),
            method: opt_u64(v, "extra_method", 77)?,
            data: RawBytes::default(),
        })
    } else {
        None
    };
    let signature =
        if opt_bool(v, "has_signature", true)? { Some(Signature::new_bls(vec![1, 2, 3])) } else { None };
    let sv = SignedVoucher {
        channel_addr,
        time_lock_min: opt_i64(v, "time_lock_min", 0)?,
        time_lock_max: opt_i64(v, "time_lock_max", 0)?,
        secret_pre_image: pre_image,
        extra,
        lane: req_u64(v, "lane")?,
        nonce: req_u64(v, "nonce")?,
        amount: req_token(v, "amount")?,
        min_settle_height: opt_i64(v, "min_settle_height", 0)?,
        merges,
        signature,
    };
    Ok(UpdateChannelStateParams { sv, secret })
}
