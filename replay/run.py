#!/usr/bin/env python3
"""Native replay of a counterexample scenario against the REAL actor code.

usage:  python3 /verif/replay/run.py [-v] [--observe] <counterexample.json>

The file is what /verif/check writes ({"property","obligation","label","exit","model","scenario"}) or a
bare scenario object.  scenario["predicted"] holds the observable outcome the symbolic engine predicts;
only the keys present in it are compared with the native observations (integers are compared as big
integers whether they are JSON numbers or decimal strings; nested objects such as the miner adapter's
"state"/"info" are compared recursively, again only on the keys the prediction mentions; lists of objects
that carry an "id" are compared sorted by id, all other lists positionally and with equal length;
"Err(sym)"/"Err(?)"/"Err" match any error exit, "panic..." matches any panic).

exit 1 = REPRODUCED      the native run yields exactly the predicted observable outcome
exit 0 = NOT reproduced  the native outcome differs (a predicted/observed diff is printed)
exit 2 = could not run   build error, unknown actor/method, malformed scenario (the reason is printed)

Environment: VERIF_REPO (default /repo) = checkout whose crates are linked.  The crate is generated per
checkout: /verif/.cache/replay_build/<hash of VERIF_REPO>/{Cargo.toml,Cargo.lock,src -> /verif/replay/src},
target dir /verif/.cache/replay_target/<hash>.  cargo rebuilds by itself when sources of the checkout or of
/verif/replay/src changed.  Everything runs offline.
  -v          also print the full observations
  --observe   only run and print the observations (exit 0), no comparison (handy to write predictions)
"""
import fcntl
import hashlib
import json
import os
import re
import shutil
import subprocess
import sys
import time

HERE = os.path.dirname(os.path.abspath(__file__))
VERIF = os.path.dirname(HERE)
CACHE = os.path.join(VERIF, '.cache')
RUN_TIMEOUT_S = 120
BUILD_TIMEOUT_S = 1800
MAX_DIFFS_SHOWN = 12        # a mismatch report stays below ~40 lines: 2 lines per difference + ~8 of frame
MAX_VALUE_CHARS = 300


def clip(s):
    return s if len(s) <= MAX_VALUE_CHARS else s[:MAX_VALUE_CHARS] + '... (%d chars)' % len(s)


def out(s=''):
    print(s, flush=True)


def die(msg, code=2):
    out('REPLAY: could not run -- %s' % msg)
    sys.exit(code)


# ------------------------------------------------------------------------------------------ build

def toolchain_of(repo):
    p = os.path.join(repo, 'rust-toolchain.toml')
    try:
        with open(p) as f:
            m = re.search(r'^\s*channel\s*=\s*"([^"]+)"', f.read(), re.M)
        if m:
            return m.group(1)
    except OSError:
        pass
    return '1.93.1'


def write_if_changed(path, text):
    try:
        with open(path) as f:
            if f.read() == text:
                return False
    except OSError:
        pass
    tmp = path + '.tmp%d' % os.getpid()
    with open(tmp, 'w') as f:
        f.write(text)
    os.replace(tmp, path)
    return True


def seed_target(tdir, h):
    """A new checkout starts from a copy of an already built target dir (preferably /repo's): the ~150
    registry crates are identical and stay fresh, only the path crates of the checkout are compiled
    (about 1 min instead of 3).  Purely an optimisation: any failure just means a full build."""
    troot = os.path.join(CACHE, 'replay_target')
    first = hashlib.sha1(os.path.realpath('/repo').encode()).hexdigest()[:12]
    try:
        cands = [d for d in sorted(os.listdir(troot), key=lambda d: (d != first, d))
                 if d != h and '.' not in d and os.path.isdir(os.path.join(troot, d, 'debug', 'deps'))]
    except OSError:
        return
    for d in cands:
        lk_path = os.path.join(CACHE, 'replay_build', d, '.lock')
        if not os.path.exists(lk_path):
            continue
        lk = open(lk_path, 'w')
        try:
            try:
                fcntl.flock(lk, fcntl.LOCK_EX | fcntl.LOCK_NB)     # not while somebody builds into it
            except OSError:
                continue
            tmp = '%s.seed%d' % (tdir, os.getpid())
            shutil.rmtree(tmp, ignore_errors=True)
            r = subprocess.run(['cp', '-a', '--reflink=auto', os.path.join(troot, d), tmp], capture_output=True)
            if r.returncode == 0 and not os.path.exists(tdir):
                os.rename(tmp, tdir)
                return
            shutil.rmtree(tmp, ignore_errors=True)
        finally:
            lk.close()


def build(repo):
    """returns (binary path, seconds spent in cargo); exits 2 on failure"""
    repo = os.path.realpath(repo)
    for need in ('Cargo.lock', 'runtime/Cargo.toml', 'actors/paych/Cargo.toml', 'actors/multisig/Cargo.toml',
                 'actors/market/Cargo.toml', 'actors/miner/Cargo.toml'):
        if not os.path.exists(os.path.join(repo, need)):
            die('VERIF_REPO=%s does not look like a builtin-actors checkout (%s missing)' % (repo, need))
    h = hashlib.sha1(repo.encode()).hexdigest()[:12]
    bdir = os.path.join(CACHE, 'replay_build', h)
    tdir = os.path.join(CACHE, 'replay_target', h)
    os.makedirs(bdir, exist_ok=True)
    lock = open(os.path.join(bdir, '.lock'), 'w')
    fcntl.flock(lock, fcntl.LOCK_EX)
    try:
        if not os.path.isdir(os.path.join(tdir, 'debug')):
            seed_target(tdir, h)
        os.makedirs(tdir, exist_ok=True)
        with open(os.path.join(HERE, 'Cargo.toml.in')) as f:
            tmpl = f.read()
        write_if_changed(os.path.join(bdir, 'Cargo.toml'), tmpl.replace('@REPO@', repo))
        write_if_changed(os.path.join(bdir, 'REPO'), repo + '\n')
        # Cargo.lock: copied from the checkout; re-copied only when the checkout's lock file changes
        # (cargo rewrites our copy: adds verif_replay, drops the packages we do not use)
        with open(os.path.join(repo, 'Cargo.lock'), 'rb') as f:
            lock_bytes = f.read()
        lock_sha = hashlib.sha1(lock_bytes).hexdigest()
        sha_file = os.path.join(bdir, 'Cargo.lock.src-sha1')
        try:
            with open(sha_file) as f:
                have = f.read().strip()
        except OSError:
            have = ''
        if have != lock_sha or not os.path.exists(os.path.join(bdir, 'Cargo.lock')):
            with open(os.path.join(bdir, 'Cargo.lock'), 'wb') as f:
                f.write(lock_bytes)
            write_if_changed(sha_file, lock_sha + '\n')
        src = os.path.join(bdir, 'src')
        want = os.path.join(HERE, 'src')
        if os.path.islink(src):
            if os.readlink(src) != want:
                os.unlink(src)
                os.symlink(want, src)
        elif os.path.exists(src):
            shutil.rmtree(src)
            os.symlink(want, src)
        else:
            os.symlink(want, src)

        env = dict(os.environ)
        env['CARGO_NET_OFFLINE'] = 'true'
        env['CARGO_TARGET_DIR'] = tdir
        env['RUSTUP_TOOLCHAIN'] = toolchain_of(repo)
        env.pop('RUSTFLAGS', None)
        env.pop('CARGO_ENCODED_RUSTFLAGS', None)
        env.pop('RUSTC_WRAPPER', None)
        t0 = time.time()
        try:
            p = subprocess.run(['cargo', 'build', '--offline', '--bin', 'verif_replay'], cwd=bdir, env=env,
                               capture_output=True, text=True, timeout=BUILD_TIMEOUT_S)
        except subprocess.TimeoutExpired:
            die('cargo build timed out after %ds (build dir %s)' % (BUILD_TIMEOUT_S, bdir))
        except OSError as e:
            die('cannot start cargo: %s' % e)
        secs = time.time() - t0
        if p.returncode != 0:
            tail = '\n'.join((p.stdout + p.stderr).splitlines()[-30:])
            die('cargo build failed for VERIF_REPO=%s (toolchain %s, build dir %s, %.0fs):\n%s'
                % (repo, env['RUSTUP_TOOLCHAIN'], bdir, secs, tail))
        binp = os.path.join(tdir, 'debug', 'verif_replay')
        if not os.path.exists(binp):
            die('cargo build succeeded but %s is missing' % binp)
        return binp, secs
    finally:
        fcntl.flock(lock, fcntl.LOCK_UN)
        lock.close()


# ---------------------------------------------------------------------------------------- compare

INT_RE = re.compile(r'^[+-]?\d+$')


def norm(v):
    """canonical form for comparison: every integer (number or decimal string) -> decimal string"""
    if isinstance(v, bool) or v is None:
        return v
    if isinstance(v, int):
        return str(v)
    if isinstance(v, float):
        return str(int(v)) if v.is_integer() else repr(v)
    if isinstance(v, str):
        s = v.strip()
        return str(int(s)) if INT_RE.match(s) else v
    if isinstance(v, list):
        return [norm(x) for x in v]
    if isinstance(v, dict):
        return {k: (x if k.endswith('_hex') else norm(x)) for k, x in v.items()}
    return v


def show(v):
    """display form of a normalised value: integer strings print as plain numbers"""
    if isinstance(v, str) and INT_RE.match(v):
        return int(v)
    if isinstance(v, list):
        return [show(x) for x in v]
    if isinstance(v, dict):
        return {k: show(x) for k, x in v.items()}
    return v


def by_id(lst):
    if lst and all(isinstance(x, dict) and 'id' in x for x in lst):
        try:
            return sorted(lst, key=lambda x: int(x['id']))
        except (TypeError, ValueError):
            return lst
    return lst


def result_matches(pred, obs):
    if not isinstance(pred, str) or not isinstance(obs, str):
        return pred == obs
    p, o = pred.strip(), obs.strip()
    if p == o:
        return True
    if p in ('Err', 'Err(sym)', 'Err(?)', 'Err(*)'):
        return o.startswith('Err(')
    if p.startswith('panic'):
        return o.startswith('panic')
    return False


def compare(pred, obs, path, diffs):
    """only what `pred` mentions is compared; appends (path, predicted, observed) to diffs"""
    if isinstance(pred, dict):
        if not isinstance(obs, dict):
            diffs.append((path, pred, obs))
            return
        for k, pv in pred.items():
            sub = '%s.%s' % (path, k) if path else k
            if k not in obs:
                diffs.append((sub, pv, '<not observed>'))
            elif k == 'result' and not path:
                if not result_matches(pv, obs[k]):
                    diffs.append((sub, pv, obs[k]))
            else:
                compare(pv, obs[k], sub, diffs)
        return
    if isinstance(pred, list):
        if not isinstance(obs, list):
            diffs.append((path, pred, obs))
            return
        if len(pred) != len(obs):
            diffs.append((path + '.length', len(pred), len(obs)))
            diffs.append((path, pred, [project(p0, o0) for p0, o0 in zip_longest_proj(pred, obs)]))
            return
        pl, ol = by_id(pred), by_id(obs)
        for i, (pv, ov) in enumerate(zip(pl, ol)):
            compare(pv, ov, '%s[%d]' % (path, i), diffs)
        return
    if pred != obs:
        diffs.append((path, pred, obs))


def zip_longest_proj(pred, obs):
    proto = pred[0] if pred else None
    for i in range(len(obs)):
        yield (pred[i] if i < len(pred) else proto), obs[i]


def project(p, o):
    """observed element restricted to the keys the prediction talks about (for readable diffs)"""
    if isinstance(p, dict) and isinstance(o, dict):
        return {k: o.get(k) for k in p} if p else o
    return o


def predicted_of(sc):
    pred = sc.get('predicted')
    if isinstance(pred, dict) and pred:
        return pred, None
    # legacy shape (early obligations/C16.py): top-level "result" / "final_to_send"
    legacy = {}
    if isinstance(sc.get('result'), str):
        legacy['result'] = sc['result']
    if sc.get('final_to_send') is not None:
        legacy['to_send'] = sc['final_to_send']
    if legacy:
        return legacy, 'no "predicted" object; using legacy top-level keys %s' % sorted(legacy)
    return None, None


# ------------------------------------------------------------------------------------------- main

def main():
    args = [a for a in sys.argv[1:] if not a.startswith('-')]
    flags = [a for a in sys.argv[1:] if a.startswith('-')]
    verbose = '-v' in flags
    observe_only = '--observe' in flags
    if len(args) != 1 or any(f not in ('-v', '--observe') for f in flags):
        out(__doc__)
        sys.exit(2)
    path = args[0]
    try:
        with open(path) as f:
            doc = json.load(f)
    except (OSError, ValueError) as e:
        die('cannot read %s: %s' % (path, e))
    if not isinstance(doc, dict):
        die('%s: top level is not an object' % path)
    sc = doc.get('scenario') if 'scenario' in doc else doc
    if not isinstance(sc, dict) or not sc:
        die('%s: no scenario object (the obligation provided no replay scenario)' % path)
    if not isinstance(sc.get('actor'), str) or not isinstance(sc.get('method'), str):
        die('%s: malformed scenario, "actor" and "method" strings are required' % path)
    pred, note = predicted_of(sc)
    if pred is None and not observe_only:
        die('%s: malformed scenario, no "predicted" object to compare the native run with' % path)

    repo = os.environ.get('VERIF_REPO') or '/repo'
    binp, build_s = build(repo)

    t0 = time.time()
    try:
        p = subprocess.run([binp, path], capture_output=True, text=True, timeout=RUN_TIMEOUT_S)
    except subprocess.TimeoutExpired:
        die('native run timed out after %ds' % RUN_TIMEOUT_S)
    run_s = time.time() - t0
    head = 'REPLAY %s %s.%s  [%s :: %s]  repo=%s  (build %.1fs, run %.2fs)' % (
        doc.get('property', '-'), sc['actor'], sc['method'], doc.get('obligation', '-'), doc.get('label', '-'),
        os.path.realpath(repo), build_s, run_s)
    if p.returncode != 0:
        out(head)
        die('native replay binary exited %d: %s' % (p.returncode, (p.stderr or p.stdout).strip()[-1500:]))
    try:
        obs = json.loads(p.stdout)
    except ValueError as e:
        out(head)
        die('native replay printed no valid JSON (%s): %s' % (e, p.stdout[-500:]))

    out(head)
    if note:
        out('  note: ' + note)
    if observe_only:
        out(json.dumps(obs, indent=1))
        sys.exit(0)

    diffs = []
    compare(norm(pred), norm(obs), '', diffs)
    line = '  observed: result=%s%s' % (obs.get('result'), (' (%s)' % obs['error'][:160]) if obs.get('error') else '')
    if 'sends' in obs:          # message-level adapters; function-level ones (market_state) have no runtime
        line += ' sends=%d commits=%s deleted=%s%s' % (len(obs['sends']), obs.get('commits'), obs.get('deleted'),
                                                       ' SCRIPT-EXHAUSTED' if obs.get('script_exhausted') else '')
    elif isinstance(obs.get('ret'), dict):
        line += ' ret=%s' % clip(json.dumps(show(norm(obs['ret']))))
    out(line)
    if obs.get('script_exhausted'):
        out('  warning: the actor sent more messages than the scenario scripts; extra sends failed with exit code 99')
    if obs.get('state_error'):
        out('  warning: post-state could not be read: %s' % obs['state_error'])
    if verbose:
        out('  observations: ' + json.dumps(obs, indent=1).replace('\n', '\n  '))
    if not diffs:
        out('  REPRODUCED: native execution matches the prediction on %s' % ', '.join(sorted(pred)))
        sys.exit(1)
    out('  NOT REPRODUCED: %d difference(s) between prediction and native execution' % len(diffs))
    shown = diffs[:MAX_DIFFS_SHOWN]
    for (where, pv, ov) in shown:
        out('    %-28s predicted %s' % (where, clip(json.dumps(show(pv)))))
        out('    %-28s observed  %s' % ('', clip(json.dumps(show(ov)))))
    if len(diffs) > len(shown):
        out('    ... %d more difference(s) not shown (run with --observe to see everything)' % (len(diffs) - len(shown)))
    agree = [k for k in sorted(pred) if not any(w == k or w.startswith(k + '.') or w.startswith(k + '[') for (w, _, _) in diffs)]
    if agree:
        out('    (agreeing: %s)' % ', '.join(agree))
    sys.exit(0)


if __name__ == '__main__':
    main()
