//! C17 – LT GT SLT SGT EQ ISZERO AND OR XOR NOT (instructions/boolean.rs).
//!
//! Operand order: `def_primop!{ LT(a, b) => boolean::lt }` binds a = µs[0] (top of stack,
//! first popped), b = µs[1]; Yellow Paper: LT pushes 1 iff µs[0] < µs[1].
//!
//! Oracles: unsigned order = borrow-out of the 256-bit subtraction a - b computed limb by
//! limb in u128 (no `Ord` on limbs/arrays); signed order from two's complement definition.
use super::util::*;
use crate::interpreter::instructions::boolean;
use fil_actors_evm_shared::uints::U256;

/// true iff a < b as unsigned 256-bit integers (borrow out of a - b).
fn ref_ult(a: &[u64; 4], b: &[u64; 4]) -> bool {
    let mut borrow: u128 = 0;
    let mut k = 0;
    while k < 4 {
        let lhs = a[k] as u128;
        let rhs = b[k] as u128 + borrow;
        borrow = if lhs < rhs { 1 } else { 0 };
        k += 1;
    }
    borrow == 1
}

/// Signed (two's complement) a < b: if signs differ the negative one is smaller, else unsigned.
fn ref_slt(a: &[u64; 4], b: &[u64; 4]) -> bool {
    let sa = a[3] >> 63 == 1;
    let sb = b[3] >> 63 == 1;
    if sa != sb { sa } else { ref_ult(a, b) }
}

fn is_bool(r: &U256, v: bool) -> bool {
    same(r, [v as u64, 0, 0, 0])
}

#[kani::proof]
#[kani::unwind(6)]
fn c17_lt() {
    let (a, b) = (any_u256(), any_u256());
    let r = boolean::lt(a, b);
    assert!(is_bool(&r, ref_ult(&a.0, &b.0)));
    kani::cover!(r.0[0] == 1 && a.0[3] == b.0[3] && a.0[2] == b.0[2] && a.0[1] == b.0[1]);
}

#[kani::proof]
#[kani::unwind(6)]
fn c17_gt() {
    let (a, b) = (any_u256(), any_u256());
    let r = boolean::gt(a, b);
    assert!(is_bool(&r, ref_ult(&b.0, &a.0)));
    kani::cover!(r.0[0] == 1 && a.0[3] == b.0[3] && a.0[2] == b.0[2] && a.0[1] == b.0[1]);
}

#[kani::proof]
#[kani::unwind(6)]
fn c17_slt() {
    let (a, b) = (any_u256(), any_u256());
    let r = boolean::slt(a, b);
    assert!(is_bool(&r, ref_slt(&a.0, &b.0)));
    kani::cover!(r.0[0] == 1 && a.0[3] >> 63 == 1 && b.0[3] >> 63 == 1);
    kani::cover!(r.0[0] == 1 && a.0[3] >> 63 == 1 && b.0[3] >> 63 == 0);
}

#[kani::proof]
#[kani::unwind(6)]
fn c17_sgt() {
    let (a, b) = (any_u256(), any_u256());
    let r = boolean::sgt(a, b);
    assert!(is_bool(&r, ref_slt(&b.0, &a.0)));
    kani::cover!(r.0[0] == 1 && a.0[3] >> 63 == 1 && b.0[3] >> 63 == 1);
    kani::cover!(r.0[0] == 1 && a.0[3] >> 63 == 0 && b.0[3] >> 63 == 1);
}

/// (`U256 == U256` is the derived `[u64; 4]` equality = a 32-byte memcmp loop: unwind 34.)
#[kani::proof]
#[kani::unwind(34)]
fn c17_eq() {
    let (a, b) = (any_u256(), any_u256());
    let r = boolean::eq(a, b);
    let e = a.0[0] == b.0[0] && a.0[1] == b.0[1] && a.0[2] == b.0[2] && a.0[3] == b.0[3];
    assert!(is_bool(&r, e));
    kani::cover!(r.0[0] == 1 && a.0[2] != 0);
    kani::cover!(r.0[0] == 0);
}

#[kani::proof]
#[kani::unwind(6)]
fn c17_iszero() {
    let a = any_u256();
    let r = boolean::iszero(a);
    let z = a.0[0] == 0 && a.0[1] == 0 && a.0[2] == 0 && a.0[3] == 0;
    assert!(is_bool(&r, z));
    kani::cover!(r.0[0] == 1);
    kani::cover!(r.0[0] == 0 && a.0[0] == 0);
}

#[kani::proof]
#[kani::unwind(6)]
fn c17_and() {
    let (a, b) = (any_u256(), any_u256());
    let r = boolean::and(a, b);
    assert!(same(&r, [a.0[0] & b.0[0], a.0[1] & b.0[1], a.0[2] & b.0[2], a.0[3] & b.0[3]]));
    kani::cover!(r.0[3] != 0 && r.0[0] != 0);
}

#[kani::proof]
#[kani::unwind(6)]
fn c17_or() {
    let (a, b) = (any_u256(), any_u256());
    let r = boolean::or(a, b);
    assert!(same(&r, [a.0[0] | b.0[0], a.0[1] | b.0[1], a.0[2] | b.0[2], a.0[3] | b.0[3]]));
    kani::cover!(r.0[3] != 0 && r.0[0] != 0 && a.0[0] != b.0[0]);
}

#[kani::proof]
#[kani::unwind(6)]
fn c17_xor() {
    let (a, b) = (any_u256(), any_u256());
    let r = boolean::xor(a, b);
    assert!(same(&r, [a.0[0] ^ b.0[0], a.0[1] ^ b.0[1], a.0[2] ^ b.0[2], a.0[3] ^ b.0[3]]));
    kani::cover!(r.0[3] != 0 && r.0[0] != 0);
}

#[kani::proof]
#[kani::unwind(6)]
fn c17_not() {
    let a = any_u256();
    let r = boolean::not(a);
    assert!(same(&r, [!a.0[0], !a.0[1], !a.0[2], !a.0[3]]));
    kani::cover!(r.0[3] != 0 && r.0[0] != 0);
}
