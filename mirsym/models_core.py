"""Models of core/alloc generics the repo code calls (their MIR is not in the crate dumps):
Option/Result combinators, Try, Clone/Default/From, formatting (opaque), Vec and iterator adaptors.
Each model is a few lines; every one that is used in a run is listed in the evidence."""
import re
import z3

from .engine import (model, fallback, Engine, LAZY_TYPES, ADT_BUILDERS, EXTERNAL_CONSTS, SPECIAL_FIELD, SPECIAL_DISCR, SPECIAL_LEN,
                     MODELS_EXACT, MODELS_RE, b_and, b_or, b_not, parse_callee, strip_one_ref)
from .values import *
from . import srcindex

# ---------------------------------------------------------------------------------------
# enum helpers


def mk_enum(ty, head, vname, vals=()):
    vs, d = srcindex.enum_variants(head, vname)
    return EnumV(ty or head, d[vname], vname, {(vname, i): v for i, v in enumerate(vals)})


def some(v, ty='Option'):
    return EnumV(ty, 1, 'Some', {('Some', 0): v})


def none(ty='Option'):
    return EnumV(ty, 0, 'None', {})


def ok(v, ty='Result'):
    return EnumV(ty, 0, 'Ok', {('Ok', 0): v})


def err(e, ty='Result'):
    return EnumV(ty, 1, 'Err', {('Err', 0): e})


def variant(E, v):
    """decide (forking if needed) which variant the enum value v is; returns variant name"""
    v = E.deref(v)
    if isinstance(v, LazyV):
        v = E.lazy_enum(v)
    if not isinstance(v, EnumV):
        raise Inconclusive('variant() of %r' % (v,))
    if v.vname is not None and not is_sym(v.tag):
        return v.vname, v
    h = type_head(v.ty) if v.ty else None
    vs, d = srcindex.enum_variants(h)
    if vs is None:
        raise Inconclusive('unknown enum type %r' % (v.ty,))
    if not is_sym(v.tag):
        for n in vs:
            if d[n] == v.tag:
                return n, v
        raise Inconclusive('bad tag %r for %r' % (v.tag, v.ty))
    for n in vs[:-1]:
        if E.ctx.branch(v.tag == d[n]):
            return n, EnumV(v.ty, d[n], n, v.fields, v.lazy)
    n = vs[-1]
    E.ctx.assume(v.tag == d[n])
    return n, EnumV(v.ty, d[n], n, v.fields, v.lazy)


def payload(E, v, vname, idx=0, fty=None):
    key = (vname, idx)
    if key in v.fields:
        return v.fields[key]
    if v.lazy is not None:
        if fty is None:
            args = type_args(v.ty)
            h = type_head(v.ty)
            if h == 'Option' and args:
                fty = args[0]
            elif h == 'Result' and len(args) == 2:
                fty = args[0] if vname == 'Ok' else args[1]
            else:
                raise Inconclusive('payload type unknown for %r' % (v,))
        return E.materialize(fty, '%s.%s.%d' % (v.lazy, vname, idx))
    raise Inconclusive('payload %s missing in %r' % (key, v))


def result_ty_args(ty):
    a = type_args(ty) if ty else []
    return a if len(a) == 2 else [None, None]


# ---------------------------------------------------------------------------------------
# Try / FromResidual

@model('<Result as Try>::branch')
def _(E, c):
    n, v = variant(E, c.args[0])
    if n == 'Ok':
        return EnumV(c.dest_ty, 0, 'Continue', {('Continue', 0): payload(E, v, 'Ok')})
    return EnumV(c.dest_ty, 1, 'Break', {('Break', 0): err(payload(E, v, 'Err'))})


@model('<Option as Try>::branch')
def _(E, c):
    n, v = variant(E, c.args[0])
    if n == 'Some':
        return EnumV(c.dest_ty, 0, 'Continue', {('Continue', 0): payload(E, v, 'Some')})
    return EnumV(c.dest_ty, 1, 'Break', {('Break', 0): none()})


@model('<Result as FromResidual>::from_residual')
def _(E, c):
    n, v = variant(E, c.args[0])
    e = payload(E, v, 'Err')
    # error conversion  From<E1> for E2
    m = re.search(r'FromResidual<Result<Infallible, (.*)>>$', c.callee.trait_full or '')
    src = m.group(1).strip() if m else None
    dst = result_ty_args(c.callee.qself)[1]
    if src and dst and type_head(src) != type_head(dst):
        e = E.do_call(c.frame, '<%s as From<%s>>::from' % (dst, src), [e], dst, [src])
    return err(e, c.dest_ty)


@model('<Option as FromResidual>::from_residual')
def _(E, c):
    return none(c.dest_ty)


@model('<Result as Try>::from_output')
def _(E, c):
    return ok(c.args[0], c.dest_ty)


@model('<Option as Try>::from_output')
def _(E, c):
    return some(c.args[0], c.dest_ty)


# ---------------------------------------------------------------------------------------
# Result / Option combinators

def call1(E, f, *args):
    return E.call_callable(f, list(args))


@model('Result::map_err')
def _(E, c):
    n, v = variant(E, c.args[0])
    if n == 'Ok':
        return ok(payload(E, v, 'Ok'), c.dest_ty)
    return err(call1(E, c.args[1], payload(E, v, 'Err')), c.dest_ty)


@model('Result::map')
def _(E, c):
    n, v = variant(E, c.args[0])
    if n == 'Ok':
        return ok(call1(E, c.args[1], payload(E, v, 'Ok')), c.dest_ty)
    return err(payload(E, v, 'Err'), c.dest_ty)


@model('Result::and_then')
def _(E, c):
    n, v = variant(E, c.args[0])
    if n == 'Ok':
        return call1(E, c.args[1], payload(E, v, 'Ok'))
    return err(payload(E, v, 'Err'), c.dest_ty)


@model('Result::or_else')
def _(E, c):
    n, v = variant(E, c.args[0])
    if n == 'Ok':
        return ok(payload(E, v, 'Ok'), c.dest_ty)
    return call1(E, c.args[1], payload(E, v, 'Err'))


@model('Result::ok')
def _(E, c):
    n, v = variant(E, c.args[0])
    return some(payload(E, v, 'Ok'), c.dest_ty) if n == 'Ok' else none(c.dest_ty)


@model('Result::err')
def _(E, c):
    n, v = variant(E, c.args[0])
    return some(payload(E, v, 'Err'), c.dest_ty) if n == 'Err' else none(c.dest_ty)


@model('Result::is_ok', 'Result::is_err', 'Option::is_some', 'Option::is_none')
def _(E, c):
    n, v = variant(E, c.args[0])
    return n == {'is_ok': 'Ok', 'is_err': 'Err', 'is_some': 'Some', 'is_none': 'None'}[c.callee.idents[-1]]


@model('Result::unwrap', 'Result::expect', 'Option::unwrap', 'Option::expect')
def _(E, c):
    n, v = variant(E, c.args[0])
    if n in ('Ok', 'Some'):
        return payload(E, v, n)
    raise PathEnd('panic', '%s on %s' % (c.callee.canon, n))


@model('Result::unwrap_err', 'Result::expect_err')
def _(E, c):
    n, v = variant(E, c.args[0])
    if n == 'Err':
        return payload(E, v, n)
    raise PathEnd('panic', 'unwrap_err on Ok')


@model('Result::unwrap_or', 'Option::unwrap_or')
def _(E, c):
    n, v = variant(E, c.args[0])
    return payload(E, v, n) if n in ('Ok', 'Some') else c.args[1]


@model('Option::unwrap_or_else')
def _(E, c):
    n, v = variant(E, c.args[0])
    return payload(E, v, n) if n == 'Some' else call1(E, c.args[1])


@model('Result::unwrap_or_else')
def _(E, c):
    n, v = variant(E, c.args[0])
    return payload(E, v, n) if n == 'Ok' else call1(E, c.args[1], payload(E, v, 'Err'))


@model('Option::unwrap_or_default', 'Result::unwrap_or_default')
def _(E, c):
    n, v = variant(E, c.args[0])
    if n in ('Ok', 'Some'):
        return payload(E, v, n)
    return E.do_call(c.frame, '<%s as Default>::default' % c.dest_ty, [], c.dest_ty)


@model('Option::ok_or')
def _(E, c):
    n, v = variant(E, c.args[0])
    return ok(payload(E, v, 'Some'), c.dest_ty) if n == 'Some' else err(c.args[1], c.dest_ty)


@model('Option::ok_or_else')
def _(E, c):
    n, v = variant(E, c.args[0])
    return ok(payload(E, v, 'Some'), c.dest_ty) if n == 'Some' else err(call1(E, c.args[1]), c.dest_ty)


@model('Option::map')
def _(E, c):
    n, v = variant(E, c.args[0])
    return some(call1(E, c.args[1], payload(E, v, 'Some')), c.dest_ty) if n == 'Some' else none(c.dest_ty)


@model('Option::and_then')
def _(E, c):
    n, v = variant(E, c.args[0])
    return call1(E, c.args[1], payload(E, v, 'Some')) if n == 'Some' else none(c.dest_ty)


@model('Option::or_else')
def _(E, c):
    n, v = variant(E, c.args[0])
    return v if n == 'Some' else call1(E, c.args[1])


@model('Option::or')
def _(E, c):
    n, v = variant(E, c.args[0])
    return v if n == 'Some' else c.args[1]


@model('Option::map_or')
def _(E, c):
    n, v = variant(E, c.args[0])
    return call1(E, c.args[2], payload(E, v, 'Some')) if n == 'Some' else c.args[1]


@model('Option::map_or_else')
def _(E, c):
    n, v = variant(E, c.args[0])
    return call1(E, c.args[2], payload(E, v, 'Some')) if n == 'Some' else call1(E, c.args[1])


@model('Option::is_some_and')
def _(E, c):
    n, v = variant(E, c.args[0])
    return call1(E, c.args[1], payload(E, v, 'Some')) if n == 'Some' else False


@model('Option::is_none_or')
def _(E, c):
    n, v = variant(E, c.args[0])
    return call1(E, c.args[1], payload(E, v, 'Some')) if n == 'Some' else True


@model('Option::filter')
def _(E, c):
    n, v = variant(E, c.args[0])
    if n == 'None':
        return none(c.dest_ty)
    x = payload(E, v, 'Some')
    keep = call1(E, c.args[1], RefV(Cell(x, 'filter'), ()))
    return some(x, c.dest_ty) if E.ctx.branch(keep) else none(c.dest_ty)


@model('Option::cloned', 'Option::copied')
def _(E, c):
    n, v = variant(E, c.args[0])
    return some(E.deref(payload(E, v, 'Some')), c.dest_ty) if n == 'Some' else none(c.dest_ty)


@model('Option::as_ref', 'Option::as_mut', 'Option::as_deref', 'Option::as_deref_mut')
def _(E, c):
    r = c.args[0]
    n, v = variant(E, r)
    if n == 'None':
        return none(c.dest_ty)
    if isinstance(r, RefV):
        # reference into the option's payload
        fty = (type_args(v.ty) or [None])[0]
        return some(RefV(r.cell, r.path + (('downcast', 'Some'), ('field', 0, fty)), r.mut), c.dest_ty)
    return some(RefV(Cell(payload(E, v, 'Some'), 'as_ref'), ()), c.dest_ty)


@model('Result::as_ref')
def _(E, c):
    r = c.args[0]
    n, v = variant(E, r)
    return EnumV(c.dest_ty, v.tag, n, {(n, 0): RefV(Cell(payload(E, v, n), 'as_ref'), ())})


@model('Option::take')
def _(E, c):
    r = c.args[0]
    v = E.deref(r)
    E.store(r, none(getattr(v, 'ty', None)))
    return v


@model('Option::replace')
def _(E, c):
    r = c.args[0]
    v = E.deref(r)
    E.store(r, some(c.args[1], getattr(v, 'ty', None)))
    return v


@model('Option::insert')
def _(E, c):
    r = c.args[0]
    v = E.deref(r)
    E.store(r, some(c.args[1], getattr(v, 'ty', None)))
    return RefV(r.cell, r.path + (('downcast', 'Some'), ('field', 0, None)), True)


@model('Option::get_or_insert_with')
def _(E, c):
    r = c.args[0]
    n, v = variant(E, r)
    if n == 'None':
        E.store(r, some(call1(E, c.args[1]), v.ty))
    return RefV(r.cell, r.path + (('downcast', 'Some'), ('field', 0, None)), True)


@model('Option::transpose')
def _(E, c):
    n, v = variant(E, c.args[0])
    if n == 'None':
        return ok(none(), c.dest_ty)
    n2, r = variant(E, payload(E, v, 'Some'))
    if n2 == 'Ok':
        return ok(some(payload(E, r, 'Ok')), c.dest_ty)
    return err(payload(E, r, 'Err'), c.dest_ty)


@model('Option::zip')
def _(E, c):
    n, v = variant(E, c.args[0])
    n2, v2 = variant(E, c.args[1])
    if n == 'Some' and n2 == 'Some':
        return some(StructV('tuple', {0: payload(E, v, 'Some'), 1: payload(E, v2, 'Some')}), c.dest_ty)
    return none(c.dest_ty)


@model('Option::flatten')
def _(E, c):
    n, v = variant(E, c.args[0])
    return payload(E, v, 'Some') if n == 'Some' else none(c.dest_ty)


@model('Option::unwrap_unchecked')
def _(E, c):
    n, v = variant(E, c.args[0])
    return payload(E, v, 'Some')


@model('bool::then', '<bool>::then')
def _(E, c):
    return some(call1(E, c.args[1]), c.dest_ty) if E.ctx.branch(c.args[0]) else none(c.dest_ty)


@model('bool::then_some', '<bool>::then_some')
def _(E, c):
    return some(c.args[1], c.dest_ty) if E.ctx.branch(c.args[0]) else none(c.dest_ty)


# ---------------------------------------------------------------------------------------
# Clone / Default / From / Into / Borrow / Deref

@model('re:^<.* as Clone>::clone$', 're:^<.* as ToOwned>::to_owned$', 're:^<.* as Borrow>::borrow$',
       're:^<.* as AsRef>::as_ref$', 're:^<.* as BorrowMut>::borrow_mut$')
def _(E, c):
    if c.callee.idents[-1] in ('borrow', 'as_ref', 'borrow_mut'):
        v = c.args[0]
        if c.callee.idents[-1] == 'as_ref' and isinstance(E.deref(v), StructV) and E.lookup_functions(c.callee, len(c.args)):
            return NotImplemented      # the repo (or a macro it expands) defines AsRef for this struct: run it
        # &Vec<T> -> &[T], &String -> &str, &T -> &T  : all identity in this value domain
        return v
    t = E.deref(c.args[0])
    if isinstance(t, ObjV) and hasattr(t.obj, 'clone'):
        return ObjV(t.obj.clone())
    return t


@model('re:^<.* as Deref>::deref$', 're:^<.* as DerefMut>::deref_mut$')
def _(E, c):
    v = c.args[0]
    tgt = E.deref(v)
    if isinstance(tgt, StructV) and type_head(tgt.ty or '') == 'Box':
        return tgt.fields[0]
    h = type_head(c.callee.qself or '')
    if h in ('Vec', 'String', 'RawBytes', 'Cow', 'Arc', 'Rc', 'BytesKey', 'Lazy', 'LazyLock'):
        return v
    return NotImplemented


def default_of(E, ty):
    ty = ty.strip()
    if ty in INT_TYPES:
        return IntV(0, ty)
    if ty == 'bool':
        return False
    if ty == '()':
        return UNIT
    h = type_head(ty)
    if h == 'Option':
        return none(ty)
    if h in ('Vec', 'VecDeque'):
        return VecV([], ty)
    if h in ('String',):
        return OpaqueV('String', '')
    if h == 'PhantomData':
        return UNIT
    f = DEFAULTS.get(h)
    if f is not None:
        return f(E, ty)
    if ty.startswith('('):
        from .parser import split_top
        parts = split_top(ty[1:-1])
        return StructV(ty, {i: default_of(E, p) for i, p in enumerate(parts) if p})
    return None


DEFAULTS = {}


@model('re:^<.* as Default>::default$')
def _(E, c):
    ty = c.callee.qself
    v = default_of(E, ty)
    if v is None:
        return NotImplemented
    return v


def convert_scalar(E, v, dst):
    """numeric From/Into/TryFrom between machine ints, bools and bigints"""
    dst = dst.strip()
    v = E.deref(v)
    h = type_head(dst)
    if dst in INT_TYPES:
        if isinstance(v, bool):
            return IntV(int(v), dst)
        if isinstance(v, z3.BoolRef):
            return IntV(z3.If(v, 1, 0), dst)
        if isinstance(v, IntV):
            return IntV(v.v, dst)
    if h in BIG_HEADS:
        if isinstance(v, IntV):
            return BigV(v.v)
        if isinstance(v, BigV):
            return v
    return None


BIG_HEADS = {'BigInt', 'BigUint', 'TokenAmount'}


@model('re:^<.* as From>::from$', 're:^<.* as Into>::into$')
def _(E, c):
    m = c.callee.idents[-1]
    if m == 'from':
        dst = c.callee.qself
        mm = re.search(r'From<(.*)>$', c.callee.trait_full or '')
        src = mm.group(1) if mm else (c.arg_tys[0] if c.arg_tys else None)
    else:
        src = c.callee.qself
        mm = re.search(r'Into<(.*)>$', c.callee.trait_full or '')
        dst = mm.group(1) if mm else c.dest_ty
    if dst is None:
        dst = c.dest_ty
    from .engine import is_generic_param
    if src is not None and is_generic_param(src):
        src = E.value_type(c.args[0]) or src
    if dst is not None and is_generic_param(dst):
        dst = c.dest_ty if c.dest_ty and not is_generic_param(c.dest_ty) else dst
    if src is not None and dst is not None and type_head(src) == type_head(dst) and type_head(src) not in ('Result', 'Option', 'Vec'):
        return c.args[0]
    if src is not None and dst is not None and src.replace(' ', '') == dst.replace(' ', ''):
        return c.args[0]
    if dst:
        r = convert_scalar(E, c.args[0], dst)
        if r is not None:
            return r
        f = FROM_MODELS.get(type_head(dst))
        if f is not None:
            r = f(E, c.args[0], src, dst)
            if r is not None:
                return r
    if m == 'into' and src and dst:
        # Into is the blanket impl over From: resolve the From impl in the repo
        return E.do_call(c.frame, '<%s as From<%s>>::from' % (dst, src), c.args, dst, c.arg_tys)
    return NotImplemented


FROM_MODELS = {}


@model('re:^<.* as TryFrom>::try_from$', 're:^<.* as TryInto>::try_into$')
def _(E, c):
    m = c.callee.idents[-1]
    if m == 'try_from':
        dst = c.callee.qself
    else:
        mm = re.search(r'TryInto<(.*)>$', c.callee.trait_full or '')
        dst = mm.group(1) if mm else None
    v = E.deref(c.args[0])
    if dst and dst.strip() in INT_TYPES and isinstance(v, IntV):
        lo, hi = INT_TYPES[dst.strip()]
        if E.ctx.branch(b_and(v.v >= lo, v.v <= hi)):
            return ok(IntV(v.v, dst.strip()), c.dest_ty)
        return err(OpaqueV('TryFromIntError'), c.dest_ty)
    if dst and dst.strip() in INT_TYPES and isinstance(v, BigV):
        lo, hi = INT_TYPES[dst.strip()]
        if E.ctx.branch(b_and(v.v >= lo, v.v <= hi)):
            return ok(IntV(v.v, dst.strip()), c.dest_ty)
        return err(OpaqueV('TryFromBigIntError'), c.dest_ty)
    if m == 'try_into' and dst and c.callee.qself:
        # blanket impl: T: TryInto<U> through U: TryFrom<T> (defined by the repository or a macro it expands)
        tf = parse_callee('<%s as TryFrom<%s>>::try_from' % (dst.strip(), c.callee.qself.strip()))
        if E.lookup_functions(tf, 1):
            return E.do_call(c.frame, '<%s as TryFrom<%s>>::try_from' % (dst.strip(), c.callee.qself.strip()), list(c.args), c.dest_ty, c.arg_tys)
    return NotImplemented


# ---------------------------------------------------------------------------------------
# comparison helpers (structural)

def deep_eq(E, a, b):
    """structural equality as a Bool term / python bool"""
    a = E.deref(a)
    b = E.deref(b)
    if isinstance(a, LazyV) and isinstance(b, LazyV) and a.name == b.name:
        return True
    # an unexamined enum compared with an examined one: examine it (forks on the variant)
    if isinstance(a, LazyV) and isinstance(b, EnumV) and type_head(a.ty or '') in ('Option', 'Result'):
        n, a = variant(E, a)
    elif isinstance(b, LazyV) and isinstance(a, EnumV) and type_head(b.ty or '') in ('Option', 'Result'):
        n, b = variant(E, b)
    if isinstance(a, IntV) and isinstance(b, IntV):
        return a.v == b.v
    if isinstance(a, BigV) and isinstance(b, BigV):
        return a.v == b.v
    if isinstance(a, (bool, z3.BoolRef)) and isinstance(b, (bool, z3.BoolRef)):
        if isinstance(a, bool) and isinstance(b, bool):
            return a == b
        return (a if is_sym(a) else z3.BoolVal(a)) == (b if is_sym(b) else z3.BoolVal(b))
    if a is UNIT and b is UNIT:
        return True
    if isinstance(a, StrV) and isinstance(b, StrV):
        return a.s == b.s
    f = DEEP_EQ.get(type(a))
    if f is not None and type(a) is type(b):
        return f(E, a, b)
    if isinstance(a, VecV) and isinstance(b, VecV):
        if len(a.items) != len(b.items):
            return False
        r = True
        for x, y in zip(a.items, b.items):
            r = b_and(r, deep_eq(E, x, y))
        return r
    if isinstance(a, LazyV) and isinstance(b, StructV) and not b.lazy:
        a, b = b, a
    if isinstance(a, StructV) and not a.lazy and isinstance(b, LazyV):
        # materialise the lazy side field-wise with the types of the concrete side
        r = True
        for k, fv in a.fields.items():
            fv = E.deref(fv)
            ty = fv.ty if isinstance(fv, IntV) else E.value_type(fv)
            if ty is None:
                raise Inconclusive('deep_eq: cannot type field %d of %r' % (k, a))
            r = b_and(r, deep_eq(E, fv, E.materialize(ty, '%s.%d' % (b.name, k))))
        return r
    if isinstance(a, (StructV, LazyV)) and isinstance(b, (StructV, LazyV)):
        # need field lists: only possible when both are fully materialised with same keys
        if isinstance(a, StructV) and isinstance(b, StructV) and not a.lazy and not b.lazy \
                and set(a.fields) == set(b.fields):
            r = True
            for k in a.fields:
                r = b_and(r, deep_eq(E, a.fields[k], b.fields[k]))
            return r
        raise Inconclusive('deep_eq on lazily materialised structs %r / %r' % (a, b))
    if isinstance(a, (EnumV,)) and isinstance(b, (EnumV,)):
        na, a = variant(E, a)
        nb, b = variant(E, b)
        if na != nb:
            return False
        keys = set(k for k in a.fields if k[0] == na) | set(k for k in b.fields if k[0] == nb)
        r = True
        for k in keys:
            r = b_and(r, deep_eq(E, payload(E, a, na, k[1]), payload(E, b, nb, k[1])))
        if not keys and (a.lazy or b.lazy):
            # payload presence unknown for lazily materialised enums: compare by known shape
            if type_head(a.ty or '') in ('Option', 'Result') and na in ('Some', 'Ok', 'Err'):
                r = deep_eq(E, payload(E, a, na), payload(E, b, nb))
        return r
    if isinstance(a, OpaqueV) and isinstance(b, OpaqueV):
        if a.payload is not None and b.payload is not None and a.kind == b.kind:
            pa, pb = a.payload, b.payload
            if isinstance(pa, (IntV, BigV, StructV, EnumV, VecV)) or is_sym(pa):
                return deep_eq(E, pa, pb) if not is_sym(pa) else pa == pb
            return pa == pb
    raise Inconclusive('deep_eq of %r and %r' % (a, b))


DEEP_EQ = {}



@model('re:^<.* as (PartialEq|PartialOrd)>::(eq|ne|lt|le|gt|ge|partial_cmp)$')
def _(E, c):
    """`&A == &B` (impl PartialEq<&B> for &A): compare the referents through A's own impl"""
    q = (c.callee.qself or '').strip()
    if not q.startswith('&') or len(c.args) != 2:
        return NotImplemented
    inner = []
    for a in c.args:
        if not isinstance(a, RefV):
            return NotImplemented
        t = E.get_path(a.cell.value, a.path)
        if not isinstance(t, RefV):
            return NotImplemented
        inner.append(t)
    q2 = q[1:].strip()
    if q2.startswith('mut '):
        q2 = q2[4:]
    tys = [strip_one_ref(t) if t else t for t in (c.arg_tys or [])]
    return E.do_call(c.frame, '<%s as %s>::%s' % (q2, c.callee.trait, c.callee.idents[-1]), inner, c.dest_ty, tys)


def strip_one_ref(t):
    t = t.strip()
    if t.startswith('&'):
        t = t[1:].lstrip()
        if t.startswith("'"):
            t = t.split(' ', 1)[1] if ' ' in t else t
        if t.startswith('mut '):
            t = t[4:]
    return t


@fallback(r'^<.* as PartialOrd>::(lt|le|gt|ge)$')
def _(E, c):
    """provided comparison methods of PartialOrd: through the type's own partial_cmp"""
    q = (c.callee.qself or '').strip()
    r = E.do_call(c.frame, '<%s as PartialOrd>::partial_cmp' % q, list(c.args), 'std::option::Option<std::cmp::Ordering>', c.arg_tys)
    n, v = variant(E, r)
    if n != 'Some':
        return False
    o = E.deref(payload(E, v, 'Some'))
    tag = o.tag
    m = c.callee.idents[-1]
    if is_sym(tag):
        return {'lt': tag < 0, 'le': tag <= 0, 'gt': tag > 0, 'ge': tag >= 0}[m]
    return {'lt': tag < 0, 'le': tag <= 0, 'gt': tag > 0, 'ge': tag >= 0}[m]


@fallback(r'^<.* as PartialEq>::(eq|ne)$')
def _(E, c):
    r = deep_eq(E, c.args[0], c.args[1])
    return r if c.callee.idents[-1] == 'eq' else b_not(r)


def int_cmp(E, c, a, b):
    m = c.callee.idents[-1]
    x, y = a, b
    if m in ('lt', 'le', 'gt', 'ge'):
        return {'lt': lambda: x < y, 'le': lambda: x <= y, 'gt': lambda: x > y, 'ge': lambda: x >= y}[m]()
    if m == 'eq':
        return x == y
    if m == 'ne':
        return x != y
    if m == 'cmp' or m == 'partial_cmp':
        sym = is_sym(x) or is_sym(y)
        lt = E.ctx.branch(x < y) if sym else x < y
        if lt:
            r = EnumV('Ordering', -1, 'Less')
        else:
            eq = E.ctx.branch(x == y) if sym else x == y
            r = EnumV('Ordering', 0, 'Equal') if eq else EnumV('Ordering', 1, 'Greater')
        return some(r) if m == 'partial_cmp' else r
    if m in ('max', 'min'):
        sym = is_sym(x) or is_sym(y)
        # Ord::max returns the second argument when equal
        if m == 'max':
            ge = E.ctx.branch(y >= x) if sym else y >= x
            return 'b' if ge else 'a'
        le = E.ctx.branch(x <= y) if sym else x <= y
        return 'a' if le else 'b'
    return None


def scalar_of(E, v):
    v = E.deref(v)
    if isinstance(v, (IntV, BigV)):
        return v.v
    return None


@model('re:^<(u8|u16|u32|u64|u128|usize|i8|i16|i32|i64|i128|isize) as (PartialOrd|PartialEq|Ord)>::(lt|le|gt|ge|eq|ne|cmp|partial_cmp|max|min)$',
       're:^(max|min)$', 're:^cmp::(max|min)$')
def _(E, c):
    a, b = scalar_of(E, c.args[0]), scalar_of(E, c.args[1])
    if a is None or b is None:
        return NotImplemented
    r = int_cmp(E, c, a, b)
    if isinstance(r, str) and r == 'a':
        return c.args[0]
    if isinstance(r, str) and r == 'b':
        return c.args[1]
    if r is None:
        return NotImplemented
    return r


@model('re:^<(u8|u16|u32|u64|u128|usize|i8|i16|i32|i64|i128|isize) as Ord>::clamp$')
def _(E, c):
    x, lo, hi = (scalar_of(E, a) for a in c.args)
    if E.ctx.branch(x < lo):
        return c.args[1]
    if E.ctx.branch(x > hi):
        return c.args[2]
    return c.args[0]


@model('re:^<Ordering as (PartialEq|Eq)>::(eq|ne)$')
def _(E, c):
    a, b = E.deref(c.args[0]), E.deref(c.args[1])
    r = a.tag == b.tag
    return r if c.callee.idents[-1] == 'eq' else b_not(r)


@model('Ordering::is_lt', 'Ordering::is_le', 'Ordering::is_gt', 'Ordering::is_ge', 'Ordering::is_eq', 'Ordering::is_ne')
def _(E, c):
    t = E.deref(c.args[0]).tag
    return {'is_lt': t < 0, 'is_le': t <= 0, 'is_gt': t > 0, 'is_ge': t >= 0, 'is_eq': t == 0, 'is_ne': t != 0}[c.callee.idents[-1]]


@model('Ordering::then', 'Ordering::then_with', 'Ordering::reverse')
def _(E, c):
    a = E.deref(c.args[0])
    m = c.callee.idents[-1]
    if m == 'reverse':
        return EnumV('Ordering', -a.tag, {-1: 'Greater', 0: 'Equal', 1: 'Less'}[a.tag])
    if a.tag != 0:
        return a
    return c.args[1] if m == 'then' else call1(E, c.args[1])


# ---------------------------------------------------------------------------------------
# integer helper methods  (u64::checked_add etc.)

INT_RE = '(u8|u16|u32|u64|u128|usize|i8|i16|i32|i64|i128|isize)'


def _int_method(E, c, ty, m):
    a = [E.deref(x) for x in c.args]
    lo, hi = INT_TYPES[ty]
    if not a:
        if m in ('max_value', 'min_value'):
            return IntV(hi if m == 'max_value' else lo, ty)
        return NotImplemented
    x = a[0].v
    if m in ('checked_add', 'checked_sub', 'checked_mul'):
        y = a[1].v
        r = {'a': lambda: x + y, 's': lambda: x - y, 'm': lambda: x * y}[m[8]]()
        if E.ctx.branch(b_and(r >= lo, r <= hi)):
            return some(IntV(r, ty), c.dest_ty)
        return none(c.dest_ty)
    if m in ('saturating_add', 'saturating_sub', 'saturating_mul'):
        y = a[1].v
        r = {'a': lambda: x + y, 's': lambda: x - y, 'm': lambda: x * y}[m[11]]()
        if E.ctx.branch(r > hi):
            return IntV(hi, ty)
        if E.ctx.branch(r < lo):
            return IntV(lo, ty)
        return IntV(r, ty)
    if m in ('wrapping_add', 'wrapping_sub', 'wrapping_mul'):
        return E.int_binop({'a': 'Add', 's': 'Sub', 'm': 'Mul'}[m[9]], a[0], a[1])
    if m in ('overflowing_add', 'overflowing_sub', 'overflowing_mul'):
        return E.int_binop({'a': 'AddWithOverflow', 's': 'SubWithOverflow', 'm': 'MulWithOverflow'}[m[12]], a[0], a[1])
    if m in ('checked_div', 'checked_rem', 'checked_div_euclid', 'checked_rem_euclid'):
        y = a[1].v
        if E.ctx.branch(y == 0):
            return none(c.dest_ty)
        r = E.int_binop('Div' if 'div' in m else 'Rem', a[0], a[1])
        return some(r, c.dest_ty)
    if m in ('min', 'max'):
        return NotImplemented
    if m == 'abs':
        if E.ctx.branch(x >= 0):
            return a[0]
        return IntV(-x, ty)
    if m == 'unsigned_abs':
        uty = 'u' + ty[1:]
        if E.ctx.branch(x >= 0):
            return IntV(x, uty)
        return IntV(-x, uty)
    if m == 'abs_diff':
        y = a[1].v
        uty = 'u' + ty[1:]
        if E.ctx.branch(x >= y):
            return IntV(x - y, uty)
        return IntV(y - x, uty)
    if m == 'pow':
        y = a[1].v
        if not is_sym(y):
            r = x ** y if not is_sym(x) else z3.Product(*([x] * y)) if y > 0 else 1
            if E.ctx.branch(b_and(r >= lo, r <= hi)):
                return IntV(r, ty)
            raise PathEnd('panic', 'pow overflow')
    if m in ('is_power_of_two', 'count_ones', 'leading_zeros', 'trailing_zeros', 'next_power_of_two', 'ilog2'):
        if not is_sym(x):
            bits = INT_BITS[ty]
            ux = x & (2**bits - 1)
            r = {'is_power_of_two': lambda: ux != 0 and ux & (ux - 1) == 0,
                 'count_ones': lambda: IntV(bin(ux).count('1'), 'u32'),
                 'leading_zeros': lambda: IntV(bits - ux.bit_length(), 'u32'),
                 'trailing_zeros': lambda: IntV((ux & -ux).bit_length() - 1 if ux else bits, 'u32'),
                 'next_power_of_two': lambda: IntV(1 << (ux - 1).bit_length() if ux > 1 else 1, ty),
                 'ilog2': lambda: IntV(ux.bit_length() - 1, 'u32')}[m]()
            return r
    if m in ('div_ceil',):
        y = a[1].v
        q, r = E.trunc_divrem(x if is_sym(x) else z3.IntVal(x), y)
        return IntV(z3.If(r > 0, q + 1, q) if ty.startswith('u') else z3.If(z3.And(r != 0, (r > 0) == (y > 0)), q + 1, q), ty)
    if m in ('div_euclid', 'rem_euclid') and ty.startswith('u'):
        return E.int_binop('Div' if m == 'div_euclid' else 'Rem', a[0], a[1])
    if m in ('rem_euclid', 'div_euclid'):
        y = a[1].v
        if not is_sym(y) and y > 0:
            xx = x if is_sym(x) else z3.IntVal(x)
            return IntV(xx % y if m == 'rem_euclid' else xx / y, ty)
    if m in ('to_string',):
        return OpaqueV('String')
    if m in ('from_be_bytes', 'from_le_bytes', 'to_be_bytes', 'to_le_bytes'):
        return NotImplemented
    return NotImplemented


@model('re:^' + INT_RE + '::[a-z_0-9]+$', 're:^core::num::<impl ' + INT_RE + '>::[a-z_0-9]+$',
       're:^<impl ' + INT_RE + '>::[a-z_0-9]+$', 're:^<' + INT_RE + '>::[a-z_0-9]+$')
def _(E, c):
    m = c.callee.idents[-1]
    ty = c.callee.implty or (c.callee.idents[-2] if len(c.callee.idents) >= 2 else None)
    if ty not in INT_TYPES:
        mm = re.search(INT_RE, c.callee.canon)
        ty = mm.group(1)
    return _int_method(E, c, ty, m)


@model('re:^<' + INT_RE + ' as (Add|Sub|Mul|Div|Rem)>::(add|sub|mul|div|rem)$')
def _(E, c):
    a, b = E.deref(c.args[0]), E.deref(c.args[1])
    if not isinstance(a, IntV) or not isinstance(b, IntV):
        return NotImplemented
    name = {'add': 'AddWithOverflow', 'sub': 'SubWithOverflow', 'mul': 'MulWithOverflow', 'div': 'Div', 'rem': 'Rem'}[c.callee.idents[-1]]
    r = E.int_binop(name, a, b)
    if isinstance(r, StructV):
        if r.fields[1] is True:
            raise PathEnd('panic', 'arithmetic overflow')
        return r.fields[0]
    return r


@model('re:^<' + INT_RE + ' as (AddAssign|SubAssign|MulAssign)>::(add_assign|sub_assign|mul_assign)$')
def _(E, c):
    a, b = E.deref(c.args[0]), E.deref(c.args[1])
    name = {'add_assign': 'AddWithOverflow', 'sub_assign': 'SubWithOverflow', 'mul_assign': 'MulWithOverflow'}[c.callee.idents[-1]]
    r = E.int_binop(name, a, b)
    if r.fields[1] is True:
        raise PathEnd('panic', 'arithmetic overflow')
    E.store(c.args[0], r.fields[0])
    return UNIT


@model('re:^<' + INT_RE + ' as (Sum|Product)>::(sum|product)$')
def _(E, c):
    it = as_iter(E, c.args[0])
    ty = re.search(INT_RE, c.callee.canon).group(1)
    acc = IntV(0 if c.callee.idents[-1] == 'sum' else 1, ty)
    while True:
        x = it.next(E)
        if x is None:
            return acc
        r = E.int_binop('AddWithOverflow' if c.callee.idents[-1] == 'sum' else 'MulWithOverflow', acc, E.deref(x))
        if r.fields[1] is True:
            raise PathEnd('panic', 'arithmetic overflow in sum')
        acc = r.fields[0]


# ---------------------------------------------------------------------------------------
# formatting / strings / logging: opaque, no effect

@model('re:^Argument::new_', 're:^Arguments::new', 'format', 'Arguments::from_str', 're:^fmt::format$',
       're:^<.* as ToString>::to_string$', 're:^<String as From>::from$', 'String::new', 'String::from',
       're:^String::', 're:^<String as .*>::', 're:^str::', 're:^<str>::', 're:^<impl str>::', 'Arguments::as_str',
       're:^<.* as Display>::fmt$', 're:^<.* as Debug>::fmt$', 're:^Formatter::', 'format_inner', 're:^<str as .*>::')
def _(E, c):
    m = c.callee.idents[-1] if c.callee.idents else ''
    if m in ('is_empty',):
        v = E.deref(c.args[0])
        if isinstance(v, StrV):
            return len(v.s) == 0
        return E.ctx.fresh_bool('str_is_empty')
    if m == 'len':
        v = E.deref(c.args[0])
        if isinstance(v, StrV):
            return IntV(len(v.s), 'usize')
        return IntV(E.ctx.fresh_int('str_len'), 'usize')
    if m in ('as_bytes', 'into_bytes', 'as_str', 'as_ref'):
        v = E.deref(c.args[0])
        if isinstance(v, StrV) and m in ('as_bytes', 'into_bytes'):
            return VecV([IntV(ord(ch) & 0xff, 'u8') for ch in v.s], 'Vec<u8>')
        return c.args[0]
    if m in ('eq', 'ne'):
        return NotImplemented
    if m == 'fmt':
        return ok(UNIT)
    if c.dest_ty and type_head(c.dest_ty) == 'Result':
        return ok(UNIT)
    return OpaqueV('String')


@model('must_use', 're:^hint::must_use$', 're:^identity$', 're:^convert::identity$', 'hint::black_box', '__private::must_use')
def _(E, c):
    return c.args[0]


@model('re:^log::', 're:^__private_api::', 're:^panicking::assert_failed', 're:^log$')
def _(E, c):
    m = c.callee.idents[-1]
    if m == 'max_level':
        return EnumV('LevelFilter', 0, 'Off')
    if m.startswith('assert_failed'):
        raise PathEnd('panic', 'assert_eq!/assert_ne! failed')
    if m == 'enabled':
        return False
    return UNIT


@model('re:^<Level as PartialOrd>::(le|lt|ge|gt)$', 're:^<Level as PartialOrd<LevelFilter>>::')
def _(E, c):
    return False


@model('re:^panicking::panic', 're:^core::panicking::', 're:^panic_', 're:^begin_panic', 're:^rt::panic',
       're:^option::expect_failed', 're:^result::unwrap_failed', 're:^panic_fmt$', 're:^panic$',
       're:^unreachable_display$', 're:^panic_explicit$', 're:^panic_display$', 're:^slice_index_fail',
       're:^panic_bounds_check')
def _(E, c):
    raise PathEnd('panic', 'explicit panic: %s' % c.callee.canon)


@model('re:^intrinsics::', 're:^mem::size_of', 're:^size_of$')
def _(E, c):
    m = c.callee.idents[-1]
    if m in ('cold_path', 'assume', 'assert_inhabited', 'assert_zero_valid'):
        return UNIT
    if m in ('likely', 'unlikely'):
        return c.args[0]
    if m == 'size_of':
        return IntV(8, 'usize')
    return NotImplemented


@model('mem::swap', 'swap')
def _(E, c):
    a, b = c.args
    va, vb = E.deref(a), E.deref(b)
    E.store(a, vb)
    E.store(b, va)
    return UNIT


@model('mem::replace', 'replace')
def _(E, c):
    if len(c.args) != 2 or not isinstance(c.args[0], RefV):
        return NotImplemented
    old = E.deref(c.args[0])
    E.store(c.args[0], c.args[1])
    return old


@model('re:::from_bits_retain$', 're:::from_bits_truncate$', 're:>::from_bits_retain$')
def _(E, c):
    """bitflags!-generated flag sets: kept as their bit pattern"""
    b = E.deref(c.args[0])
    return StructV(c.dest_ty or 'bitflags', {0: b})


@model('re:Flags>::bits$', 're:Flags::bits$')
def _(E, c):
    v = E.deref(c.args[0])
    if isinstance(v, StructV) and 0 in v.fields:
        return E.deref(v.fields[0])
    return NotImplemented


@model('re:Flags>::contains$', 're:Flags::contains$')
def _(E, c):
    a, b = E.deref(c.args[0]), E.deref(c.args[1])
    if isinstance(a, StructV) and isinstance(b, StructV) and isinstance(E.deref(a.fields.get(0)), IntV) and isinstance(E.deref(b.fields.get(0)), IntV):
        x, y = E.deref(a.fields[0]).v, E.deref(b.fields[0]).v
        if not is_sym(x) and not is_sym(y):
            return (x & y) == y
    return NotImplemented


@model('mem::take', 'take')
def _(E, c):
    if len(c.args) != 1 or not isinstance(c.args[0], RefV):
        return NotImplemented
    old = E.deref(c.args[0])
    ty = getattr(old, 'ty', None)
    d = default_of(E, ty) if ty else None
    if d is None:
        if isinstance(old, BigV):
            d = BigV(0)
        elif isinstance(old, VecV):
            d = VecV([], old.ty)
        elif ty:
            # a type whose Default is defined in the repository (derive or impl): run it
            try:
                d = E.do_call(c.frame, '<%s as Default>::default' % ty, [], ty)
            except Inconclusive:
                raise Inconclusive('mem::take of %r' % (old,))
        else:
            raise Inconclusive('mem::take of %r' % (old,))
    E.store(c.args[0], d)
    return old


@model('mem::drop', 'drop', 'mem::forget')
def _(E, c):
    return UNIT


# ---------------------------------------------------------------------------------------
# Box / Rc / Arc : transparent

@model('Box::new', 'Rc::new', 'Arc::new', 'RefCell::new', 'Cell::new', 'Box::pin')
def _(E, c):
    h = c.callee.idents[-2]
    if h == 'Box':
        return StructV('Box', {0: RefV(Cell(c.args[0], 'box'), (), True)})
    return c.args[0]


@model('RefCell::borrow', 'RefCell::borrow_mut')
def _(E, c):
    return c.args[0]


# ---------------------------------------------------------------------------------------
# iterators

class Iter:
    """python-level lazy iterator; next(E) returns a value or None"""

    def next(self, E):
        raise NotImplementedError


class ListIter(Iter):
    def __init__(self, items):
        self.items = list(items)
        self.pos = 0
        self.back = len(self.items)

    def next(self, E):
        if self.pos >= self.back:
            return None
        v = self.items[self.pos]
        self.pos += 1
        return v

    def next_back(self, E):
        if self.pos >= self.back:
            return None
        self.back -= 1
        return self.items[self.back]

    def remaining(self):
        return self.items[self.pos:self.back]


class RangeIter(Iter):
    def __init__(self, lo, hi, ty, inclusive=False):
        self.lo, self.hi, self.ty, self.inclusive = lo, hi, ty, inclusive
        self.done = False

    def next(self, E):
        if self.done:
            return None
        c = (self.lo <= self.hi) if self.inclusive else (self.lo < self.hi)
        if not E.ctx.branch(c):
            self.done = True
            return None
        v = IntV(self.lo, self.ty)
        self.lo = self.lo + 1
        return v


class MapIter(Iter):
    def __init__(self, inner, f):
        self.inner, self.f = inner, f

    def next(self, E):
        x = self.inner.next(E)
        if x is None:
            return None
        return E.call_callable(self.f, [x])

    def next_back(self, E):
        x = self.inner.next_back(E)
        if x is None:
            return None
        return E.call_callable(self.f, [x])


class FilterIter(Iter):
    def __init__(self, inner, f):
        self.inner, self.f = inner, f

    def next(self, E):
        while True:
            x = self.inner.next(E)
            if x is None:
                return None
            keep = E.call_callable(self.f, [RefV(Cell(x, 'filter'), ())])
            if E.ctx.branch(keep):
                return x


class FilterMapIter(Iter):
    def __init__(self, inner, f):
        self.inner, self.f = inner, f

    def next(self, E):
        while True:
            x = self.inner.next(E)
            if x is None:
                return None
            r = E.call_callable(self.f, [x])
            n, r = variant(E, r)
            if n == 'Some':
                return payload(E, r, 'Some')


class EnumerateIter(Iter):
    def __init__(self, inner):
        self.inner = inner
        self.i = 0

    def next(self, E):
        x = self.inner.next(E)
        if x is None:
            return None
        r = StructV('tuple', {0: IntV(self.i, 'usize'), 1: x})
        self.i += 1
        return r


class ZipIter(Iter):
    def __init__(self, a, b):
        self.a, self.b = a, b

    def next(self, E):
        x = self.a.next(E)
        if x is None:
            return None
        y = self.b.next(E)
        if y is None:
            return None
        return StructV('tuple', {0: x, 1: y})


class ChainIter(Iter):
    def __init__(self, a, b):
        self.a, self.b = a, b

    def next(self, E):
        if self.a is not None:
            x = self.a.next(E)
            if x is not None:
                return x
            self.a = None
        return self.b.next(E)


class DerefIter(Iter):
    def __init__(self, inner):
        self.inner = inner

    def next(self, E):
        x = self.inner.next(E)
        return None if x is None else E.deref(x)

    def next_back(self, E):
        x = self.inner.next_back(E)
        return None if x is None else E.deref(x)


class TakeIter(Iter):
    def __init__(self, inner, n):
        self.inner, self.n = inner, n

    def next(self, E):
        if is_sym(self.n):
            if not E.ctx.branch(self.n > 0):
                return None
        elif self.n <= 0:
            return None
        self.n = self.n - 1
        return self.inner.next(E)


class RevIter(Iter):
    def __init__(self, inner):
        self.inner = inner

    def next(self, E):
        return self.inner.next_back(E)

    def next_back(self, E):
        return self.inner.next(E)


class PeekIter(Iter):
    def __init__(self, inner):
        self.inner = inner
        self.peeked = None   # None = nothing peeked ; ('v', x) ; ('end',)

    def next(self, E):
        if self.peeked is not None:
            p = self.peeked
            self.peeked = None
            return p[1] if p[0] == 'v' else None
        return self.inner.next(E)

    def peek(self, E):
        if self.peeked is None:
            x = self.inner.next(E)
            self.peeked = ('v', x) if x is not None else ('end',)
        return self.peeked[1] if self.peeked[0] == 'v' else None


class TakeWhileIter(Iter):
    def __init__(self, inner, f):
        self.inner, self.f, self.done = inner, f, False

    def next(self, E):
        if self.done:
            return None
        x = self.inner.next(E)
        if x is None:
            return None
        if E.ctx.branch(E.call_callable(self.f, [RefV(Cell(x, 'tw'), ())])):
            return x
        self.done = True
        return None


class SkipWhileIter(Iter):
    def __init__(self, inner, f):
        self.inner, self.f, self.started = inner, f, False

    def next(self, E):
        while True:
            x = self.inner.next(E)
            if x is None:
                return None
            if self.started:
                return x
            if not E.ctx.branch(E.call_callable(self.f, [RefV(Cell(x, 'sw'), ())])):
                self.started = True
                return x


class FlatIter(Iter):
    def __init__(self, inner, f=None):
        self.inner, self.f, self.cur = inner, f, None

    def next(self, E):
        while True:
            if self.cur is not None:
                x = self.cur.next(E)
                if x is not None:
                    return x
                self.cur = None
            o = self.inner.next(E)
            if o is None:
                return None
            if self.f is not None:
                o = E.call_callable(self.f, [o])
            self.cur = as_iter(E, o)


def as_iter(E, v):
    """turn a value into an Iter (IntoIterator semantics)"""
    if isinstance(v, ObjV) and isinstance(v.obj, Iter):
        return v.obj
    if isinstance(v, RefV):
        tgt = E.get_path(v.cell.value, v.path)
        if isinstance(tgt, LazyV) and type_head(tgt.ty) in ('Vec', 'slice'):
            mat = E.materialize(tgt.ty, tgt.name)
            if isinstance(mat, VecV):
                E.store(v, mat)
                tgt = mat
        if isinstance(tgt, ObjV) and isinstance(tgt.obj, Iter):
            return tgt.obj
        if isinstance(tgt, VecV):
            return ListIter([RefV(v.cell, v.path + (('index', i),), v.mut) for i in range(len(tgt.items))])
        if isinstance(tgt, EnumV) or isinstance(tgt, LazyV):
            n, tv = variant(E, tgt)
            if n == 'Some':
                return ListIter([RefV(v.cell, v.path + (('downcast', 'Some'), ('field', 0, None)), v.mut)])
            return ListIter([])
        fr = AS_ITER_REF.get(type(tgt.obj) if isinstance(tgt, ObjV) else type(tgt))
        if fr is not None:
            return fr(E, tgt.obj if isinstance(tgt, ObjV) else tgt, v.mut)
        return as_iter(E, tgt)
    if isinstance(v, VecV):
        return ListIter(v.items)
    if isinstance(v, StructV) and type_head(v.ty or '') in ('Range', 'RangeInclusive'):
        lo, hi = v.fields[0], v.fields[1]
        return RangeIter(lo.v, hi.v, lo.ty, type_head(v.ty) == 'RangeInclusive')
    if isinstance(v, EnumV):
        n, tv = variant(E, v)
        if type_head(v.ty or 'Option') == 'Option':
            return ListIter([payload(E, tv, 'Some')] if n == 'Some' else [])
    f = AS_ITER.get(type(v))
    if f is None and isinstance(v, ObjV):
        f = AS_ITER.get(type(v.obj))
        if f is not None:
            return f(E, v.obj)
    if f is not None:
        return f(E, v)
    if isinstance(v, LazyV) and type_head(v.ty) in ('Vec',):
        raise Inconclusive('iteration over a Vec of unknown length (%s): the obligation must fix its length' % v.name)
    raise Inconclusive('as_iter of %r' % (v,))


AS_ITER = {}
AS_ITER_REF = {}     # iteration through a reference: f(E, obj, mutable) -> Iter yielding references


def iter_obj(it):
    return ObjV(it)


@model('re:^<.* as IntoIterator>::into_iter$')
def _(E, c):
    return iter_obj(as_iter(E, c.args[0]))


@model('re:^<.*>::iter$', 're:^<.*>::iter_mut$', 're:^slice::iter$', 're:^slice::iter_mut$', 'Vec::iter', 'Vec::iter_mut',
       'Option::iter', 'Vec::drain', 'Vec::into_iter')
def _(E, c):
    v = c.args[0]
    if c.callee.idents[-1] == 'drain':
        tgt = E.deref(v)
        E.store(v, VecV([], tgt.ty))
        return iter_obj(ListIter(tgt.items))
    if not isinstance(v, RefV):
        v = RefV(Cell(v, 'iter'), ())
    return iter_obj(as_iter(E, v))


@model('re:^<.* as Iterator>::next$')
def _(E, c):
    it = as_iter(E, c.args[0])
    x = it.next(E)
    return some(x, c.dest_ty) if x is not None else none(c.dest_ty)


@model('re:^<.* as Iterator>::(cmp|partial_cmp|eq|ne|lt|le|gt|ge)$')
def _(E, c):
    """lexicographic comparison of two iterators over scalars (forks per element)"""
    a, b = as_iter(E, c.args[0]), as_iter(E, c.args[1])
    m = c.callee.idents[-1]
    res = 0
    while True:
        x, y = a.next(E), b.next(E)
        if x is None and y is None:
            break
        if x is None:
            res = -1
            break
        if y is None:
            res = 1
            break
        xv, yv = scalar_of(E, x), scalar_of(E, y)
        if xv is None or yv is None:
            raise Inconclusive('Iterator::%s over non-scalar items' % m)
        sym = is_sym(xv) or is_sym(yv)
        if (E.ctx.branch(xv < yv) if sym else xv < yv):
            res = -1
            break
        if (E.ctx.branch(xv > yv) if sym else xv > yv):
            res = 1
            break
    if m == 'cmp':
        return EnumV('Ordering', res, {-1: 'Less', 0: 'Equal', 1: 'Greater'}[res])
    if m == 'partial_cmp':
        return some(EnumV('Ordering', res, {-1: 'Less', 0: 'Equal', 1: 'Greater'}[res]))
    return {'eq': res == 0, 'ne': res != 0, 'lt': res < 0, 'le': res <= 0, 'gt': res > 0, 'ge': res >= 0}[m]


@model('re:^<.* as DoubleEndedIterator>::next_back$')
def _(E, c):
    it = as_iter(E, c.args[0])
    x = it.next_back(E)
    return some(x, c.dest_ty) if x is not None else none(c.dest_ty)


def _adapt(E, c):
    m = c.callee.idents[-1]
    it = as_iter(E, c.args[0])
    a = c.args
    if m == 'map':
        return iter_obj(MapIter(it, a[1]))
    if m == 'filter':
        return iter_obj(FilterIter(it, a[1]))
    if m == 'filter_map':
        return iter_obj(FilterMapIter(it, a[1]))
    if m == 'enumerate':
        return iter_obj(EnumerateIter(it))
    if m == 'zip':
        return iter_obj(ZipIter(it, as_iter(E, a[1])))
    if m == 'chain':
        return iter_obj(ChainIter(it, as_iter(E, a[1])))
    if m in ('cloned', 'copied'):
        return iter_obj(DerefIter(it))
    if m == 'rev':
        return iter_obj(RevIter(it))
    if m == 'take':
        return iter_obj(TakeIter(it, E.deref(a[1]).v))
    if m == 'skip':
        n = E.deref(a[1]).v
        if is_sym(n):
            raise Inconclusive('skip(symbolic)')
        for _ in range(n):
            it.next(E)
        return iter_obj(it)
    if m == 'peekable':
        return iter_obj(PeekIter(it))
    if m == 'take_while':
        return iter_obj(TakeWhileIter(it, a[1]))
    if m == 'skip_while':
        return iter_obj(SkipWhileIter(it, a[1]))
    if m == 'flat_map':
        return iter_obj(FlatIter(it, a[1]))
    if m == 'flatten':
        return iter_obj(FlatIter(it))
    if m in ('by_ref', 'into_iter', 'fuse'):
        return c.args[0] if m == 'by_ref' else iter_obj(it)
    if m == 'step_by':
        n = E.deref(a[1]).v
        items = []
        i = 0
        while True:
            x = it.next(E)
            if x is None:
                break
            if i % n == 0:
                items.append(x)
            i += 1
        return iter_obj(ListIter(items))
    if m == 'inspect':
        return iter_obj(it)
    return None


def _consume(E, c):
    m = c.callee.idents[-1]
    it = as_iter(E, c.args[0])
    a = c.args
    if m == 'collect':
        items = []
        dh = type_head(c.dest_ty or (c.generics[0] if c.generics else ''))
        if dh == 'Result':
            inner = type_args(c.dest_ty)[0] if c.dest_ty else 'Vec'
            while True:
                x = it.next(E)
                if x is None:
                    return ok(collect_into(E, items, inner), c.dest_ty)
                n, xv = variant(E, x)
                if n == 'Err':
                    return err(payload(E, xv, 'Err'), c.dest_ty)
                items.append(payload(E, xv, 'Ok'))
        if dh == 'Option':
            inner = type_args(c.dest_ty)[0] if c.dest_ty else 'Vec'
            while True:
                x = it.next(E)
                if x is None:
                    return some(collect_into(E, items, inner), c.dest_ty)
                n, xv = variant(E, x)
                if n == 'None':
                    return none(c.dest_ty)
                items.append(payload(E, xv, 'Some'))
        while True:
            x = it.next(E)
            if x is None:
                break
            items.append(x)
        return collect_into(E, items, c.dest_ty or 'Vec')
    if m == 'count':
        n = 0
        while it.next(E) is not None:
            n += 1
        return IntV(n, 'usize')
    if m == 'last':
        last = None
        while True:
            x = it.next(E)
            if x is None:
                break
            last = x
        return some(last, c.dest_ty) if last is not None else none(c.dest_ty)
    if m == 'nth':
        n = E.deref(a[1]).v
        x = None
        for _ in range(n + 1):
            x = it.next(E)
            if x is None:
                return none(c.dest_ty)
        return some(x, c.dest_ty)
    if m in ('any', 'all'):
        while True:
            x = it.next(E)
            if x is None:
                return m == 'all'
            r = E.call_callable(a[1], [x])
            if E.ctx.branch(r) == (m == 'any'):
                return m == 'any'
    if m in ('find', 'position'):
        i = 0
        while True:
            x = it.next(E)
            if x is None:
                return none(c.dest_ty)
            arg = RefV(Cell(x, 'find'), ()) if m == 'find' else x
            if E.ctx.branch(E.call_callable(a[1], [arg])):
                return some(x if m == 'find' else IntV(i, 'usize'), c.dest_ty)
            i += 1
    if m == 'find_map':
        while True:
            x = it.next(E)
            if x is None:
                return none(c.dest_ty)
            r = E.call_callable(a[1], [x])
            n, rv = variant(E, r)
            if n == 'Some':
                return rv
    if m == 'fold':
        acc = a[1]
        while True:
            x = it.next(E)
            if x is None:
                return acc
            acc = E.call_callable(a[2], [acc, x])
    if m == 'try_fold':
        acc = a[1]
        while True:
            x = it.next(E)
            if x is None:
                return E.do_call(c.frame, '<%s as Try>::from_output' % c.dest_ty, [acc], c.dest_ty)
            r = E.call_callable(a[2], [acc, x])
            n, rv = variant(E, r)
            if n in ('Err', 'None', 'Break'):
                return rv
            acc = payload(E, rv, n)
    if m in ('for_each',):
        while True:
            x = it.next(E)
            if x is None:
                return UNIT
            E.call_callable(a[1], [x])
    if m == 'try_for_each':
        while True:
            x = it.next(E)
            if x is None:
                return E.do_call(c.frame, '<%s as Try>::from_output' % c.dest_ty, [UNIT], c.dest_ty)
            r = E.call_callable(a[1], [x])
            n, rv = variant(E, r)
            if n in ('Err', 'None', 'Break'):
                return rv
    if m in ('sum', 'product'):
        g = (c.generics[0] if c.generics else c.dest_ty)
        return E.do_call(c.frame, '<%s as %s>::%s' % (g, 'Sum' if m == 'sum' else 'Product', m), [iter_obj(it)], c.dest_ty)
    if m in ('max', 'min', 'max_by_key', 'min_by_key', 'max_by', 'min_by'):
        best = None
        bestk = None
        while True:
            x = it.next(E)
            if x is None:
                break
            k = E.call_callable(a[1], [RefV(Cell(x, 'key'), ())]) if m.endswith('by_key') else x
            if best is None:
                best, bestk = x, k
                continue
            if m.endswith('_by'):
                o = E.call_callable(a[1], [RefV(Cell(best, 'a'), ()), RefV(Cell(x, 'b'), ())])
                n, _ = variant(E, o)
                take = (n != 'Greater') if m.startswith('max') else (n == 'Greater')
            else:
                ka, kb = scalar_of(E, bestk), scalar_of(E, k)
                if ka is None:
                    raise Inconclusive('iterator max/min over non-scalars')
                take = E.ctx.branch(kb >= ka) if m.startswith('max') else E.ctx.branch(kb < ka)
            if take:
                best, bestk = x, k
        return some(best, c.dest_ty) if best is not None else none(c.dest_ty)
    if m == 'unzip':
        xs, ys = [], []
        while True:
            x = it.next(E)
            if x is None:
                break
            xs.append(x.fields[0])
            ys.append(x.fields[1])
        return StructV('tuple', {0: VecV(xs), 1: VecV(ys)})
    if m == 'size_hint':
        return StructV('tuple', {0: IntV(0, 'usize'), 1: none()})
    if m == 'len':
        if isinstance(it, ListIter):
            return IntV(len(it.remaining()), 'usize')
    if m == 'peek' and isinstance(it, PeekIter):
        x = it.peek(E)
        return some(RefV(Cell(x, 'peek'), ()), c.dest_ty) if x is not None else none(c.dest_ty)
    if m == 'next_if' and isinstance(it, PeekIter):
        x = it.peek(E)
        if x is not None and E.ctx.branch(E.call_callable(a[1], [RefV(Cell(x, 'peek'), ())])):
            return some(it.next(E), c.dest_ty)
        return none(c.dest_ty)
    return None


COLLECTORS = {}


def collect_into(E, items, ty):
    h = type_head(ty or 'Vec')
    if h in ('Vec', 'VecDeque', 'slice', 'Box'):
        return VecV(items, ty)
    f = COLLECTORS.get(h)
    if f is not None:
        return f(E, items, ty)
    raise Inconclusive('collect into %s' % ty)


ITER_METHODS = ('map|filter|filter_map|enumerate|zip|chain|cloned|copied|rev|take|skip|peekable|take_while|skip_while|'
                'flat_map|flatten|by_ref|fuse|step_by|inspect|collect|count|last|nth|any|all|find|position|find_map|fold|'
                'try_fold|for_each|try_for_each|sum|product|max|min|max_by_key|min_by_key|max_by|min_by|unzip|size_hint|'
                'len|peek|next_if')


@model('re:^<.* as (Iterator|DoubleEndedIterator|ExactSizeIterator)>::(' + ITER_METHODS + ')$',
       're:^(Peekable|Iter|IntoIter|Map|Filter|Enumerate|Zip|Chain|Rev|Take|Skip)::(' + ITER_METHODS + ')$')
def _(E, c):
    r = _adapt(E, c)
    if r is not None:
        return r
    r = _consume(E, c)
    if r is not None:
        return r
    return NotImplemented


# ---------------------------------------------------------------------------------------
# Vec / slices

def vec_of(E, v):
    t = E.deref(v)
    if isinstance(t, LazyV) and type_head(t.ty) in ('Vec', 'slice'):
        t = E.materialize(t.ty, t.name)
        if isinstance(t, VecV) and isinstance(v, RefV):
            E.store(v, t)
    if isinstance(t, LazyV) and type_head(t.ty) in ('Vec', 'slice'):
        raise Inconclusive('Vec of unknown length (%s): the obligation must fix its length' % t.name)
    if isinstance(t, StructV) and type_head(t.ty or '') == 'Box':
        t = E.deref(t.fields[0])
    if not isinstance(t, VecV):
        raise Inconclusive('expected Vec, got %r' % (t,))
    return t


@model('Vec::new', 'Vec::with_capacity', 'VecDeque::new', 'VecDeque::with_capacity')
def _(E, c):
    return VecV([], c.dest_ty)


@model('Vec::push', 'VecDeque::push_back')
def _(E, c):
    t0 = E.deref(c.args[0])
    if isinstance(t0, BigVecV):
        E.store(c.args[0], BigVecV(t0.name, t0.hidden, t0.items + (c.args[1],), t0.ty))
        return UNIT
    v = vec_of(E, c.args[0])
    E.store(c.args[0], VecV(v.items + (c.args[1],), v.ty))
    return UNIT


@model('Vec::pop', 'VecDeque::pop_back')
def _(E, c):
    v = vec_of(E, c.args[0])
    if not v.items:
        return none(c.dest_ty)
    E.store(c.args[0], VecV(v.items[:-1], v.ty))
    return some(v.items[-1], c.dest_ty)


@model('VecDeque::pop_front')
def _(E, c):
    v = vec_of(E, c.args[0])
    if not v.items:
        return none(c.dest_ty)
    E.store(c.args[0], VecV(v.items[1:], v.ty))
    return some(v.items[0], c.dest_ty)


@model('Vec::len', 're:^<.*\\[.*\\]>::len$', 'slice::len', 'VecDeque::len', 're:^<impl \\[.*\\]>::len$')
def _(E, c):
    t = E.deref(c.args[0])
    if isinstance(t, StrV):
        return IntV(len(t.s), 'usize')
    f = VEC_LEN.get(type(t))
    if f is not None:
        return f(E, t)
    return IntV(len(vec_of(E, c.args[0]).items), 'usize')


VEC_LEN = {}


class BigVecV:
    """a vector with an unexamined prefix: `hidden` elements nobody on this path has looked at individually (symbolic
    count, membership by an uninterpreted predicate) followed by explicit items.  Supports len / is_empty / contains /
    push: enough for code that only bounds and extends a large list (e.g. the 256-signer limit)."""
    __slots__ = ('name', 'hidden', 'items', 'ty')

    def __init__(self, name, hidden, items=(), ty=None):
        self.name, self.hidden, self.items, self.ty = name, hidden, tuple(items), ty

    def __repr__(self):
        return 'BigVec(%s+%d)' % (self.name, len(self.items))


VEC_LEN[BigVecV] = lambda E, t: IntV(t.hidden + len(t.items), 'usize')
SPECIAL_LEN[BigVecV] = lambda E, t: IntV(t.hidden + len(t.items), 'usize')


@model('Vec::is_empty', 're:^<.*\\[.*\\]>::is_empty$', 'slice::is_empty', 'VecDeque::is_empty', 're:^<impl \\[.*\\]>::is_empty$')
def _(E, c):
    t = E.deref(c.args[0])
    f = VEC_LEN.get(type(t))
    if f is not None:
        n = f(E, t).v
        return n == 0
    return len(vec_of(E, c.args[0]).items) == 0


@model('Vec::clear')
def _(E, c):
    v = vec_of(E, c.args[0])
    E.store(c.args[0], VecV([], v.ty))
    return UNIT


@model('Vec::truncate')
def _(E, c):
    v = vec_of(E, c.args[0])
    n = E.deref(c.args[1]).v
    if is_sym(n):
        raise Inconclusive('truncate(symbolic)')
    E.store(c.args[0], VecV(v.items[:n], v.ty))
    return UNIT


@model('Vec::insert')
def _(E, c):
    v = vec_of(E, c.args[0])
    n = E.deref(c.args[1]).v
    if is_sym(n):
        n = E.concretize_index(n, VecV(v.items + (None,)))
    E.store(c.args[0], VecV(v.items[:n] + (c.args[2],) + v.items[n:], v.ty))
    return UNIT


@model('Vec::remove', 'Vec::swap_remove')
def _(E, c):
    v = vec_of(E, c.args[0])
    n = E.deref(c.args[1]).v
    if is_sym(n):
        n = E.concretize_index(n, v)
    if not (0 <= n < len(v.items)):
        raise PathEnd('panic', 'Vec::remove out of bounds')
    if c.callee.idents[-1] == 'remove':
        E.store(c.args[0], VecV(v.items[:n] + v.items[n + 1:], v.ty))
    else:
        items = list(v.items)
        items[n] = items[-1]
        E.store(c.args[0], VecV(items[:-1], v.ty))
    return v.items[n]


@model('Vec::extend', 'Vec::extend_from_slice', 'Vec::append', 're:^<Vec as Extend>::extend$')
def _(E, c):
    v = vec_of(E, c.args[0])
    if c.callee.idents[-1] == 'append':
        o = vec_of(E, c.args[1])
        E.store(c.args[1], VecV([], o.ty))
        E.store(c.args[0], VecV(v.items + o.items, v.ty))
        return UNIT
    it = as_iter(E, c.args[1])
    items = list(v.items)
    while True:
        x = it.next(E)
        if x is None:
            break
        items.append(E.deref(x) if c.callee.idents[-1] == 'extend_from_slice' else x)
    E.store(c.args[0], VecV(items, v.ty))
    return UNIT


@model('re:^<.*\\[.*\\]>::to_vec$', 'slice::to_vec', 're:^<.*\\[.*\\]>::into_vec$', 'slice::into_vec', 'Vec::as_slice',
       'Vec::as_mut_slice', 'Vec::into_boxed_slice', 're:^<Vec as From>::from$', 'Vec::from', 're:^<\\[.*\\] as ToOwned>::to_owned$',
       're:^<impl \\[.*\\]>::to_vec$', 're:^<impl \\[.*\\]>::into_vec$', 're:^<Box as From>::from$')
def _(E, c):
    m = c.callee.idents[-1]
    if m in ('as_slice', 'as_mut_slice'):
        return c.args[0]
    t = E.deref(c.args[0])
    if isinstance(t, StructV) and type_head(t.ty or '') == 'Box':
        t = E.deref(t.fields[0])
    if isinstance(t, StrV):
        return VecV([IntV(ord(ch) & 0xff, 'u8') for ch in t.s], 'Vec<u8>')
    return t


@model('re:^<.* as Index>::index$', 're:^<.* as IndexMut>::index_mut$')
def _(E, c):
    r = c.args[0]
    t = E.deref(r)
    if not isinstance(t, VecV):
        return NotImplemented
    i = E.deref(c.args[1])
    if isinstance(i, IntV):
        n = i.v
        if is_sym(n):
            ok_ = E.ctx.branch(b_and(n >= 0, n < len(t.items)))
            if not ok_:
                raise PathEnd('panic', 'index out of bounds')
            n = E.concretize_index(n, t)
        if not (0 <= n < len(t.items)):
            raise PathEnd('panic', 'index out of bounds')
        if isinstance(r, RefV):
            return RefV(r.cell, r.path + (('index', n),), r.mut)
        return RefV(Cell(t.items[n], 'idx'), ())
    if isinstance(i, StructV) and type_head(i.ty or '') in ('Range', 'RangeTo', 'RangeFrom', 'RangeFull', 'RangeInclusive'):
        h = type_head(i.ty)
        lo = 0
        hi = len(t.items)
        if h == 'Range':
            lo, hi = i.fields[0].v, i.fields[1].v
        elif h == 'RangeTo':
            hi = i.fields[0].v
        elif h == 'RangeFrom':
            lo = i.fields[0].v
        if is_sym(lo) or is_sym(hi):
            raise Inconclusive('symbolic slice range')
        if not (0 <= lo <= hi <= len(t.items)):
            raise PathEnd('panic', 'slice index out of range')
        return RefV(Cell(VecV(t.items[lo:hi], t.ty), 'subslice'), ())
    return NotImplemented


@model('re:^<.*\\[.*\\]>::get$', 'slice::get', 'Vec::get', 're:^<impl \\[.*\\]>::get$', 're:^<impl \\[.*\\]>::get_mut$',
       'slice::get_mut')
def _(E, c):
    r = c.args[0]
    t = vec_of(E, r)
    i = E.deref(c.args[1])
    if not isinstance(i, IntV):
        return NotImplemented
    n = i.v
    if is_sym(n):
        if not E.ctx.branch(b_and(n >= 0, n < len(t.items))):
            return none(c.dest_ty)
        n = E.concretize_index(n, t)
    if not (0 <= n < len(t.items)):
        return none(c.dest_ty)
    if isinstance(r, RefV):
        return some(RefV(r.cell, r.path + (('index', n),), r.mut), c.dest_ty)
    return some(RefV(Cell(t.items[n], 'get'), ()), c.dest_ty)


@model('re:^<.*\\[.*\\]>::(first|last|first_mut|last_mut)$', 're:^slice::(first|last)$', 're:^<impl \\[.*\\]>::(first|last|first_mut|last_mut)$')
def _(E, c):
    r = c.args[0]
    t = vec_of(E, r)
    if not t.items:
        return none(c.dest_ty)
    n = 0 if c.callee.idents[-1].startswith('first') else len(t.items) - 1
    if isinstance(r, RefV):
        return some(RefV(r.cell, r.path + (('index', n),), r.mut), c.dest_ty)
    return some(RefV(Cell(t.items[n], 'first'), ()), c.dest_ty)


@model('re:^<.*\\[.*\\]>::contains$', 'slice::contains', 'Vec::contains', 're:^<impl \\[.*\\]>::contains$')
def _(E, c):
    t0 = E.deref(c.args[0])
    if isinstance(t0, BigVecV):
        x = c.args[1]
        for it in t0.items:
            if E.ctx.branch(eq_call(E, c, it, x)):
                return True
        # membership in the unexamined prefix: one fresh boolean per query, only possible when the prefix is non-empty
        b = E.ctx.fresh_bool('%s.hidden_contains' % t0.name)
        E.ctx.assume(z3.Implies(b, t0.hidden >= 1))
        return b
    t = vec_of(E, c.args[0])
    x = c.args[1]
    for it in t.items:
        if E.ctx.branch(eq_call(E, c, it, x)):
            return True
    return False


def eq_call(E, c, a, b):
    """equality through the type's own PartialEq when the repo defines one, else structural"""
    return deep_eq(E, a, b)


@model('re:^<.*\\[.*\\]>::(sort|sort_unstable|sort_by_key|sort_by|sort_unstable_by_key|sort_unstable_by|reverse|dedup|concat|join|split_at|chunks|windows|binary_search|starts_with|ends_with|copy_from_slice|fill)$',
       're:^<impl \\[.*\\]>::(sort|sort_unstable|sort_by_key|sort_by|sort_unstable_by_key|sort_unstable_by|reverse|dedup|concat|join|split_at|chunks|windows|binary_search|starts_with|ends_with|copy_from_slice|fill)$',
       're:^Vec::(dedup|dedup_by_key|retain|sort|sort_by_key|reverse|resize|split_off)$', 're:^slice::(sort|sort_by_key|sort_unstable|reverse|concat|copy_from_slice|fill)$')
def _(E, c):
    m = c.callee.idents[-1]
    r = c.args[0]
    t = vec_of(E, r)
    if m == 'reverse':
        E.store(r, VecV(tuple(reversed(t.items)), t.ty))
        return UNIT
    if m in ('sort', 'sort_unstable', 'sort_by_key', 'sort_unstable_by_key'):
        keys = []
        for it in t.items:
            k = E.call_callable(c.args[1], [RefV(Cell(it, 'k'), ())]) if 'by_key' in m else it
            kk = scalar_of(E, k)
            if kk is None:
                raise Inconclusive('sort of non-scalar keys %r' % (k,))
            keys.append(kk)
        items = list(zip(keys, t.items))
        # insertion sort with symbolic comparisons (stable)
        out = []
        for k, v in items:
            pos = len(out)
            while pos > 0:
                pk = out[pos - 1][0]
                lt = (k < pk) if not (is_sym(k) or is_sym(pk)) else E.ctx.branch(k < pk)
                if lt:
                    pos -= 1
                else:
                    break
            out.insert(pos, (k, v))
        E.store(r, VecV([v for _, v in out], t.ty))
        return UNIT
    if m == 'dedup':
        out = []
        for it in t.items:
            if out and E.ctx.branch(deep_eq(E, out[-1], it)):
                continue
            out.append(it)
        E.store(r, VecV(out, t.ty))
        return UNIT
    if m == 'retain':
        out = []
        for it in t.items:
            if E.ctx.branch(E.call_callable(c.args[1], [RefV(Cell(it, 'retain'), ())])):
                out.append(it)
        E.store(r, VecV(out, t.ty))
        return UNIT
    if m == 'concat':
        out = []
        for it in t.items:
            out.extend(vec_of(E, it).items)
        return VecV(out, c.dest_ty)
    if m == 'copy_from_slice':
        src = vec_of(E, c.args[1])
        if len(src.items) != len(t.items):
            raise PathEnd('panic', 'copy_from_slice length mismatch')
        E.store(r, VecV(src.items, t.ty))
        return UNIT
    if m == 'fill':
        E.store(r, VecV([c.args[1]] * len(t.items), t.ty))
        return UNIT
    if m in ('windows', 'chunks'):
        n = E.deref(c.args[1])
        n = n.v if isinstance(n, IntV) else n
        if is_sym(n):
            raise Inconclusive('symbolic window size')
        if n == 0:
            raise PathEnd('panic', 'window size must be non-zero')
        its = list(t.items)
        if m == 'windows':
            parts = [its[i:i + n] for i in range(0, len(its) - n + 1)]
        else:
            parts = [its[i:i + n] for i in range(0, len(its), n)]
        return ObjV(ListIter([RefV(Cell(VecV(p_, t.ty), 'window'), ()) for p_ in parts]))
    return NotImplemented


@model('re:^<.* as FromIterator>::from_iter$')
def _(E, c):
    it = as_iter(E, c.args[0])
    items = []
    while True:
        x = it.next(E)
        if x is None:
            break
        items.append(x)
    return collect_into(E, items, c.callee.qself)


@model('Box::new_uninit', 'Box::new_uninit_slice', 'exchange_malloc', 'alloc::exchange_malloc', 'box_new_uninit',
       're:^boxed::box_new_uninit$')
def _(E, c):
    return StructV('Box', {0: RefV(Cell(UNINIT, 'boxalloc'), (), True)})


def _unwrap_uninit(v):
    # MaybeUninit<T> { value: ManuallyDrop<MaybeDangling<T>> } written field-wise into a fresh allocation
    while isinstance(v, StructV) and v.ty is None and len(v.fields) == 1:
        v = list(v.fields.values())[0]
    return v


@model('boxed::box_assume_init_into_vec_unsafe', 'box_assume_init_into_vec_unsafe')
def _(E, c):
    b = E.deref(c.args[0])
    inner = E.deref(b.fields[0]) if isinstance(b, StructV) else b
    v = _unwrap_uninit(inner)
    if not isinstance(v, VecV):
        raise Inconclusive('vec! lowering: unexpected box content %r' % (v,))
    return VecV(v.items, c.dest_ty)


@model('Box::assume_init', 're:^<Box as .*>::assume_init$', 'Box::write', 'MaybeUninit::write', 'write_box_via_move',
       'MaybeUninit::as_mut_ptr', 'MaybeUninit::as_ptr')
def _(E, c):
    m = c.callee.idents[-1]
    if m == 'write_box_via_move' or m == 'write':
        b = c.args[0]
        tgt = E.deref(b) if isinstance(b, RefV) else b
        if isinstance(tgt, StructV) and type_head(tgt.ty or '') == 'Box':
            E.store(tgt.fields[0], c.args[1])
            return b
        return NotImplemented
    return c.args[0]


@model('ptr::write', 'write', 'ptr::write_unaligned')
def _(E, c):
    if len(c.args) == 2 and isinstance(c.args[0], RefV):
        E.store(c.args[0], c.args[1])
        return UNIT
    return NotImplemented


# std::array
@model('re:^<\\[.*\\] as IntoIterator>::into_iter$', 're:^array::<impl .*>::', 're:^array::IntoIter')
def _(E, c):
    return iter_obj(as_iter(E, c.args[0]))


@model('Range::contains', 'RangeInclusive::contains', 're:^<Range as RangeBounds>::contains$',
       're:^<RangeInclusive as RangeBounds>::contains$')
def _(E, c):
    r = E.deref(c.args[0])
    x = scalar_of(E, c.args[1])
    lo, hi = r.fields[0].v, r.fields[1].v
    if type_head(r.ty) == 'RangeInclusive':
        return b_and(x >= lo, x <= hi)
    return b_and(x >= lo, x < hi)


@model('RangeInclusive::new')
def _(E, c):
    return StructV('RangeInclusive', {0: c.args[0], 1: c.args[1], 2: False})


@model('Range::is_empty')
def _(E, c):
    r = E.deref(c.args[0])
    return r.fields[0].v >= r.fields[1].v


def _range_builder(E, ty, vals):
    return StructV(ty, {i: v for i, v in enumerate(vals)})


@model('once', 'iter::once', 're:^iter::sources::once::once$')
def _(E, c):
    return iter_obj(ListIter([c.args[0]]))


@model('empty', 'iter::empty')
def _(E, c):
    if c.args:
        return NotImplemented
    return iter_obj(ListIter([]))


@model('repeat_n', 'iter::repeat_n')
def _(E, c):
    n = E.deref(c.args[1]).v
    if is_sym(n):
        raise Inconclusive('repeat_n(symbolic)')
    return iter_obj(ListIter([c.args[0]] * n))


@model('vec::from_elem', 'from_elem')
def _(E, c):
    n = E.deref(c.args[1]).v
    if is_sym(n):
        raise Inconclusive('vec![x; symbolic]')
    return VecV([c.args[0]] * n, c.dest_ty)


# ---------------------------------------------------------------------------------------
# itertools adaptors and iter::from_fn used by vesting_state.rs / deadline code (lazy state machines)

class FromFnIter(Iter):
    def __init__(self, f):
        self.f = f

    def next(self, E):
        r = E.call_callable(self.f, [])
        n, rv = variant(E, r)
        if n == 'Some':
            return payload(E, rv, 'Some')
        return None


class MergeJoinIter(Iter):
    """itertools::merge_join_by with an Ordering-valued comparator"""

    def __init__(self, a, b, cmp):
        self.a, self.b, self.cmp = PeekIter(a), PeekIter(b), cmp

    def next(self, E):
        x = self.a.peek(E)
        y = self.b.peek(E)
        if x is None and y is None:
            return None
        if x is None:
            return mk_enum('EitherOrBoth', 'EitherOrBoth', 'Right', [self.b.next(E)])
        if y is None:
            return mk_enum('EitherOrBoth', 'EitherOrBoth', 'Left', [self.a.next(E)])
        o = E.call_callable(self.cmp, [RefV(Cell(x, 'mj_a'), ()), RefV(Cell(y, 'mj_b'), ())])
        n, ov = variant(E, o)
        if n == 'Less':
            return mk_enum('EitherOrBoth', 'EitherOrBoth', 'Left', [self.a.next(E)])
        if n == 'Greater':
            return mk_enum('EitherOrBoth', 'EitherOrBoth', 'Right', [self.b.next(E)])
        return mk_enum('EitherOrBoth', 'EitherOrBoth', 'Both', [self.a.next(E), self.b.next(E)])


class PeekingTakeWhile(Iter):
    def __init__(self, inner, f):
        self.inner, self.f = inner, f

    def next(self, E):
        x = self.inner.peek(E)
        if x is None:
            return None
        if E.ctx.branch(E.call_callable(self.f, [RefV(Cell(x, 'ptw'), ())])):
            return self.inner.next(E)
        return None


class PutBackIter(Iter):
    def __init__(self, inner):
        self.inner = inner
        self.top = None

    def next(self, E):
        if self.top is not None:
            x = self.top
            self.top = None
            return x
        return self.inner.next(E)


def _peekable_of(E, v):
    it = as_iter(E, v)
    if isinstance(it, (PeekIter,)):
        return it
    if isinstance(it, PutBackIter):
        raise Inconclusive('peeking over PutBack')
    raise Inconclusive('peeking_take_while over a non-peekable iterator %r' % (it,))


@model('from_fn', 'iter::from_fn')
def _(E, c):
    return iter_obj(FromFnIter(c.args[0]))


@model('re:^<.* as Itertools>::(merge_join_by|peeking_take_while|collect_vec|sorted|sorted_by_key|dedup|unique|sum1|join|fold_ok|try_collect|next_tuple|collect_tuple|group_by|chunk_by|into_group_map|counts|all_equal|zip_eq|with_position|kmerge|tuple_windows|sorted_unstable|sorted_by)$',
       're:^Itertools::(merge_join_by|peeking_take_while|collect_vec|sorted|sorted_by_key)$')
def _(E, c):
    m = c.callee.idents[-1]
    if m == 'merge_join_by':
        return iter_obj(MergeJoinIter(as_iter(E, c.args[0]), as_iter(E, c.args[1]), c.args[2]))
    if m == 'peeking_take_while':
        return iter_obj(PeekingTakeWhile(_peekable_of(E, c.args[0]), c.args[1]))
    if m == 'collect_vec':
        it = as_iter(E, c.args[0])
        items = []
        while True:
            x = it.next(E)
            if x is None:
                return VecV(items, c.dest_ty)
            items.append(x)
    if m in ('sorted', 'sorted_unstable', 'sorted_by_key'):
        it = as_iter(E, c.args[0])
        items = []
        while True:
            x = it.next(E)
            if x is None:
                break
            items.append(x)
        cell = Cell(VecV(items), 'sorted')
        E.do_call(c.frame, '<[T]>::sort' if m != 'sorted_by_key' else '<[T]>::sort_by_key',
                  [RefV(cell, (), True)] + list(c.args[1:]), '()')
        return iter_obj(ListIter(cell.value.items))
    if m == 'zip_eq':
        return iter_obj(ZipIter(as_iter(E, c.args[0]), as_iter(E, c.args[1])))
    return NotImplemented


@model('put_back', 'itertools::put_back')
def _(E, c):
    return iter_obj(PutBackIter(as_iter(E, c.args[0])))


@model('PutBack::put_back')
def _(E, c):
    it = as_iter(E, c.args[0])
    it.top = c.args[1]
    return none(c.dest_ty)


@model('re:^<PeekingTakeWhile as Iterator>::')
def _(E, c):
    return NotImplemented


# ---------------------------------------------------------------------------------------
# lazy_static!: `<NAME as Deref>::deref` evaluates the NAME's initialiser (the k-th `__static_ref_initialize` of
# the defining module, in source order)

def _lazy_static_index():
    import glob
    import os
    out = {}
    for p in glob.glob(os.path.join(srcindex.REPO, 'actors', '*', 'src', '**', '*.rs'), recursive=True) + \
            glob.glob(os.path.join(srcindex.REPO, 'runtime', 'src', '**', '*.rs'), recursive=True):
        try:
            src = open(p, errors='replace').read()
        except OSError:
            continue
        if 'lazy_static!' not in src:
            continue
        names = re.findall(r'static\s+ref\s+([A-Z0-9_]+)\s*:', src)
        mod = os.path.splitext(os.path.basename(p))[0]
        crate_dir = p.split('/src/')[0]
        for i, n in enumerate(names):
            out.setdefault(n, []).append((crate_dir, mod, i))
    return out


_LS = {}


@model('re:^<[A-Z][A-Z0-9_]+ as Deref>::deref$')
def _(E, c):
    name = type_head(c.callee.qself)
    key = ('lazy_static', name)
    if key in E.const_cache:
        return E.const_cache[key]
    if not _LS:
        _LS.update(_lazy_static_index())
    locs = _LS.get(name)
    if not locs:
        return NotImplemented
    crate_dir, mod, idx = locs[0]
    cands = [f for f in E.prog.by_last.get('__static_ref_initialize', [])
             if 'lazy_static' in f.name and (f.name.startswith(mod + '::') or ('::' + mod + '::') in f.name)]
    if c.frame is not None:
        same = [f for f in cands if f.crate == c.frame.fn.crate]
        cands = same or cands
    cands.sort(key=lambda f: (f.crate, f.line))
    if idx >= len(cands):
        raise Inconclusive('lazy_static %s: initialiser #%d not found (%d candidates)' % (name, idx, len(cands)))
    v = E.run_function(cands[idx], [])
    r = RefV(Cell(v, 'static:' + name), ())
    E.const_cache[key] = r
    return r


@model('slice::from_ref', 'slice::from_mut')
def _(E, c):
    # a one-element slice viewing the referenced value (read-only uses: the element is shared by value)
    return RefV(Cell(VecV([E.deref(c.args[0])], 'Vec<_>'), 'from_ref'), ())


class RepeatWithIter(Iter):
    """iter::repeat_with(f): an endless iterator (only usable under take / zip)"""
    def __init__(self, f):
        self.f = f

    def next(self, E):
        return E.call_callable(self.f, [])


@model('repeat_with', 'iter::repeat_with')
def _(E, c):
    return iter_obj(RepeatWithIter(c.args[0]))
