"""C05 — the epoch cron never fails and keeps every active miner on schedule (partial, see DESIGN.md).

cron.epoch_tick and power.process_deferred_cron_events executed whole with every pattern of failing callbacks;
the miner-side clauses tagged C05 in miner_money.py (no 'balance invariants broken', fresh-miner cron finding);
deadline arithmetic is decided bit-precisely by the Kani harnesses (c05_deadline_*)."""
from .common import *
from .models_imports import mk_enum
from . import miner_money

PROPERTY = 'C05'
CRATES = ['fil_actors_runtime', 'fil_actor_miner', 'fil_actor_cron', 'fil_actor_power']
ENGINES = ['M', 'K']


# ---- cron.epoch_tick ------------------------------------------------------------------------------------

def run_cron(n):
    def run(E):
        rt, rtref = new_rt(E)
        ents = [StructV('state::Entry', {0: E.materialize(ADDR, 'entry%d.receiver' % i), 1: E.materialize('u64', 'entry%d.method' % i)}) for i in range(n)]
        rt.state = StructV('State', {0: VecV(ents, 'Vec<Entry>')})
        E.ctx.env['entries'] = ents
        fn = find_fn(E, 'fil_actor_cron', 'epoch_tick')
        return E.run_function(fn, [rtref]), rt
    return run


def props_cron(E, res):
    env = res.ctx.env
    rt = env['rt']
    if res.kind != 'return':
        return [('the tick never panics (%s)' % str(res.info)[:60], False)]
    ents = env['entries']
    if is_err(res.value):
        return [('the tick fails only for a caller other than the system actor', b_not(b_and(rt.caller.proto == 0, rt.caller.key == 0)))]
    P = [('only the system actor ticks', b_and(rt.caller.proto == 0, rt.caller.key == 0)),
         ('every entry is attempted exactly once, in order', len(rt.sends) == len(ents))]
    for s, e in zip(rt.sends, ents):
        P.append(('entry called as registered', b_and(addr_eq(s.to, e.fields[0]), zv(s.method) == e.fields[1].v, s.value == 0)))
    P.append(('the tick succeeds whatever the entries do', True))
    return P


# ---- power.process_deferred_cron_events -----------------------------------------------------------------

def run_power_tick(shape):
    """shape: list (per epoch in the processing window) of event counts"""
    def run(E):
        rt, rtref = new_rt(E)
        PS = Fields('actors/power/src/state.rs', 'State')
        st = StructV('State', {}, lazy='st')
        first = fget(E, st, PS['first_cron_epoch'], 'i64').v
        E.ctx.assume(z3.And(first >= 0, rt.epoch == first + len(shape) - 1))
        mc = fget(E, st, PS['miner_count'], 'i64').v
        E.ctx.assume(z3.And(mc >= 0, mc < 2**40))
        qbase = 'map(st.%d)' % PS['cron_event_queue']
        qb = BaseInfo(closed=True)
        E.ctx.memo[('mapbase', qbase)] = qb
        events = []
        for i, k in enumerate(shape):
            if k == 0:
                continue       # no queue entry for this epoch
            evs = []
            for j in range(k):
                a = E.materialize(ADDR, 'ev%d_%d.miner' % (i, j))
                E.ctx.assume(z3.And(a.proto == 0, a.key >= 100))
                evs.append(StructV('state::CronEvent', {0: a, 1: BlockV(None, 'ev%d_%d.payload' % (i, j))}))
                events.append((i, a))
            ab = BaseInfo(closed=True)
            aname = 'amt_epoch%d' % i
            E.ctx.memo[('mapbase', aname)] = ab
            for j, ev_ in enumerate(evs):
                ab.entries.append([('int', j), True, ev_, IntV(j, 'u64')])
            acid = new_cid(E, MapM(aname, (), 'state::CronEvent', 'amt'), 'amtroot')
            ek = IntV(first + i, 'i64')
            qb.entries.append([('int', first + i), True, acid, OpaqueV('bytes', ek)])
        rt.state = st
        E.ctx.env.update(dict(events=events, first=first, mc=mc, shape=shape))
        # power-state invariant for the claims that get looked up: non-negative power, a supported window PoSt proof type,
        # and totals / above-minimum count that include every claim at or above the consensus minimum
        claims_base = 'map(st.%d)' % PS['claims']
        tot_raw = fget(E, st, PS['total_raw_byte_power'], 'BigInt').v
        tot_qa = fget(E, st, PS['total_quality_adj_power'], 'BigInt').v
        above = fget(E, st, PS['miner_above_min_power_count'], 'i64').v
        E.ctx.assume(z3.And(tot_raw >= 0, tot_qa >= 0, above >= 0, above <= mc))
        MINP = 10 << 40
        acc = {'raw': 0, 'qa': 0, 'n': 0, 'cnt': 0}

        def hook(E2, m, kt, val):
            if m.base != claims_base:
                return None
            CL = Fields('actors/power/src/state.rs', 'Claim')
            raw = z3.Int('%s.raw' % val.name)
            qa = z3.Int('%s.qa' % val.name)
            E2.ctx.assume(z3.And(raw >= 0, qa >= 0))
            acc['raw'] = acc['raw'] + z3.If(raw >= MINP, raw, 0)
            acc['qa'] = acc['qa'] + z3.If(raw >= MINP, qa, 0)
            acc['n'] = acc['n'] + z3.If(raw >= MINP, 1, 0)
            acc['cnt'] += 1
            E2.ctx.assume(z3.And(tot_raw >= acc['raw'], tot_qa >= acc['qa'], above >= acc['n'], mc >= acc['cnt']))
            return StructV('state::Claim', {CL['window_post_proof_type']: mk_enum('RegisteredPoStProof', 'RegisteredPoStProof', 'StackedDRGWindow32GiBV1P1'),
                                            CL['raw_byte_power']: BigV(raw), CL['quality_adj_power']: BigV(qa)})
        E.ctx.env['map_value_hook'] = hook
        # claims: arbitrary (discovered on lookup); claim values keep the consensus-minimum bookkeeping consistent
        rew = LazyV('rewret', 'fil_actors_runtime::reward::ThisEpochRewardReturn')
        fn = find_fn(E, 'fil_actor_power', 'process_deferred_cron_events')
        return E.run_function(fn, [rtref, rew]), rt
    return run


def props_power_tick(E, res):
    env = res.ctx.env
    rt = env['rt']
    ctx = res.ctx
    if res.kind != 'return':
        return [('cron processing never panics (%s)' % str(res.info)[:60], False)]
    if is_err(res.value):
        return [('cron processing never fails, whatever the miner callbacks do', False)]
    PS = Fields('actors/power/src/state.rs', 'State')
    st1 = rt.state
    P = [('first_cron_epoch advances to now + 1', fget(E, st1, PS['first_cron_epoch'], 'i64').v == rt.epoch + 1)]
    qcid = fget(E, st1, PS['cron_event_queue'], CID)
    qm = heap_get(E, qcid) if isinstance(qcid, CidV) else None
    for i, k in enumerate(env['shape']):
        if k == 0:
            continue
        if isinstance(qm, MapM):
            p, v = final_lookup(E, qm, ('int', env['first'] + i))
            P.append(('events of epoch first+%d are removed from the queue' % i, p is False))
        else:
            P.append(('queue rewritten', False))
    # every event of a miner WITH a claim is delivered exactly once, in queue order; none for miners without
    claims_base = 'map(st.%d)' % PS['claims']
    expect = []
    for (i, a) in env['events']:
        e = decided_entry(ctx, base_info(E, claims_base).entries, ('addr', a.proto, a.key))
        if e is not None and e[1] is True:
            expect.append(a)
    P.append(('one callback per queued event of a miner holding a claim', len(rt.sends) == len(expect)))
    failed = []
    for s, a in zip(rt.sends, expect):
        P.append(('callback goes to the enrolled miner, OnDeferredCronEvent, no value', b_and(addr_eq(s.to, a), zv(s.method) == 12, s.value == 0)))
        if not s.ok:
            failed.append(a)
    # a failing miner loses its claim; nobody else does
    ccid = fget(E, st1, PS['claims'], CID)
    cm = heap_get(E, ccid) if isinstance(ccid, CidV) else None
    deleted = []
    if isinstance(cm, MapM):
        seen = []
        for (k, pres, val, _) in reversed(cm.over):
            if any(implied(ctx, key_eq(k, s)) for s in seen):
                continue
            seen.append(k)
            if pres is False:
                deleted.append(k)
            else:
                P.append(('claims are only deleted, never rewritten, by cron processing', False))
    for k in deleted:
        P.append(('only miners whose callback failed lose their claim', any_of([key_eq(k, ('addr', a.proto, a.key)) for a in failed])))
    for a in failed:
        P.append(('a miner whose callback failed loses its claim', any(implied(ctx, key_eq(k, ('addr', a.proto, a.key))) for k in deleted)))
    return P


def build(tier):
    O = []
    for n in ([0, 1, 2, 3] if tier == 'quick' else [0, 1, 2, 3, 4]):
        O.append(Obligation('cron.epoch_tick[entries=%d]' % n, run_cron(n), props_cron,
                            descr='every entry attempted once in order; Ok for every pattern of failing entries', bounds='%d entries' % n, max_paths=20000))
    shapes = [[0], [1], [2], [1, 1], [0, 2]] if tier == 'quick' else [[0], [1], [2], [3], [1, 1], [0, 2], [2, 1], [1, 0, 1]]
    for sh in shapes:
        O.append(Obligation('power.process_deferred_cron_events[events per epoch=%s]' % sh, run_power_tick(sh), props_power_tick,
                            descr='never fails; all due events removed; one callback per event of a claimed miner; failing miners lose their claim, nobody else',
                            bounds='window of %d epoch(s), events per epoch %s; claims map symbolic' % (len(sh), sh), max_paths=100000))
    O += miner_money.build_for('C05', tier)
    return O
