"""Pure power / fee formulas of the miner actor (policy.rs) as function-level obligations: quality-adjusted power of a
sector (C02, C10: verified space counts ten-fold, nothing else does) and the daily-fee cap (C15)."""
from .common import *
from mirsym.models_core import mk_enum

MINER = 'fil_actor_miner'
SIZES = {'_2KiB': 2 << 10, '_8MiB': 8 << 20, '_512MiB': 512 << 20, '_32GiB': 32 << 30, '_64GiB': 64 << 30}


def run_qa(vname):
    def run(E):
        rt, rtref = new_rt(E)
        size = EnumV('fvm_shared::sector::SectorSize', SIZES[vname], vname, {})      # explicit discriminants = byte sizes
        dur = z3.Int('duration')
        v = z3.Int('verified_weight')
        sz = SIZES[vname]
        E.ctx.assume(z3.And(dur >= 1, dur < 2**24, v >= 0, v <= sz * dur))     # verified space-time never exceeds the sector's
        E.ctx.env.update(dict(sz=sz, dur=dur, v=v))
        fn = find_fn(E, MINER, 'qa_power_for_weight')
        return E.run_function(fn, [size, IntV(dur, 'i64'), RefV(Cell(BigV(v), 'vw'), ())]), rt
    return run


def props_qa(E, res):
    env = res.ctx.env
    if res.kind != 'return':
        return [('no panic (%s)' % str(res.info)[:60], False)]
    qa = big(E, res.value)
    sz, dur, v = env['sz'], env['dur'], env['v']
    st = sz * dur
    return [('quality-adjusted power lies between the raw size and ten times the raw size', z3.And(qa >= sz, qa <= 10 * sz)),
            ('a sector without verified data has exactly its raw size as quality-adjusted power', z3.Implies(v == 0, qa == sz)),
            ('a sector full of verified data has exactly ten times its raw size', z3.Implies(v == st, qa == 10 * sz)),
            ('quality-adjusted power = size x weighted average of the multipliers (1 for the rest, 10 for verified space-time), within the 2^-20 fixed-point rounding',
             z3.And(qa * st <= sz * (st + 9 * v), (qa + 1) * st + (st * sz) / 2**20 + sz >= sz * (st + 9 * v)))]


def run_fee_cap(E):
    rt, rtref = new_rt(E)
    fee, rew = z3.Int('daily_fee'), z3.Int('day_reward')
    E.ctx.assume(z3.And(fee >= 0, rew >= 0))
    E.ctx.env.update(dict(fee=fee, rew=rew))
    fn = find_fn(E, MINER, 'daily_proof_fee_payable')
    pol = E.do_call(None, '<MockRT as Runtime>::policy', [rtref], '&Policy')
    return E.run_function(fn, [pol, RefV(Cell(BigV(fee), 'f'), ()), RefV(Cell(BigV(rew), 'r'), ())]), rt


def props_fee_cap(E, res):
    env = res.ctx.env
    if res.kind != 'return':
        return [('no panic (%s)' % str(res.info)[:60], False)]
    out = big(E, res.value)
    fee, rew = env['fee'], env['rew']
    return [('the daily fee charged is the fee due, capped at half of the expected day reward, never negative',
             z3.And(out >= 0, out <= fee, out <= rew / 2, z3.Or(out == fee, out == rew / 2)))]


def run_fee_adjust(E):
    rt, rtref = new_rt(E)
    fee, o, n = z3.Int('daily_fee'), z3.Int('old_qa'), z3.Int('new_qa')
    E.ctx.assume(z3.And(fee >= 0, o >= 1, n >= 0))
    E.ctx.env.update(dict(fee=fee, o=o, n=n))
    fn = find_fn(E, MINER, 'daily_proof_fee_adjust')
    return E.run_function(fn, [RefV(Cell(BigV(fee), 'f'), ()), RefV(Cell(BigV(o), 'o'), ()), RefV(Cell(BigV(n), 'n'), ())]), rt


def props_fee_adjust(E, res):
    env = res.ctx.env
    if res.kind != 'return':
        return [('no panic (%s)' % str(res.info)[:60], False)]
    out = big(E, res.value)
    fee, o, n = env['fee'], env['o'], env['n']
    return [('the daily fee follows the power in proportion (floor), unchanged when the power is', z3.And(out >= 0, out * o <= fee * n, (out + 1) * o > fee * n, z3.Implies(o == n, out == fee)))]


def build_qa(tier):
    O = []
    for vn in (['_32GiB', '_2KiB'] if tier == 'quick' else list(SIZES)):
        O.append(Obligation('miner.qa_power_for_weight[%s]' % vn.strip('_'), run_qa(vn), props_qa,
                            descr='QA power of a sector: raw size when nothing is verified, ten-fold when everything is, the weighted average in between (fixed-point floor)',
                            bounds='sector size %s; duration 1..2^24 epochs; verified space-time 0..size x duration' % vn.strip('_'), max_paths=100, expect_ok=False, wall_s=120))
    return O


def build_fees(tier):
    return [Obligation('miner.daily_proof_fee_payable', run_fee_cap, props_fee_cap, descr='daily fee = min(fee due, expected day reward / 2)', bounds='all amounts symbolic >= 0', max_paths=100, expect_ok=False),
            Obligation('miner.daily_proof_fee_adjust', run_fee_adjust, props_fee_adjust, descr='fee scaled by new/old power (floor)', bounds='all amounts symbolic', max_paths=100, expect_ok=False)]
