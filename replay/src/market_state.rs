//! Adapter: FUNCTION-LEVEL replay of `fil_actor_market::State` methods (no runtime, no message).
//!
//! A `State` is built on a fresh `MemoryBlockstore` (`State::new(&store)`, then the two balance tables and
//! the three totals are overwritten from the scenario) and ONE public method is called directly:
//!
//! scenario = {"actor":"market_state",
//!   "method": "process_deal_update" | "process_deal_update_x2" | "process_slashed_deal" | "process_deal_init_timed_out",
//!   "deal": {"client":id, "provider":id, "start":i64, "end":i64, "price":amount,
//!            "provider_collateral":amount, "client_collateral":amount,
//!            ["piece_size":u64=2048], ["verified":bool=false], ["label":string=""]},
//!   "deal_state": {"sector_number":u64, "sector_start_epoch":i64, "last_updated_epoch":i64, "slash_epoch":i64},
//!                                                   (not needed for process_deal_init_timed_out)
//!   "epoch": i64                                    the `epoch` argument of process_deal_update*
//!   "epoch1": i64                                   process_deal_update_x2 only, see below
//!   "escrow": [{"addr":id, "amount":amount, ["present":bool = amount != 0]}],   entries of State.escrow_table
//!   "locked": [ ...same... ],                                                   entries of State.locked_table
//!   "totals": {"client_collateral":amount, "provider_collateral":amount, "storage_fee":amount}}
//!
//! Table entries are written with the underlying `Map2::set` (BalanceTable.0 is public), so a listed entry
//! with present=true is stored AS GIVEN: a zero-valued (or negative) entry really exists in the HAMT, which
//! `BalanceTable::add` could never produce.  present=false => no entry whatever "amount" says.
//! The proposal's piece cid is `make_piece_cid(b"replay")`; `deal_cid` is the real deal cid (blake2b-256 /
//! dag-cbor cid of the serialized proposal, what `fil_actor_market::deal_cid` computes -- that helper needs a
//! `Runtime`, `put_cbor` yields the same cid).  The pending-proposals set is empty.
//!
//! process_deal_update_x2: `process_deal_update(.., epoch1)`; if that returned Ok with remove == false the
//! caller's bookkeeping is applied (`deal_state.last_updated_epoch = epoch1`, as settle_deal_payments and the
//! cron handler do) and `process_deal_update(.., epoch)` is called on the same state.  "result"/"error"/"ret"
//! are those of the LAST call made, "result1"/"ret1" those of the first, "calls" says how many were made.
//!
//! Observations: result ("Ok" | "Err(<exit code>)" | "panic: ..."), error, ret ({"slashed","payment",
//! "completed","remove"} for process_deal_update*, {"slashed"} for the other two), escrow / locked =
//! [{"id","amount"}] sorted by id with the balance (`BalanceTable::get`, 0 when absent) of EVERY address the
//! scenario mentions (deal.client, deal.provider, all "addr" of escrow/locked), totals (same three keys),
//! escrow_entries / locked_entries = the raw HAMT entries [{"id","amount"}] including zero-valued ones.
//! A failed call is not rolled back: the tables and totals show what the method left behind in `State`.

use std::collections::BTreeSet;

use anyhow::{anyhow, bail, Context, Result};
use cid::Cid;
use fil_actor_market::balance_table::BalanceTable;
use fil_actor_market::{DealProposal, DealState, Label, State};
use fil_actors_runtime::test_blockstores::MemoryBlockstore;
use fil_actors_runtime::test_utils::make_piece_cid;
use fil_actors_runtime::ActorError;
use fvm_ipld_encoding::CborStore;
use fvm_shared::address::Address;
use fvm_shared::econ::TokenAmount;
use fvm_shared::piece::PaddedPieceSize;
use multihash_codetable::Code;
use num_traits::Zero;
use serde_json::{json, Map, Value};

use crate::json_util::*;
use crate::runtime::catch_panic;

type UpdateRet = (TokenAmount, TokenAmount, bool, bool);

pub fn replay(sc: &Value) -> Result<Value> {
    let method = req_str(sc, "method")?;
    if !matches!(
        method,
        "process_deal_update" | "process_deal_update_x2" | "process_slashed_deal" | "process_deal_init_timed_out"
    ) {
        bail!(
            "unknown market_state method '{}' (methods: process_deal_update, process_deal_update_x2, \
             process_slashed_deal, process_deal_init_timed_out)",
            method
        );
    }
    let store = MemoryBlockstore::new();

    // ---- arguments
    let d = req(sc, "deal")?;
    let deal = DealProposal {
        piece_cid: make_piece_cid(b"replay"),
        piece_size: PaddedPieceSize(opt_u64(d, "piece_size", 2048)?),
        verified_deal: opt_bool(d, "verified", false)?,
        client: Address::new_id(req_u64(d, "client").context("deal")?),
        provider: Address::new_id(req_u64(d, "provider").context("deal")?),
        label: Label::String(opt(d, "label").and_then(|v| v.as_str()).unwrap_or("").to_string()),
        start_epoch: req_i64(d, "start").context("deal")?,
        end_epoch: req_i64(d, "end").context("deal")?,
        storage_price_per_epoch: req_token(d, "price").context("deal")?,
        provider_collateral: req_token(d, "provider_collateral").context("deal")?,
        client_collateral: req_token(d, "client_collateral").context("deal")?,
    };
    let deal_state = match opt(sc, "deal_state") {
        Some(s) => Some(DealState {
            sector_number: opt_u64(s, "sector_number", 0)?,
            sector_start_epoch: req_i64(s, "sector_start_epoch").context("deal_state")?,
            last_updated_epoch: req_i64(s, "last_updated_epoch").context("deal_state")?,
            slash_epoch: req_i64(s, "slash_epoch").context("deal_state")?,
        }),
        None => None,
    };
    let need_state = || deal_state.ok_or_else(|| anyhow!("malformed scenario: missing key 'deal_state'"));
    let deal_cid: Cid =
        store.put_cbor(&deal, Code::Blake2b256).map_err(|e| anyhow!("cannot compute the deal cid: {}", e))?;

    // ---- pre-state
    let mut st = State::new(&store).map_err(|e| anyhow!("State::new failed: {}", e))?;
    let mut mentioned: BTreeSet<u64> = BTreeSet::new();
    mentioned.insert(deal.client.id().unwrap());
    mentioned.insert(deal.provider.id().unwrap());
    st.escrow_table = build_table(&store, sc, "escrow", &mut mentioned)?;
    st.locked_table = build_table(&store, sc, "locked", &mut mentioned)?;
    if let Some(t) = opt(sc, "totals") {
        st.total_client_locked_collateral = opt_token(t, "client_collateral")?;
        st.total_provider_locked_collateral = opt_token(t, "provider_collateral")?;
        st.total_client_storage_fee = opt_token(t, "storage_fee")?;
    }

    // ---- call
    let mut obs = Map::new();
    match method {
        "process_deal_update" => {
            let ds = need_state()?;
            let epoch = req_i64(sc, "epoch")?;
            let r = catch_panic(|| st.process_deal_update(&store, &ds, &deal, &deal_cid, epoch));
            put_outcome(&mut obs, "result", "error", "ret", r.map(|x| x.map(|v| update_ret_json(&v))));
        }
        "process_deal_update_x2" => {
            let ds = need_state()?;
            let epoch = req_i64(sc, "epoch")?;
            let epoch1 = req_i64(sc, "epoch1")?;
            let r1 = catch_panic(|| st.process_deal_update(&store, &ds, &deal, &deal_cid, epoch1));
            let go_on = matches!(&r1, Ok(Ok((_, _, _, false))));
            if go_on {
                put_outcome(&mut obs, "result1", "error1", "ret1", r1.map(|x| x.map(|v| update_ret_json(&v))));
                let ds2 = DealState { last_updated_epoch: epoch1, ..ds };
                let r2 = catch_panic(|| st.process_deal_update(&store, &ds2, &deal, &deal_cid, epoch));
                put_outcome(&mut obs, "result", "error", "ret", r2.map(|x| x.map(|v| update_ret_json(&v))));
                obs.insert("calls".into(), json!(2));
            } else {
                // first call failed, panicked or asked for removal of the deal: the callers stop here
                let j = r1.map(|x| x.map(|v| update_ret_json(&v)));
                put_outcome(&mut obs, "result1", "error1", "ret1", j.clone());
                put_outcome(&mut obs, "result", "error", "ret", j);
                obs.insert("calls".into(), json!(1));
            }
        }
        "process_slashed_deal" => {
            let ds = need_state()?;
            let r = catch_panic(|| st.process_slashed_deal(&store, &deal, &ds));
            put_outcome(&mut obs, "result", "error", "ret", r.map(|x| x.map(|v| json!({"slashed": token_json(&v)}))));
        }
        "process_deal_init_timed_out" => {
            let r = catch_panic(|| st.process_deal_init_timed_out(&store, &deal));
            put_outcome(&mut obs, "result", "error", "ret", r.map(|x| x.map(|v| json!({"slashed": token_json(&v)}))));
        }
        _ => unreachable!(),
    }

    // ---- post-state
    obs.insert(
        "totals".into(),
        json!({
            "client_collateral": token_json(&st.total_client_locked_collateral),
            "provider_collateral": token_json(&st.total_provider_locked_collateral),
            "storage_fee": token_json(&st.total_client_storage_fee),
        }),
    );
    let mut errs = vec![];
    for (name, root) in [("escrow", &st.escrow_table), ("locked", &st.locked_table)] {
        match dump_table(&store, root, &mentioned) {
            Ok((balances, entries)) => {
                obs.insert(name.into(), Value::Array(balances));
                obs.insert(format!("{}_entries", name), Value::Array(entries));
            }
            Err(e) => errs.push(format!("{} table: {:#}", name, e)),
        }
    }
    if !errs.is_empty() {
        obs.insert("state_error".into(), json!(errs.join("; ")));
    }
    obs.insert("deal_cid".into(), json!(deal_cid.to_string()));
    Ok(Value::Object(obs))
}

fn update_ret_json(r: &UpdateRet) -> Value {
    json!({"slashed": token_json(&r.0), "payment": token_json(&r.1), "completed": r.2, "remove": r.3})
}

/// result / error / ret of one call: Err(panic message) | Ok(Err(actor error)) | Ok(Ok(ret as json))
fn put_outcome(
    obs: &mut Map<String, Value>,
    k_result: &str,
    k_error: &str,
    k_ret: &str,
    r: std::result::Result<std::result::Result<Value, ActorError>, String>,
) {
    match r {
        Err(msg) => {
            obs.insert(k_result.into(), json!(format!("panic: {}", msg)));
            obs.insert(k_error.into(), json!(msg));
        }
        Ok(Err(e)) => {
            obs.insert(k_result.into(), json!(format!("Err({})", e.exit_code().value())));
            obs.insert(k_error.into(), json!(e.msg()));
        }
        Ok(Ok(v)) => {
            obs.insert(k_result.into(), json!("Ok"));
            obs.insert(k_ret.into(), v);
        }
    }
}

/// Builds one balance table from scenario[key]; returns its root.  Every listed address is added to `mentioned`.
fn build_table(store: &MemoryBlockstore, sc: &Value, key: &'static str, mentioned: &mut BTreeSet<u64>) -> Result<Cid> {
    let mut tbl = BalanceTable::new(store, key);
    let mut seen = BTreeSet::new();
    for (i, e) in list(sc, key)?.iter().enumerate() {
        let id = match opt(e, "addr").or_else(|| opt(e, "id")) {
            Some(a) => u64_of(a).with_context(|| format!("{}[{}].addr", key, i))?,
            None => bail!("malformed scenario: {}[{}] has no 'addr'", key, i),
        };
        if !seen.insert(id) {
            bail!("malformed scenario: address {} listed twice in '{}'", id, key);
        }
        mentioned.insert(id);
        let amount = opt_token(e, "amount").with_context(|| format!("{}[{}]", key, i))?;
        let present = opt_bool(e, "present", !amount.is_zero())?;
        if present {
            // raw HAMT write: BalanceTable::add refuses negative sums and never stores a zero
            tbl.0
                .set(&Address::new_id(id), amount)
                .map_err(|e| anyhow!("cannot store {}[{}]: {}", key, i, e))?;
        }
    }
    tbl.root().map_err(|e| anyhow!("cannot flush the {} table: {}", key, e))
}

/// (balances of the mentioned addresses, raw entries), both sorted by id
fn dump_table(store: &MemoryBlockstore, root: &Cid, mentioned: &BTreeSet<u64>) -> Result<(Vec<Value>, Vec<Value>)> {
    let tbl = BalanceTable::from_root(store, root, "dump").map_err(|e| anyhow!("cannot load: {}", e))?;
    let mut balances = vec![];
    for id in mentioned {
        let b = tbl.get(&Address::new_id(*id)).map_err(|e| anyhow!("cannot read balance of {}: {}", id, e))?;
        balances.push(json!({"id": id, "amount": token_json(&b)}));
    }
    let mut raw: Vec<(String, Option<u64>, Value)> = vec![];
    tbl.0
        .for_each(|a: Address, v: &TokenAmount| {
            raw.push((a.to_string(), a.id().ok(), json!({"id": addr_json(&a), "amount": token_json(v)})));
            Ok(())
        })
        .map_err(|e| anyhow!("cannot iterate: {}", e))?;
    raw.sort_by(|x, y| (x.1.is_none(), x.1, &x.0).cmp(&(y.1.is_none(), y.1, &y.0)));
    Ok((balances, raw.into_iter().map(|(_, _, v)| v).collect()))
}
