"""publish_storage_deals executed whole from MIR (C08: unique publication by the provider's controller; C06: exactly the
deal's obligations get locked).  Slim bounds: unverified deals (no datacap transfer), stateless validation
(validate_deal: signature, epochs, collateral bounds) cut to an arbitrary verdict - its authentication half is decided in
C08 deal_proposal_is_internally_valid -, power/baseline queries cut, scheduling table write cut."""
from .common import *
from .market_common import MARKET, F, CRATES, DP
from .miner_money import tagged, for_property


def run_publish(n):
    def run(E):
        rt, rtref = new_rt(E)
        rt.state = LazyV('st', 'State')
        ST, DPF, DSF = F()
        env = E.ctx.env
        CDP = Fields('actors/market/src/deal.rs', 'ClientDealProposal')
        deals = []
        props = []
        for i in range(n):
            p = LazyV('prop%d' % i, DP)
            client = fget(E, p, DPF['client'], ADDR)
            provider = fget(E, p, DPF['provider'], ADDR)
            E.ctx.assume(z3.And(client.proto == 0, provider.proto == 0, client.key >= 100, provider.key >= 100))
            ver = fget(E, p, DPF['verified_deal'], 'bool')
            E.ctx.assume(z3.Not(ver) if is_sym(ver) else (not ver))
            for nm in ('storage_price_per_epoch', 'provider_collateral', 'client_collateral'):
                E.ctx.assume(fget(E, p, DPF[nm], TOKEN).v >= 0)
            st_, en_ = fget(E, p, DPF['start_epoch'], 'i64').v, fget(E, p, DPF['end_epoch'], 'i64').v
            E.ctx.assume(z3.And(st_ >= 0, en_ > st_, en_ < 2**40))          # what validate_deal establishes (duration bounds)
            props.append(p)
            deals.append(StructV('deal::ClientDealProposal', {CDP['proposal']: p, CDP['client_signature']: LazyV('sig%d' % i, 'fvm_shared::crypto::signature::Signature')}))
        E.ctx.assume(z3.And(rt.epoch >= 0, rt.epoch < 2**40))
        nid = fget(E, rt.state, ST['next_id'], 'u64').v
        E.ctx.assume(nid < 2**62)
        verdicts = []

        def cut_validate(E2, c):
            b = z3.Bool('validate_deal%d.ok' % len(verdicts))
            verdicts.append(b)
            env['verdicts'] = list(verdicts)
            if E2.ctx.branch(b):
                return ok(UNIT, c.dest_ty)
            return err(models_fvm.actor_error(E2, 16), c.dest_ty)
        E.cuts['validate_deal'] = cut_validate
        E.cuts['request_current_baseline_power'] = lambda E2, c: ok(BigV(z3.Int('baseline_power')), c.dest_ty)
        E.cuts['request_current_network_power'] = lambda E2, c: ok(StructV('tuple', {0: BigV(z3.Int('net_raw')), 1: BigV(z3.Int('net_qa'))}), c.dest_ty)
        def cut_put_by_epoch(E2, c):
            v = E2.deref(c.args[2])
            items = getattr(v, 'items', None)
            if items is None:
                raise Inconclusive('put_deals_by_epoch: expected a vector of (epoch, id) pairs, got %r' % (v,))
            env['scheduled'] = [(zv(E2.deref(fget(E2, E2.deref(t), 0, 'i64'))), zv(E2.deref(fget(E2, E2.deref(t), 1, 'u64')))) for t in items]
            return ok(UNIT, c.dest_ty)
        E.cuts['State::put_deals_by_epoch'] = cut_put_by_epoch

        def cut_next(E2, c):
            r = E2.materialize('i64', E2.ctx.fresh_name('next_update'))
            env['next_calls'] = env.get('next_calls', []) + [dict(id=zv(c.args[0]), interval=zv(c.args[1]), earliest=zv(c.args[2]), ret=r.v)]
            return r
        E.cuts['next_update_epoch'] = cut_next
        ebase, lbase = 'map(st.%d)' % ST['escrow_table'], 'map(st.%d)' % ST['locked_table']

        def mhook(E2, m, kt, val):
            if m.base in (ebase, lbase):
                E2.ctx.assume(val.v >= 0)
            return None
        env['map_value_hook'] = mhook

        def hook(E2, rt2, rec, nm):
            # IsControllingAddress answer of the provider miner (typed), everything else: plain success
            if implied(E2.ctx, zv(rec.method) == 348244887):
                ans = E2.ctx.fresh_bool('is_controlling')
                env['is_controlling'] = ans
                env['asked'] = rec
                return ('ok', some(BlockV(StructV('ext::miner::IsControllingAddressReturn', {0: ans}))))
            return ('ok', None)
        rt.send_hook = hook
        env.update(dict(props=props, nid=nid, ebase=ebase, lbase=lbase, verdicts=[]))
        params = StructV('types::PublishStorageDealsParams', {0: VecV(deals, 'Vec<ClientDealProposal>')})
        fn = find_fn(E, MARKET, 'publish_storage_deals')
        return E.run_function(fn, [rtref, params]), rt
    return run


def props_publish(E, res):
    env = res.ctx.env
    ctx = res.ctx
    rt = env['rt']
    if res.kind != 'return':
        return [tagged('C08', 'no panic (%s)' % str(res.info)[:60], False)]
    if is_err(res.value):
        return [tagged('C08', 'a refused batch commits nothing', rt.commits == 0)]
    ST, DPF, DSF = F()
    P = []
    ic = env.get('is_controlling')
    P.append(tagged('C08', "deals are published only by a controlling address of the provider (the provider miner was asked and said yes)", ic if ic is not None else False))
    asked = env.get('asked')
    p0 = env['props'][0]
    prov0 = fget(E, p0, DPF['provider'], ADDR)
    if asked is not None:
        P.append(tagged('C08', 'the miner asked is the provider named in the deals', addr_eq(asked.to, prov0)))
    r = E.deref(res.value.fields[('Ok', 0)])
    RF = Fields('actors/market/src/types.rs', 'PublishStorageDealsReturn')
    ids = E.deref(fget(E, r, RF['ids'], 'Vec<u64>')).items
    nid1 = fget(E, rt.state, ST['next_id'], 'u64').v
    P.append(tagged('C08', 'deal ids are fresh and consecutive: next_id advances by the number of published deals',
                    z3.And(nid1 == env['nid'] + len(ids), *[E.deref(x).v == env['nid'] + i for i, x in enumerate(ids)])))
    P.append(tagged('C08', 'at least one deal is published by a successful call', len(ids) >= 1))
    pm = heap_get(E, fget(E, rt.state, ST['proposals'], CID))
    qm = heap_get(E, fget(E, rt.state, ST['pending_proposals'], CID))
    written = [(k, val) for (k, pres, val, _) in pm.over if pres] if isinstance(pm, MapM) else []
    P.append(tagged('C08', 'one proposal recorded per published deal', len(written) == len(ids)))
    verdicts = env.get('verdicts', [])
    pub = []
    for (k, val) in written:
        val = E.deref(val)
        # which input proposal is it?
        idx = [i for i, p in enumerate(env['props']) if val is p or (isinstance(val, LazyV) and val.name == p.name) or getattr(val, 'lazy', None) == p.name]
        if len(idx) != 1:
            P.append(tagged('C08', 'recorded proposals are proposals of the message', False))
            continue
        i = idx[0]
        pub.append(i)
        P.append(tagged('C08', 'only proposals that passed validation (signature, terms) are published', verdicts[i] if i < len(verdicts) else False))
        P.append(tagged('C08', 'every published deal names the provider that was asked', addr_eq(fget(E, env['props'][i], DPF['provider'], ADDR), prov0)))
    P.append(tagged('C08', 'no proposal is published twice by one message', len(set(pub)) == len(pub)))
    # scheduling: every published deal enters the cron queue once, at its first update slot at or after its start epoch
    # (next_update_epoch is cut here; `market.next_update_epoch` decides that its result is in [earliest, earliest + interval))
    sched = env.get('scheduled')
    calls = env.get('next_calls', [])
    if sched is None:
        P.append(tagged('C08,C05', 'published deals are put on the cron schedule', False))
    else:
        P.append(tagged('C08,C05', 'one cron-schedule entry per published deal', len(sched) == len(ids)))
        for j, (ep, did) in enumerate(sched):
            c_ = calls[j] if j < len(calls) else None
            if c_ is None or j >= len(ids):
                P.append(tagged('C08,C05', 'each schedule entry comes from the first-update computation of its deal', False))
                continue
            i = pub[j] if j < len(pub) else None
            start = fget(E, env['props'][i], DPF['start_epoch'], 'i64').v if i is not None else None
            P.append(tagged('C08,C05', 'each published deal is scheduled under its own id at the first update slot computed from its own id, the policy interval and its start epoch',
                            z3.And(did == E.deref(ids[j]).v, c_['id'] == did, ep == c_['ret'], c_['interval'] == 86400, (c_['earliest'] == start) if start is not None else z3.BoolVal(False))))
    if isinstance(qm, MapM):
        P.append(tagged('C08', 'each published proposal becomes pending exactly once', len([1 for (k, pres, v, _) in qm.over if pres]) == len(ids)))
    # C06: exactly the obligations of the published deals get locked
    def table_delta(field, base, a):
        cid = fget(E, rt.state, ST[field], CID)
        m = heap_get(E, cid) if isinstance(cid, CidV) else None
        if not isinstance(m, MapM):
            return 0
        kt = ('addr', a.proto, a.key)
        fp, fv = final_lookup(E, m, kt)
        bp, bv = base_lookup(E, base, kt)
        if fp is None and bp is None:
            return 0
        new = 0 if fp is False else (big(E, fv) if fp is True else z3.If(fp, big(E, fv), 0)) if fp is not None else None
        old = 0 if bp is False else (big(E, bv) if bp is True else z3.If(bp, big(E, bv), 0)) if bp is not None else None
        if new is None:
            return 0
        return new - (old if old is not None else 0)
    parties = {}
    for i in pub:
        p = env['props'][i]
        cl, pr = fget(E, p, DPF['client'], ADDR), fget(E, p, DPF['provider'], ADDR)
        fee = fget(E, p, DPF['storage_price_per_epoch'], TOKEN).v * (fget(E, p, DPF['end_epoch'], 'i64').v - fget(E, p, DPF['start_epoch'], 'i64').v)
        parties.setdefault(('c', i), (cl, fget(E, p, DPF['client_collateral'], TOKEN).v + fee))
        parties.setdefault(('p', i), (pr, fget(E, p, DPF['provider_collateral'], TOKEN).v))
    def table_final(field, base, a):
        cid = fget(E, rt.state, ST[field], CID)
        m = heap_get(E, cid) if isinstance(cid, CidV) else None
        kt = ('addr', a.proto, a.key)
        if isinstance(m, MapM):
            fp, fv = final_lookup(E, m, kt)
        else:
            fp, fv = base_lookup(E, base, kt)
        if fp is None:
            return None
        return 0 if fp is False else (big(E, fv) if fp is True else z3.If(fp, big(E, fv), 0))
    for (kind, i), (a, amt) in parties.items():
        lk, es = table_final('locked_table', env['lbase'], a), table_final('escrow_table', env['ebase'], a)
        if lk is not None and es is not None:
            P.append(tagged('C06', "after publication every party's locked balance is still covered by its escrow", lk <= es))
    if len(pub) == 1:
        (cl, camt), (pr, pamt) = parties[('c', pub[0])], parties[('p', pub[0])]
        same = addr_eq(cl, pr)
        dc, dp = table_delta('locked_table', env['lbase'], cl), table_delta('locked_table', env['lbase'], pr)
        P.append(tagged('C06', "the client's locked balance grows by exactly collateral + total storage fee, the provider's by exactly its collateral",
                        z3.If(same, dc == camt + pamt, z3.And(dc == camt, dp == pamt))))
        P.append(tagged('C06', 'publishing does not move escrow', z3.And(table_delta('escrow_table', env['ebase'], cl) == 0, table_delta('escrow_table', env['ebase'], pr) == 0)))
    return P


def build_for(pid, tier):
    wrap = lambda f: (lambda E, res: for_property(pid, f(E, res)))
    O = []
    for n in ([1] if tier == 'quick' else [1, 2]):      # two deals: ~9000 paths, 2-4 min (thorough tier)
        O.append(Obligation('market.publish_storage_deals[%d deals]' % n, run_publish(n), wrap(props_publish),
                            descr="deals are published only by a controlling address of their provider miner, only when validated, once each, with fresh consecutive ids; exactly the deal's obligations get locked",
                            bounds='%d unverified deal proposal(s) with ID client / provider addresses; CUTS: validate_deal (arbitrary verdict), power / baseline queries, scheduling-table write; nested sends succeed (typed IsControllingAddress answer)' % n,
                            max_paths=400000, wall_s=400 if tier == 'quick' else 1500))
    return O
