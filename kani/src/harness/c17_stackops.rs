//! C17 – PUSH0..PUSH32, DUP1..DUP16, SWAP1..SWAP16, POP (instructions/stack.rs) on a real
//! `Stack` built with real `push` calls.
//!
//! PUSHn (Yellow Paper 9.4.1 / App. H): the n bytes following the opcode, big-endian; bytes
//! beyond the end of the code read as 0 ("c(x) = 0 if x >= |code|" – the STOP padding), i.e.
//! a truncated immediate is zero-padded ON THE RIGHT.  `push::<LEN>(stack, code)` gets
//! `code = bytecode[pc+1..]` (def_push! in instructions/mod.rs) and returns LEN.
//! DUPn: duplicate the n-th item (1 = top).  SWAPn: exchange top with the (n+1)-th item.
use super::util::*;
use crate::EVM_CONTRACT_STACK_UNDERFLOW;
use crate::interpreter::instructions::stack as ops;
use crate::interpreter::stack::Stack;
use fil_actors_evm_shared::uints::U256;

const CODE_MAX: usize = 34;

/// Oracle: byte k (0 = least significant) of the pushed word.
fn ref_push_byte(code: &[u8; CODE_MAX], len: usize, n: usize, k: usize) -> u8 {
    if k >= n {
        0
    } else {
        let j = n - 1 - k; // position inside the immediate, 0 = most significant
        if j < len { code[j] } else { 0 }
    }
}

fn push_case<const LEN: usize>(code: &[u8; CODE_MAX], len: usize, k: usize) {
    let mut s = Stack::new();
    let below = any_u256();
    assert!(s.push(below).is_ok());
    let r = ops::push::<LEN>(&mut s, &code[..len]);
    assert!(r.is_ok());
    assert!(r.unwrap() == LEN);
    assert!(s.len() == 2);
    let w = s.pop().unwrap();
    let got = (w.0[k / 8] >> (8 * (k % 8))) as u8;
    assert!(got == ref_push_byte(code, len, LEN, k));
    let b = s.pop().unwrap();
    assert!(eq(&b, &below));
}

macro_rules! push_harness {
    ($name:ident, $unw:literal, [$($n:literal),+], $lo:literal) => {
        #[kani::proof]
        #[kani::unwind($unw)]
        fn $name() {
            let code: [u8; CODE_MAX] = kani::any();
            let len: usize = kani::any();
            kani::assume(len <= CODE_MAX);
            let k: usize = kani::any();
            kani::assume(k < 32);
            let sel: usize = kani::any();
            match sel {
                $($n => push_case::<$n>(&code, len, k),)+
                _ => kani::assume(false),
            }
            // witnesses: a truncated immediate whose last present byte is non-zero, and a full one
            kani::cover!(sel > $lo && len + 1 == sel && code[len - 1] == 0xab && k == 1);
            kani::cover!(len == CODE_MAX && code[0] == 0xcd && k + 1 == sel);
        }
    };
}
push_harness!(c17_push_0_8, 36, [0, 1, 2, 3, 4, 5, 6, 7, 8], 1);
push_harness!(c17_push_9_16, 36, [9, 10, 11, 12, 13, 14, 15, 16], 8);
push_harness!(c17_push_17_24, 36, [17, 18, 19, 20, 21, 22, 23, 24], 16);
push_harness!(c17_push_25_32, 36, [25, 26, 27, 28, 29, 30, 31, 32], 24);

const DV: usize = 17;

/// All K items of the stack equal `expect[0..K]` (expect[0] deepest) – read with ONE
/// `pop_many::<K>` (O(1): it only moves the length) and compared limb-wise.
fn whole_stack_is<const K: usize>(s: &mut Stack, expect: &[U256; DV + 1]) {
    assert!(s.len() == K);
    let r = *s.pop_many::<K>().unwrap();
    let mut j = 0;
    while j < K {
        assert!(eq(&r[j], &expect[j]));
        j += 1;
    }
    assert!(s.is_empty());
}

/// A stack of depth D holding vals[0..D]: a clone of the 17-deep base stack (built once with
/// 17 real `push` calls of fully symbolic words) cut down with one `pop_many`.
fn at_depth<const CUT: usize>(base: &Stack) -> Stack {
    let mut s = base.clone();
    assert!(s.pop_many::<CUT>().is_ok());
    s
}

/// DUP<H> on depth D (both literals): Ok iff H <= D; then depth D+1, new top = vals[D-H],
/// everything below unchanged.  Otherwise STACK_UNDERFLOW and the stack is unchanged.
fn dup_case<const H: usize, const D: usize, const CUT: usize, const D1: usize>(base: &Stack, vals: &[U256; DV]) {
    let mut s = at_depth::<CUT>(base);
    assert!(s.len() == D && D + CUT == DV && D1 == D + 1);
    let mut expect = [U256([0; 4]); DV + 1];
    let mut k = 0;
    while k < DV {
        expect[k] = vals[k];
        k += 1;
    }
    match ops::dup::<H>(&mut s) {
        Ok(()) => {
            assert!(H <= D);
            expect[D] = vals[D - H];
            whole_stack_is::<D1>(&mut s, &expect);
        }
        Err(e) => {
            assert!(H > D && e.exit_code() == EVM_CONTRACT_STACK_UNDERFLOW);
            whole_stack_is::<D>(&mut s, &expect);
        }
    }
}

/// SWAP<H> on depth D: Ok iff H < D; exchanges vals[D-1] and vals[D-1-H] only.
fn swap_case<const H: usize, const D: usize, const CUT: usize, const D1: usize>(base: &Stack, vals: &[U256; DV]) {
    let mut s = at_depth::<CUT>(base);
    assert!(s.len() == D && D + CUT == DV);
    let mut expect = [U256([0; 4]); DV + 1];
    let mut k = 0;
    while k < DV {
        expect[k] = vals[k];
        k += 1;
    }
    match ops::swap::<H>(&mut s) {
        Ok(()) => {
            assert!(H < D);
            expect[D - 1] = vals[D - 1 - H];
            expect[D - 1 - H] = vals[D - 1];
        }
        Err(e) => {
            assert!(H >= D && e.exit_code() == EVM_CONTRACT_STACK_UNDERFLOW);
        }
    }
    whole_stack_is::<D>(&mut s, &expect);
}

macro_rules! height_harness {
    ($name:ident, $case:ident, [$($n:literal),+]) => {
        /// For every listed height H the depths H-1, H, H+1 (underflow edge, exact, one
        /// spare) are enumerated; the 17 stack words are fully symbolic.
        #[kani::proof]
        #[kani::unwind(20)]
        fn $name() {
            let vals: [U256; DV] = any_vals();
            let base = build(&vals, DV);
            $(
                $case::<$n, { $n - 1 }, { DV + 1 - $n }, { $n }>(&base, &vals);
                $case::<$n, { $n }, { DV - $n }, { $n + 1 }>(&base, &vals);
                $case::<$n, { $n + 1 }, { DV - 1 - $n }, { $n + 2 }>(&base, &vals);
            )+
            kani::cover!(vals[0].0[0] != vals[1].0[0]);
        }
    };
}
height_harness!(c17_dup_1_4, dup_case, [1, 2, 3, 4]);
height_harness!(c17_dup_5_8, dup_case, [5, 6, 7, 8]);
height_harness!(c17_dup_9_12, dup_case, [9, 10, 11, 12]);
height_harness!(c17_dup_13_16, dup_case, [13, 14, 15, 16]);
height_harness!(c17_swap_1_4, swap_case, [1, 2, 3, 4]);
height_harness!(c17_swap_5_8, swap_case, [5, 6, 7, 8]);
height_harness!(c17_swap_9_12, swap_case, [9, 10, 11, 12]);
height_harness!(c17_swap_13_16, swap_case, [13, 14, 15, 16]);

/// POP: removes exactly the top item; underflow error on an empty stack (depths 0..=3).
#[kani::proof]
#[kani::unwind(10)]
fn c17_pop() {
    let mut d = 0;
    while d <= 3 {
        let vals: [U256; MAXV] = any_vals();
        let mut s = build(&vals, d);
        match ops::pop(&mut s) {
            Ok(()) => {
                assert!(d >= 1);
                drain_equals(&mut s, &vals, d - 1);
            }
            Err(e) => {
                assert!(d == 0 && e.exit_code() == EVM_CONTRACT_STACK_UNDERFLOW);
                assert!(s.len() == 0);
            }
        }
        d += 1;
    }
    kani::cover!(d == 4);
}
