#!/bin/bash
# runs every registered check (quick tier) on /repo and validates the evidence files
cd /verif
for p in $(python3 -c "import json; print(' '.join(c['property_id'] for c in json.load(open('MANIFEST.json'))['checks']))") "$@"; do
  s=$(date +%s); ./check $p --tier ${TIER:-quick} > .cache/runall_$p.log 2>&1; rc=$?
  echo "$p rc=$rc $(( $(date +%s)-s ))s $(tail -1 .cache/runall_$p.log | cut -c1-160)"
done
python3-vt - <<'PY'
import json,jsonschema,glob
sch=json.load(open('/root/.vp/EVIDENCE.schema.json'))
for f in sorted(glob.glob('/verif/evidence/*.json')):
    e=json.load(open(f)); jsonschema.validate(e,sch); print(f.split('/')[-1], e['coverage']['obligations'], e['coverage']['discharged'], e['wall_s'])
PY
