"""C03 — collateral ledgers are exact: pledge, deposits and the network pledge total.

Miner side: every pledge notification equals the change of (initial_pledge + locked_funds); locked_funds = sum of the
vesting table (miner_money + C14 State wrappers); ledger mutators reject negative totals.
Power side: update_pledge_total adds exactly the delta for a caller with a claim and rejects a negative total."""
from .common import *
from . import miner_money, C14
from .miner_common import *

PROPERTY = 'C03'
CRATES = ['fil_actors_runtime', 'fil_actor_miner', 'fil_actor_power']
POWER_CRATE = 'fil_actor_power'


def run_ledger(which):
    def run(E):
        rt, rtref = new_rt(E)
        pre = mk_miner_state(E, 0, with_info=False)
        amt = z3.Int('amount')
        E.ctx.env['amt'] = amt
        cell = Cell(pre['st'], 'st')
        fn = find_fn(E, MINER, which, 'src/state.rs')
        r = E.run_function(fn, [RefV(cell, (), True), RefV(Cell(BigV(amt), 'amt'), ())])
        E.ctx.env['st1'] = cell.value
        return r, rt
    return run


def props_ledger(which, key):
    def props(E, res):
        env = res.ctx.env
        pre = env['pre']
        if res.kind != 'return':
            return [('no panic (%s)' % str(res.info)[:60], False)]
        led = ledgers(E, env['st1'])
        amt = env['amt']
        if is_err(res.value):
            return [('%s refuses only a negative total' % which, pre[key] + amt < 0),
                    ('a refused update changes nothing', led[key] == pre[key])]
        P = [('%s moves the ledger by exactly the amount' % which, led[key] == pre[key] + amt),
             ('ledger never negative', led[key] >= 0)]
        for k in ('pcd', 'ip', 'lf', 'fd'):
            if k != key:
                P.append(('other ledgers untouched', led[k] == pre[k]))
        return P
    return props


def run_update_pledge_total(E):
    rt, rtref = new_rt(E)
    rt.state = LazyV('st', 'State')
    PS = Fields('actors/power/src/state.rs', 'State')
    tot = fget(E, rt.state, PS['total_pledge_collateral'], TOKEN).v
    E.ctx.assume(tot >= 0)
    E.ctx.env['tot'] = tot
    params = LazyV('params', 'types::UpdatePledgeTotalParams')
    E.ctx.env['params'] = params
    fn = find_fn(E, POWER_CRATE, 'update_pledge_total')
    return E.run_function(fn, [rtref, params]), rt


def props_update_pledge_total(E, res):
    env = res.ctx.env
    rt = env['rt']
    if res.kind != 'return':
        return [('no panic (%s)' % str(res.info)[:60], False)]
    delta = fget(E, env['params'], 0, TOKEN).v
    if is_err(res.value):
        return [('rejected update commits nothing', rt.commits == 0)]
    PS = Fields('actors/power/src/state.rs', 'State')
    tot1 = fget(E, rt.state, PS['total_pledge_collateral'], TOKEN).v
    return [('only miner actors report pledge changes', rt.caller_type == ACTOR_TYPES['Miner']),
            ('network pledge total moves by exactly the reported delta', tot1 == env['tot'] + delta),
            ('network pledge total never negative', tot1 >= 0)]


# ---- State::cleanup_expired_pre_commits: deposits of expired pre-commitments leave the deposit total exactly once -----------
# CUT (declared): BitFieldQueue::pop_until -> an arbitrary set of n distinct expired sector numbers.

def run_cleanup(n):
    def run(E):
        rt, rtref = new_rt(E)
        ST = SF()
        st = StructV('State', {}, lazy='st')
        pcd = fget(E, st, ST['pre_commit_deposits'], TOKEN).v
        E.ctx.assume(pcd >= 0)
        nums = [E.materialize('u64', 'expired%d' % i).v for i in range(n)]
        for i in range(n):
            for j in range(i + 1, n):
                E.ctx.assume(nums[i] != nums[j])
        E.cuts['BitFieldQueue::pop_until'] = lambda E2, c: ok(StructV('tuple', {0: models_fvm.BitSetV(nums), 1: E2.ctx.fresh_bool('queue_modified')}), c.dest_ty)
        PC = Fields('actors/miner/src/types.rs', 'SectorPreCommitOnChainInfo')
        base = 'map(st.%d)' % ST['pre_committed_sectors']
        seen = []

        def hook(E2, m, kt, val):
            if m.base == base:
                d = fget(E2, val, PC['pre_commit_deposit'], TOKEN).v
                seen.append(d)
                # C03 invariant: the deposit total covers the deposits of the pre-commitments on record
                E2.ctx.assume(z3.And(d >= 0, pcd >= sum(seen)))
            return None
        E.ctx.env['map_value_hook'] = hook
        cell = Cell(st, 'st')
        E.ctx.env.update(dict(pcd=pcd, nums=nums, cell=cell, base=base))
        fn = find_fn(E, MINER, 'cleanup_expired_pre_commits')
        pol = E.do_call(None, '<MockRT as Runtime>::policy', [rtref], '&Policy')
        return E.run_function(fn, [RefV(cell, (), True), pol, RefV(Cell(OpaqueV('store'), 'store'), ()), E.materialize('i64', 'epoch')]), rt
    return run


def props_cleanup(E, res):
    env = res.ctx.env
    ctx = res.ctx
    if res.kind != 'return':
        return [('no panic (%s)' % str(res.info)[:60], False)]
    if is_err(res.value):
        return [('cleaning up expired pre-commitments of a consistent state does not fail', False)]
    ST = SF()
    PC = Fields('actors/miner/src/types.rs', 'SectorPreCommitOnChainInfo')
    burn = big(E, res.value.fields[('Ok', 0)])
    st1 = env['cell'].value
    pcd1 = fget(E, st1, ST['pre_commit_deposits'], TOKEN).v
    exp = 0
    P = []
    pm = heap_get(E, fget(E, st1, ST['pre_committed_sectors'], CID))
    for nmb in env['nums']:
        bp, bv = base_lookup(E, env['base'], ('int', nmb))
        if bp is None:
            P.append(('every expired sector number is looked up', False))
            continue
        if bp is True:
            exp = exp + fget(E, E.deref(bv), PC['pre_commit_deposit'], TOKEN).v
            gone = isinstance(pm, MapM) and final_lookup(E, pm, ('int', nmb))[0] is False
            P.append(('an expired pre-commitment on record is deleted', gone))
    P.append(('the deposit burnt is the sum of the deposits of the expired pre-commitments still on record, each once', burn == exp))
    P.append(('the deposit total falls by exactly that amount and stays non-negative', z3.And(pcd1 == env['pcd'] - exp, pcd1 >= 0)))
    if isinstance(pm, MapM):
        P.append(('nothing else is deleted', len([1 for (k, pres, v, _) in pm.over if pres is False]) <= len(env['nums'])))
    return P


def build(tier):
    O = miner_money.build_for('C03', tier)
    for o in C14.build(tier):
        if o.name.startswith('miner.State::') or o.name.startswith('miner.withdraw_balance'):
            O.append(o)
    O.append(Obligation('miner.State::add_initial_pledge', run_ledger('add_initial_pledge'), props_ledger('add_initial_pledge', 'ip'),
                        descr='initial pledge total moves by exactly the amount; never negative', bounds='amount any sign', max_paths=200))
    O.append(Obligation('miner.State::add_pre_commit_deposit', run_ledger('add_pre_commit_deposit'), props_ledger('add_pre_commit_deposit', 'pcd'),
                        descr='pre-commit deposit total moves by exactly the amount; never negative', bounds='amount any sign', max_paths=200))
    for n in ([1, 2] if tier == 'quick' else [1, 2, 3]):
        O.append(Obligation('miner.State::cleanup_expired_pre_commits[expired=%d]' % n, run_cleanup(n), props_cleanup,
                            descr='expired pre-commitments still on record are deleted; their deposits (each once) are returned for burning and leave the deposit total',
                            bounds='%d expired sector number(s); pre-commit map symbolic under the deposit invariant; CUT: BitFieldQueue::pop_until' % n, max_paths=20000))
    O.append(Obligation('power.update_pledge_total', run_update_pledge_total, props_update_pledge_total,
                        descr='network pledge total += delta for miners with a claim; negative total rejected', bounds='one call', max_paths=5000))
    return O
