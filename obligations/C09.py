"""C09 — DataCap is conserved and each allocation is spent exactly once (registry-side clauses; the token ledger is the
external frc46_token crate)."""
from .verifreg_common import *

PROPERTY = 'C09'


def build(tier):
    O = [Obligation('verifreg.add_verified_client', run_add_client, props_add_client,
                    descr="verifier allowance decreases by exactly the grant, never negative; mint amount = grant to the named client", bounds='one call', max_paths=60000)]
    shapes = [[1], [2], [1, 1]] if tier == 'quick' else [[1], [2], [1, 1], [2, 1], [3]]
    for sh in shapes:
        O.append(Obligation('verifreg.claim_allocations[claims per sector=%s]' % sh, run_claim(sh), props_claim,
                            descr='burn = total size of removed allocations; each removed allocation -> exactly one claim (same id/client/data/size/terms) for the calling named provider within terms; repeated ids never claim twice',
                            bounds='sectors x claims %s (ids may repeat); allocation/claim tables symbolic' % sh, max_paths=200000))
    for n in ([1, 2] if tier == 'quick' else [1, 2, 3]):
        O.append(Obligation('verifreg.remove_expired_allocations[ids=%d]' % n, run_remove_allocs(n), props_remove_allocs,
                            descr='only expired allocations are removed; refund = their total size, to their client', bounds='%d explicit ids' % n, max_paths=60000))
    for (na, ne) in ([(1, 0), (0, 1), (1, 1), (2, 0)] if tier == 'quick' else [(1, 0), (0, 1), (1, 1), (2, 0), (0, 2), (2, 1)]):
        O.append(Obligation('verifreg.universal_receiver_hook[allocations=%d, extensions=%d]' % (na, ne), run_receiver_hook(na, ne), props_receiver_hook,
                            descr='datacap received = total size of new allocations + extended claims exactly; extension spend burnt at once; allocations recorded for the token sender',
                            bounds='%d allocation request(s), %d claim extension(s); claims table symbolic; burn send may fail' % (na, ne), max_paths=200000))
    for w in ('add_verifier', 'remove_verifier'):
        O.append(Obligation('verifreg.%s' % w, run_verifier(w), props_verifier(w),
                            descr='verifier set: only the root; add writes exactly the granted allowance (>= 1 MiB) for an ID address other than the root whose datacap balance is not positive; remove deletes an existing entry; one entry touched',
                            bounds='one call; verifier table symbolic; nested balance query symbolic', max_paths=60000))
    O.append(Obligation('verifreg.remove_verified_client_data_cap', run_remove_datacap, props_remove_datacap,
                        descr='datacap removal: only the root, two different verifiers whose signatures are checked against the same client / amount and their current proposal ids (then used up); destroys min(balance, amount) from the client, reported exactly',
                        bounds='one call; verifier / proposal tables symbolic; CUT: signature verification (arbitrary verdict, arguments recorded)', max_paths=100000))
    return O
