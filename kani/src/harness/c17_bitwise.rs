//! C17 – BYTE / SHL / SHR / SAR / CLZ (instructions/bitwise.rs).
//!
//! Operand order (instructions/mod.rs, `def_primop!{ OP(a, b) => f }`):
//! `pop_many::<2>()` yields the slice `[second-from-top, top]`; the `rev!` pattern binds
//! `a` = top of stack (first popped, Yellow Paper µs[0]) and `b` = µs[1], and calls `f(a, b)`.
//! Hence `shl(shift, value)`, `byte(i, x)` with shift/i = µs[0] – as in EIP-145 / YP.
//!
//! Oracles are bit-level: for a universally quantified (symbolic) bit index `i`, bit `i` of
//! the result is stated as a function of the operand bits (EIP-145, Yellow Paper App. H).
use super::util::*;
use crate::interpreter::instructions::bitwise;
use fil_actors_evm_shared::uints::U256;

/// EIP-145 SHL: (value * 2^shift) mod 2^256. Bit i of result = bit (i - shift) of value if
/// shift <= i, else 0; everything 0 when shift >= 256.
#[kani::proof]
#[kani::unwind(6)]
fn c17_shl() {
    let shift = any_u256();
    let value = any_u256();
    let r = bitwise::shl(shift, value);
    let i: usize = kani::any();
    kani::assume(i < 256);
    let small = shift.0[1] == 0 && shift.0[2] == 0 && shift.0[3] == 0 && shift.0[0] < 256;
    let expect = if small {
        let s = shift.0[0] as usize;
        i >= s && bit(&value.0, i - s)
    } else {
        false
    };
    assert!(bit(&r.0, i) == expect);
    kani::cover!(small && shift.0[0] > 64 && bit(&r.0, i));
}

/// EIP-145 SHR: floor(value / 2^shift). Bit i of result = bit (i + shift) of value if
/// i + shift < 256, else 0.
#[kani::proof]
#[kani::unwind(6)]
fn c17_shr() {
    let shift = any_u256();
    let value = any_u256();
    let r = bitwise::shr(shift, value);
    let i: usize = kani::any();
    kani::assume(i < 256);
    let small = shift.0[1] == 0 && shift.0[2] == 0 && shift.0[3] == 0 && shift.0[0] < 256;
    let expect = if small {
        let s = shift.0[0] as usize;
        i + s < 256 && bit(&value.0, i + s)
    } else {
        false
    };
    assert!(bit(&r.0, i) == expect);
    kani::cover!(small && shift.0[0] > 64 && bit(&r.0, i));
}

/// EIP-145 SAR: floor(value_signed / 2^shift) (arithmetic shift, rounds towards -inf).
/// Bit i of result = bit (i + shift) of value if i + shift < 256, else the sign bit 255.
#[kani::proof]
#[kani::unwind(6)]
fn c17_sar() {
    let shift = any_u256();
    let value = any_u256();
    let r = bitwise::sar(shift, value);
    let i: usize = kani::any();
    kani::assume(i < 256);
    let small = shift.0[1] == 0 && shift.0[2] == 0 && shift.0[3] == 0 && shift.0[0] < 256;
    let sign = bit(&value.0, 255);
    let expect = if small {
        let s = shift.0[0] as usize;
        if i + s < 256 { bit(&value.0, i + s) } else { sign }
    } else {
        sign
    };
    assert!(bit(&r.0, i) == expect);
    kani::cover!(small && sign && shift.0[0] > 64 && !bit(&r.0, i));
    kani::cover!(!small && sign && bit(&r.0, i));
}

/// Yellow Paper BYTE: µs'[0] = the i-th byte of x counted from the MOST significant byte
/// (i = µs[0], x = µs[1]), 0 if i >= 32.  Bit j (<8) of result = bit 8*(31-i)+j of x.
#[kani::proof]
#[kani::unwind(6)]
fn c17_byte() {
    let idx = any_u256();
    let x = any_u256();
    let r = bitwise::byte(idx, x);
    let j: usize = kani::any();
    kani::assume(j < 256);
    let small = idx.0[1] == 0 && idx.0[2] == 0 && idx.0[3] == 0 && idx.0[0] < 32;
    let expect = if small && j < 8 {
        bit(&x.0, 8 * (31 - idx.0[0] as usize) + j)
    } else {
        false
    };
    assert!(bit(&r.0, j) == expect);
    kani::cover!(small && idx.0[0] == 13 && bit(&r.0, j));
}

/// EIP-7939 CLZ: number of leading zero bits, 256 for 0.  Oracle: n is the unique number
/// with n <= 256, all bits above position 255-n are 0 and (n < 256 => bit 255-n is 1).
#[kani::proof]
#[kani::unwind(6)]
fn c17_clz() {
    let x = any_u256();
    let r = bitwise::clz(x);
    assert!(r.0[1] == 0 && r.0[2] == 0 && r.0[3] == 0);
    let n = r.0[0];
    assert!(n <= 256);
    let n = n as usize;
    let all_zero = x.0[0] == 0 && x.0[1] == 0 && x.0[2] == 0 && x.0[3] == 0;
    assert!((n == 256) == all_zero);
    if n < 256 {
        assert!(bit(&x.0, 255 - n));
    }
    let i: usize = kani::any();
    kani::assume(i < 256);
    if i + n > 255 {
        assert!(!bit(&x.0, i));
    }
    kani::cover!(n == 100);
}
