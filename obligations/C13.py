"""C13 — control of a miner changes hands only by two-sided, delayed handover.

Transition relation over MinerInfo {owner, pending_owner_address, worker, pending_worker_key, control_addresses,
beneficiary, beneficiary_term, pending_beneficiary_term} for the miner methods that can reach State::save_info,
executed from MIR with arbitrary caller, params, epoch and arbitrary previous MinerInfo."""
from .common import *

PROPERTY = 'C13'
CRATES = ['fil_actors_runtime', 'fil_actor_miner']
MINER = 'fil_actor_miner'
OPT_ADDR = 'std::option::Option<fvm_shared::address::Address>'
WKC = 'std::option::Option<types::WorkerKeyChange>'
PBC = 'std::option::Option<beneficiary::PendingBeneficiaryChange>'
BT = 'beneficiary::BeneficiaryTerm'
WORKER_KEY_CHANGE_DELAY = 900   # policy.worker_key_change_delay = chain finality (spec: 900 epochs)


def _f():
    return (Fields('actors/miner/src/state.rs', 'State'), Fields('actors/miner/src/state.rs', 'MinerInfo'),
            Fields('actors/miner/src/types.rs', 'WorkerKeyChange'),
            Fields('actors/miner/src/beneficiary.rs', 'PendingBeneficiaryChange'),
            Fields('actors/miner/src/beneficiary.rs', 'BeneficiaryTerm'))


def opt_view(E, v, inner_ty):
    """(is_some: bool|Bool, payload or None) of an Option value without forking; payload materialised lazily"""
    v = E.deref(v)
    if isinstance(v, LazyV):
        v = E.lazy_enum(v)
    tag = v.tag
    if ('Some', 0) in v.fields:
        p = v.fields[('Some', 0)]
    elif v.lazy is not None:
        p = E.materialize(inner_ty, '%s.Some.0' % v.lazy)
    else:
        # absent payload: total placeholder (every use is guarded by the presence bit)
        p = AddrV(-1, -1) if inner_ty == ADDR else LazyV('absent<%s>' % inner_ty, inner_ty)
    return (tag == 1), p


def pre_info(E, ncontrol):
    ST, MI, WK, PB, BTF = _f()
    ctl = []
    for i in range(ncontrol):
        a = E.materialize(ADDR, 'info.control%d' % i)
        E.ctx.assume(a.proto == 0)
        ctl.append(a)
    info = StructV('state::MinerInfo', {MI['control_addresses']: VecV(ctl, 'Vec<Address>')}, lazy='info')
    owner = fget(E, info, MI['owner'], ADDR)
    worker = fget(E, info, MI['worker'], ADDR)
    ben = fget(E, info, MI['beneficiary'], ADDR)
    E.ctx.assume(z3.And(owner.proto == 0, worker.proto == 0, ben.proto == 0))
    # owners / workers / beneficiaries are user accounts: ids below 100 are reserved for the singleton actors
    E.ctx.assume(z3.And(owner.key >= 100, worker.key >= 100, ben.key >= 100))
    if 'rt' in E.ctx.env:
        E.ctx.assume(E.ctx.env['rt'].receiver.key >= 100)      # the miner itself is not a singleton actor either
    po_some, po = opt_view(E, fget(E, info, MI['pending_owner_address'], OPT_ADDR), ADDR)
    E.ctx.assume(z3.Implies(po_some, po.proto == 0))
    # a pending owner equal to the owner is never stored (cleared as a no-op change)
    E.ctx.assume(z3.Implies(po_some, po.key != owner.key))
    pb_some, pb = opt_view(E, fget(E, info, MI['pending_beneficiary_term'], PBC), 'beneficiary::PendingBeneficiaryChange')
    nb = fget(E, pb, PB['new_beneficiary'], ADDR)
    E.ctx.assume(z3.Implies(pb_some, nb.proto == 0))
    bt = fget(E, info, MI['beneficiary_term'], BT)
    E.ctx.assume(z3.And(fget(E, bt, BTF['quota'], TOKEN).v >= 0, fget(E, bt, BTF['used_quota'], TOKEN).v >= 0))
    cid = new_cid(E, info, 'infocid')
    st = StructV('State', {ST['info']: cid}, lazy='st')
    pre = dict(info=info, st=st, owner=owner, worker=worker, ben=ben, control=ctl)
    E.ctx.env['pre'] = pre
    return pre


def info_after(E, rt):
    ST, MI, WK, PB, BTF = _f()
    cid = fget(E, rt.state, ST['info'], CID)
    obj = heap_get(E, cid)
    return obj


def view(E, info):
    ST, MI, WK, PB, BTF = _f()
    d = {}
    d['owner'] = fget(E, info, MI['owner'], ADDR)
    d['worker'] = fget(E, info, MI['worker'], ADDR)
    d['ben'] = fget(E, info, MI['beneficiary'], ADDR)
    d['control'] = list(E.deref(fget(E, info, MI['control_addresses'], 'Vec<Address>')).items)
    d['po_some'], d['po'] = opt_view(E, fget(E, info, MI['pending_owner_address'], OPT_ADDR), ADDR)
    d['pw_some'], pw = opt_view(E, fget(E, info, MI['pending_worker_key'], WKC), 'types::WorkerKeyChange')
    d['pw_new'] = fget(E, pw, WK['new_worker'], ADDR) if pw is not None else None
    d['pw_at'] = fget(E, pw, WK['effective_at'], 'i64').v if pw is not None else None
    d['pb_some'], pb = opt_view(E, fget(E, info, MI['pending_beneficiary_term'], PBC), 'beneficiary::PendingBeneficiaryChange')
    if pb is not None:
        d['pb_new'] = fget(E, pb, PB['new_beneficiary'], ADDR)
        d['pb_quota'] = fget(E, pb, PB['new_quota'], TOKEN).v
        d['pb_exp'] = fget(E, pb, PB['new_expiration'], 'i64').v
        d['pb_by_ben'] = fget(E, pb, PB['approved_by_beneficiary'], 'bool')
        d['pb_by_nom'] = fget(E, pb, PB['approved_by_nominee'], 'bool')
    bt = fget(E, info, MI['beneficiary_term'], BT)
    d['quota'] = fget(E, bt, BTF['quota'], TOKEN).v
    d['used'] = fget(E, bt, BTF['used_quota'], TOKEN).v
    d['exp'] = fget(E, bt, BTF['expiration'], 'i64').v
    return d


def bz(x):
    return x if is_sym(x) else z3.BoolVal(bool(x))


def same_opt_addr(a_some, a, b_some, b):
    return z3.And(bz(a_some) == bz(b_some), z3.Implies(bz(a_some), addr_eq(a, b) if (a is not None and b is not None) else True))


def same_pw(a, b):
    if a['pw_new'] is None or b['pw_new'] is None:
        return bz(a['pw_some']) == bz(b['pw_some'])
    return z3.And(bz(a['pw_some']) == bz(b['pw_some']),
                  z3.Implies(bz(a['pw_some']), z3.And(addr_eq(a['pw_new'], b['pw_new']), a['pw_at'] == b['pw_at'])))


def same_pb(a, b):
    if 'pb_new' not in a or 'pb_new' not in b:
        return bz(a['pb_some']) == bz(b['pb_some'])
    return z3.And(bz(a['pb_some']) == bz(b['pb_some']),
                  z3.Implies(bz(a['pb_some']), z3.And(addr_eq(a['pb_new'], b['pb_new']), a['pb_quota'] == b['pb_quota'],
                                                      a['pb_exp'] == b['pb_exp'], bz(a['pb_by_ben']) == bz(b['pb_by_ben']),
                                                      bz(a['pb_by_nom']) == bz(b['pb_by_nom']))))


def same_control(ctx, a, b):
    return len(a['control']) == len(b['control']) and all(implied(ctx, addr_eq(x, y)) for x, y in zip(a['control'], b['control']))


def same_term(a, b):
    return z3.And(a['quota'] == b['quota'], a['used'] == b['used'], a['exp'] == b['exp'])


def control_frame(ctx, a, b, what='control fields'):
    """owner / pending owner / worker / pending worker / control / beneficiary (+term, pending) all unchanged"""
    return [('%s: owner unchanged' % what, addr_eq(a['owner'], b['owner'])),
            ('%s: pending owner unchanged' % what, same_opt_addr(a['po_some'], a['po'], b['po_some'], b['po'])),
            ('%s: worker unchanged' % what, addr_eq(a['worker'], b['worker'])),
            ('%s: pending worker key unchanged' % what, same_pw(a, b)),
            ('%s: control addresses unchanged' % what, same_control(ctx, a, b)),
            ('%s: beneficiary unchanged' % what, addr_eq(a['ben'], b['ben'])),
            ('%s: pending beneficiary change unchanged' % what, same_pb(a, b))]


def std_run(method, ptype, ncontrol=1, prep=None):
    def run(E):
        rt, rtref = new_rt(E)
        pre = pre_info(E, ncontrol)
        rt.state = pre['st']
        args = [rtref]
        if ptype:
            params = LazyV('params', 'types::' + ptype)
            if prep:
                params = prep(E, params)
            E.ctx.env['params'] = params
            args.append(params)
        fn = find_fn(E, MINER, method)
        return E.run_function(fn, args), rt
    return run


def common(E, res):
    env = res.ctx.env
    rt = env['rt']
    if res.kind != 'return':
        return None, None, [('no panic (%s)' % str(res.info)[:60], False)]
    if is_err(res.value):
        return None, None, [('rejected call commits nothing', rt.commits == 0)]
    a = view(E, env['pre']['info'])
    info1 = info_after(E, rt)
    if info1 is None:
        return a, a, []
    return a, view(E, info1), []


def props_change_owner(E, res):
    a, b, P = common(E, res)
    if a is None:
        return P
    env = res.ctx.env
    rt = env['rt']
    new = fget(E, env['params'], 0, ADDR)
    caller = rt.caller
    owner_changed = b_not(addr_eq(a['owner'], b['owner']))
    confirm = z3.And(bz(a['po_some']), addr_eq(caller, a['po']), addr_eq(new, a['po']))
    P.append(('proposed owner is an ID address', new.proto == 0))
    P.append(('owner changes only when the pending owner itself confirms the same address',
              z3.Implies(owner_changed, z3.And(confirm, addr_eq(b['owner'], a['po'])))))
    P.append(('only the owner or the pending owner can call', b_or(addr_eq(caller, a['owner']), z3.And(bz(a['po_some']), addr_eq(caller, a['po'])))))
    P.append(('a confirmation by the pending owner completes the handover',
              z3.Implies(z3.And(confirm, b_not(addr_eq(caller, a['owner']))), z3.And(addr_eq(b['owner'], a['po']), z3.Not(bz(b['po_some']))))))
    # proposals / withdrawals by the owner
    byowner = addr_eq(caller, a['owner'])
    P.append(('owner proposal recorded (or withdrawn when proposing itself)',
              z3.Implies(byowner, z3.And(addr_eq(b['owner'], a['owner']),
                                         z3.If(addr_eq(new, a['owner']), z3.Not(bz(b['po_some'])),
                                               z3.And(bz(b['po_some']), addr_eq(b['po'], new)))))))
    P.append(('pending owner changes only by the owner or by completing the handover',
              z3.Implies(z3.Not(same_opt_addr(a['po_some'], a['po'], b['po_some'], b['po'])), b_or(byowner, owner_changed))))
    P.append(('worker unchanged', addr_eq(a['worker'], b['worker'])))
    P.append(('pending worker key unchanged', same_pw(a, b)))
    P.append(('control addresses unchanged', same_control(res.ctx, a, b)))
    P.append(('beneficiary follows the owner only if it was the owner',
              addr_eq(b['ben'], a['ben']) if False else
              z3.If(z3.And(owner_changed, addr_eq(a['ben'], a['owner'])), addr_eq(b['ben'], b['owner']), addr_eq(b['ben'], a['ben']))))
    P.append(('pending beneficiary change cancelled on owner change, else untouched',
              z3.If(owner_changed, z3.Not(bz(b['pb_some'])), same_pb(a, b))))
    P.append(('beneficiary term untouched', same_term(a, b)))
    P.append(('no sends', len(rt.sends) == 0))
    return P


def prep_worker(ncp):
    def prep(E, params):
        ctl = [E.materialize(ADDR, 'params.control%d' % i) for i in range(ncp)]
        return StructV('types::ChangeWorkerAddressParams', {1: VecV(ctl, 'Vec<Address>')}, lazy='params')
    return prep


def props_change_worker(E, res):
    a, b, P = common(E, res)
    if a is None:
        return P
    env = res.ctx.env
    rt = env['rt']
    ctx = res.ctx
    P.append(('only the owner changes worker / control addresses', addr_eq(rt.caller, a['owner'])))
    P.append(('owner unchanged', addr_eq(a['owner'], b['owner'])))
    P.append(('pending owner unchanged', same_opt_addr(a['po_some'], a['po'], b['po_some'], b['po'])))
    P.append(('the worker key never changes immediately', addr_eq(a['worker'], b['worker'])))
    P.append(('beneficiary unchanged', addr_eq(a['ben'], b['ben'])))
    P.append(('pending beneficiary change unchanged', same_pb(a, b)))
    P.append(('beneficiary term untouched', same_term(a, b)))
    from .C12 import resolved_id
    nw = resolved_id(E, rt, fget(E, env['params'], 0, ADDR), ctx)
    P.append(('new worker resolved', nw is not None))
    if nw is not None:
        differs = nw != a['worker'].key
        newreq = z3.And(differs, z3.Not(bz(a['pw_some'])))
        if b['pw_new'] is not None:
            P.append(('a new key request is recorded with the security delay and never overwrites a pending one',
                      z3.If(newreq, z3.And(bz(b['pw_some']), b['pw_new'].key == nw, b['pw_new'].proto == 0,
                                           b['pw_at'] == rt.epoch + WORKER_KEY_CHANGE_DELAY),
                            same_pw(a, b))))
        else:
            P.append(('pending worker key presence', z3.And(z3.Not(newreq), bz(a['pw_some']) == bz(b['pw_some']))))
    pc = E.deref(fget(E, env['params'], 1, 'Vec<Address>')).items
    P.append(('control addresses replaced by the resolved request', len(b['control']) == len(pc)))
    for i, x in enumerate(pc):
        rid = resolved_id(E, rt, x, ctx)
        P.append(('control address %d resolved' % i, rid is not None))
        if rid is not None and i < len(b['control']):
            P.append(('control address %d stored as ID' % i, b_and(b['control'][i].proto == 0, b['control'][i].key == rid)))
    return P


def props_confirm_worker(E, res):
    a, b, P = common(E, res)
    if a is None:
        return P
    env = res.ctx.env
    rt = env['rt']
    P.append(('only the owner confirms', addr_eq(rt.caller, a['owner'])))
    due = z3.And(bz(a['pw_some']), rt.epoch >= a['pw_at'])
    P.append(('worker changes only after the delay, to the requested key',
              z3.If(due, z3.And(addr_eq(b['worker'], a['pw_new']), z3.Not(bz(b['pw_some']))),
                    z3.And(addr_eq(b['worker'], a['worker']), same_pw(a, b)))))
    P.append(('owner unchanged', addr_eq(a['owner'], b['owner'])))
    P.append(('pending owner unchanged', same_opt_addr(a['po_some'], a['po'], b['po_some'], b['po'])))
    P.append(('control addresses unchanged', same_control(res.ctx, a, b)))
    P.append(('beneficiary unchanged', addr_eq(a['ben'], b['ben'])))
    P.append(('pending beneficiary change unchanged', same_pb(a, b)))
    P.append(('beneficiary term untouched', same_term(a, b)))
    return P


def props_change_beneficiary(E, res):
    a, b, P = common(E, res)
    if a is None:
        return P
    env = res.ctx.env
    rt = env['rt']
    ctx = res.ctx
    CB = Fields('actors/miner/src/types.rs', 'ChangeBeneficiaryParams')
    pa = env['params']
    from .C12 import resolved_id
    nbk = resolved_id(E, rt, fget(E, pa, CB['new_beneficiary'], ADDR), ctx)
    nq = fget(E, pa, CB['new_quota'], TOKEN).v
    ne = fget(E, pa, CB['new_expiration'], 'i64').v
    P.append(('nominee resolved', nbk is not None))
    if nbk is None:
        return P
    caller = rt.caller
    byowner = addr_eq(caller, a['owner'])
    # availability of the current term at this epoch (spec: max(quota-used,0) while not expired)
    avail = z3.If(a['exp'] > rt.epoch, z3.If(a['quota'] - a['used'] > 0, a['quota'] - a['used'], 0), 0)
    # the proposal in force during this call
    prop_new = z3.If(byowner, nbk, a['pb_new'].key if 'pb_new' in a else nbk)
    prop_q = z3.If(byowner, nq, a['pb_quota'] if 'pb_quota' in a else nq)
    prop_e = z3.If(byowner, ne, a['pb_exp'] if 'pb_exp' in a else ne)
    P.append(('only owner (proposal) or beneficiary / nominee (confirmation of an existing proposal) may call',
              b_or(byowner, z3.And(bz(a['pb_some']), b_or(addr_eq(caller, a['ben']), caller.key == a['pb_new'].key)))))
    P.append(('a confirmation repeats the pending address, quota and expiration',
              z3.Implies(z3.Not(byowner), z3.And(nbk == a['pb_new'].key, nq == a['pb_quota'], ne == a['pb_exp']))))
    by_ben0 = z3.If(byowner, avail == 0, bz(a['pb_by_ben']))
    by_nom0 = z3.If(byowner, False, bz(a['pb_by_nom']))
    by_ben1 = z3.Or(by_ben0, addr_eq(caller, a['ben']))
    by_nom1 = z3.Or(by_nom0, caller.key == prop_new)
    both = z3.And(by_ben1, by_nom1)
    changed = b_not(addr_eq(a['ben'], b['ben']))
    P.append(('beneficiary changes only with both approvals', z3.Implies(changed, both)))
    P.append(('with both approvals the proposal takes effect and is cleared',
              z3.Implies(both, z3.And(b['ben'].key == prop_new, b['ben'].proto == 0, b['quota'] == prop_q, b['exp'] == prop_e,
                                      z3.Not(bz(b['pb_some'])),
                                      b['used'] == z3.If(prop_new != a['ben'].key, 0, a['used'])))))
    if 'pb_new' in b:
        P.append(('otherwise the proposal stays pending with the approvals given so far and the term is untouched',
                  z3.Implies(z3.Not(both), z3.And(addr_eq(b['ben'], a['ben']), same_term(a, b), bz(b['pb_some']),
                                                  b['pb_new'].key == prop_new, b['pb_quota'] == prop_q, b['pb_exp'] == prop_e,
                                                  bz(b['pb_by_ben']) == by_ben1, bz(b['pb_by_nom']) == by_nom1))))
    P.append(('owner proposals: positive quota for a third party, zero quota/expiration for the owner itself',
              z3.Implies(byowner, z3.If(nbk != a['owner'].key, nq > 0, z3.And(nq == 0, ne == 0)))))
    P.append(('owner unchanged', addr_eq(a['owner'], b['owner'])))
    P.append(('pending owner unchanged', same_opt_addr(a['po_some'], a['po'], b['po_some'], b['po'])))
    P.append(('worker unchanged', addr_eq(a['worker'], b['worker'])))
    P.append(('pending worker key unchanged', same_pw(a, b)))
    P.append(('control addresses unchanged', same_control(ctx, a, b)))
    return P


def props_frame(E, res):
    a, b, P = common(E, res)
    if a is None:
        return P
    P += control_frame(res.ctx, a, b)
    P.append(('beneficiary term untouched', same_term(a, b)))
    return P


def run_ppw(E):
    """process_pending_worker(info, rt, state) as called from the cron path"""
    rt, rtref = new_rt(E)
    pre = pre_info(E, 1)
    rt.state = pre['st']
    icell = Cell(pre['info'], 'info')
    scell = Cell(pre['st'], 'state')
    fn = find_fn(E, MINER, 'process_pending_worker')
    r = E.run_function(fn, [RefV(icell, (), True), rtref, RefV(scell, (), True)])
    E.ctx.env['info1'] = icell.value
    return r, rt


def props_ppw(E, res):
    env = res.ctx.env
    rt = env['rt']
    if res.kind != 'return':
        return [('no panic (%s)' % str(res.info)[:60], False)]
    if is_err(res.value):
        return []
    a = view(E, env['pre']['info'])
    b = view(E, env['info1'])
    due = z3.And(bz(a['pw_some']), rt.epoch >= a['pw_at'])
    P = [('worker changes only after the delay, to the requested key',
          z3.If(due, z3.And(addr_eq(b['worker'], a['pw_new']), z3.Not(bz(b['pw_some']))),
                z3.And(addr_eq(b['worker'], a['worker']), same_pw(a, b)))),
         ('owner unchanged', addr_eq(a['owner'], b['owner'])),
         ('pending owner unchanged', same_opt_addr(a['po_some'], a['po'], b['po_some'], b['po'])),
         ('control addresses unchanged', same_control(res.ctx, a, b)),
         ('beneficiary unchanged', addr_eq(a['ben'], b['ben'])),
         ('pending beneficiary change unchanged', same_pb(a, b))]
    return P


def save_info_reachability(E):
    """static frame: which exported miner methods can reach State::save_info (call graph over the MIR)"""
    import re
    prog = E.prog
    callers = {}
    for f in prog.funcs:
        if f.crate != MINER:
            continue
        for blk in f.blocks.values():
            t = blk.term
            if t and t[0] == 'call' and ('save_info' in t[2]):
                callers[f.name] = True
    return sorted(callers)


def build(tier):
    O = []
    O.append(Obligation('miner.change_owner_address', std_run('change_owner_address', 'ChangeOwnerAddressParams'), props_change_owner,
                        descr='owner changes only by proposal of the owner + confirmation of the same address by the proposed owner; nothing else moves',
                        bounds='one call; arbitrary MinerInfo; 1 control address', max_paths=5000))
    for ncp in ([0, 1] if tier == 'quick' else [0, 1, 2]):
        O.append(Obligation('miner.change_worker_address[controls=%d]' % ncp, std_run('change_worker_address', 'ChangeWorkerAddressParams', 1, prep_worker(ncp)),
                            props_change_worker,
                            descr='only the owner; worker never changes immediately; new key recorded with effective_at = epoch + delay, never overwriting a pending key; control addresses replaced',
                            bounds='one call; %d requested control addresses; nested PubkeyAddress send symbolic' % ncp, max_paths=60000))
    O.append(Obligation('miner.confirm_change_worker_address', std_run('confirm_change_worker_address', None), props_confirm_worker,
                        descr='only the owner; worker := pending key iff epoch >= effective_at', bounds='one call', max_paths=5000))
    O.append(Obligation('miner.process_pending_worker', run_ppw, props_ppw,
                        descr='cron path: worker := pending key iff epoch >= effective_at; nothing else moves', bounds='one call', max_paths=2000))
    O.append(Obligation('miner.change_beneficiary', std_run('change_beneficiary', 'ChangeBeneficiaryParams'), props_change_beneficiary,
                        descr='beneficiary changes only after approval by nominee and current beneficiary (auto-approved only when the current term has nothing available); confirmations repeat the proposal',
                        bounds='one call; arbitrary term/proposal', max_paths=60000))
    O.append(Obligation('miner.change_peer_id (frame)', std_run('change_peer_id', 'ChangePeerIDParams'), props_frame,
                        descr='methods that save MinerInfo but are not handover methods leave all control fields unchanged', bounds='one call', max_paths=5000))
    O.append(Obligation('miner.change_multiaddresses (frame)', std_run('change_multiaddresses', 'ChangeMultiaddrsParams', 1, lambda E, p: StructV('types::ChangeMultiaddrsParams', {0: VecV([LazyV('maddr0', 'fvm_ipld_encoding::BytesDe')], 'Vec<BytesDe>')})), props_frame,
                        descr='methods that save MinerInfo but are not handover methods leave all control fields unchanged', bounds='one call; multiaddr list length 1', max_paths=5000))
    return O


# ---------------------------------------------------------------------------------------
# native replay through the "miner" adapter

def _scn(method, params_fn=None, ret_of=None):
    from .miner_common import miner_scenario
    return miner_scenario(method, params_fn, ret_of)


def _p_owner(E, res, m):
    from .C12 import _addr_json
    return {'new_owner': _addr_json(m, fget(E, res.ctx.env['params'], 0, ADDR))}


def _p_worker(E, res, m):
    from .C12 import _addr_json
    pa = res.ctx.env['params']
    return {'new_worker': _addr_json(m, fget(E, pa, 0, ADDR)),
            'new_control_addresses': [_addr_json(m, x) for x in E.deref(fget(E, pa, 1, 'Vec<Address>')).items]}


def _p_ben(E, res, m):
    from .C12 import _addr_json
    CB = Fields('actors/miner/src/types.rs', 'ChangeBeneficiaryParams')
    pa = res.ctx.env['params']
    return {'new_beneficiary': _addr_json(m, fget(E, pa, CB['new_beneficiary'], ADDR)),
            'new_quota': str(ev(m, fget(E, pa, CB['new_quota'], TOKEN).v)), 'new_expiration': ev(m, fget(E, pa, CB['new_expiration'], 'i64').v)}


def _pubkey_ret(E, res, m):
    def ret_of(i, s):
        a = find_mat(res.ctx, 'rt.send[%d].ret.Some.0.as<' % i, '>')
        if isinstance(a, AddrV):
            p = ev(m, a.proto)
            return {'address': {{1: 'secp', 2: 'actor', 3: 'bls', 4: 'actor'}.get(p, 'bls'): 7} if p != 0 else ev(m, a.key)}
        return {'address': {'bls': 7}}
    return ret_of


_SCN = {'miner.change_owner_address': lambda: _scn('ChangeOwnerAddress', _p_owner),
        'miner.change_worker_address': lambda: _scn('ChangeWorkerAddress', _p_worker, _pubkey_ret),
        'miner.confirm_change_worker_address': lambda: _scn('ConfirmChangeWorkerAddress'),
        'miner.change_beneficiary': lambda: _scn('ChangeBeneficiary', _p_ben),
        'miner.change_peer_id (frame)': lambda: _scn('ChangePeerID', lambda E, res, m: {'new_id_hex': ''})}

_build0 = build


def build(tier):  # noqa: F811
    O = _build0(tier)
    from . import miner_cron
    O += miner_cron.build_for('C13', tier)
    # the beneficiary's term is consumed by withdrawals: the quota booked must be what was actually paid (a depleted term
    # lets the owner replace the beneficiary without its approval); obligation shared with C14
    from . import C14
    from .miner_common import miner_scenario
    for n in ([0] if tier == 'quick' else [0, 1]):
        O.append(Obligation('miner.withdraw_balance[vesting entries=%d]' % n, C14.run_withdraw(n), C14.props_withdraw,
                            scenario=miner_scenario('WithdrawBalance', lambda E, res, m: {'amount_requested': str(ev(m, fget(E, res.ctx.env['params'], 0, TOKEN).v))}),
                            descr='withdrawal: only owner / beneficiary, paid to the beneficiary, quota consumption recorded = amount paid, term limits and all other control fields untouched',
                            bounds='%d vesting entries; arbitrary MinerInfo / term; one call' % n, max_paths=100000))
    for o in O:
        for k, f in _SCN.items():
            if o.name.startswith(k):
                o.scenario = f()
    return O
