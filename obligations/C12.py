"""C12 — multisig: spending needs a quorum of current signers, once, within the lock.

Inductive step obligations over fil_actor_multisig: from any state satisfying the wallet invariant
Inv = (1 <= threshold <= |signers| <= 256, signers distinct ID addresses, every pending txn has a non-empty
duplicate-free approved list of current signers, next_tx_id > every pending id, unlock_duration >= 0,
initial_balance >= 0), one call of each method with arbitrary caller/params/epoch/balance and arbitrary outcome of
the executed transaction's send preserves Inv and satisfies the method's clause of the property."""
from .common import *

PROPERTY = 'C12'
CRATES = ['fil_actors_runtime', 'fil_actor_multisig']
TXN = 'types::Transaction'
MS = 'fil_actor_multisig'


def _fields():
    ST = Fields('actors/multisig/src/state.rs', 'State')
    TX = Fields('actors/multisig/src/types.rs', 'Transaction')
    return ST, TX


def mk_signers(E, n, prefix='signer'):
    out = []
    for i in range(n):
        a = E.materialize(ADDR, '%s%d' % (prefix, i))
        E.ctx.assume(a.proto == 0)
        out.append(a)
    for i in range(n):
        for j in range(i):
            E.ctx.assume(out[i].key != out[j].key)
    return out


def in_set(a, addrs):
    return any_of([addr_eq(a, x) for x in addrs])


def mk_txn(E, name, signers, napp):
    """pending transaction satisfying Inv: napp distinct approvers drawn from the current signers"""
    ST, TX = _fields()
    approved = []
    for i in range(napp):
        a = E.materialize(ADDR, '%s.approver%d' % (name, i))
        E.ctx.assume(a.proto == 0)
        E.ctx.assume(in_set(a, signers))
        for b in approved:
            E.ctx.assume(a.key != b.key)
        approved.append(a)
    tx = StructV(TXN, {TX['approved']: VecV(approved, 'Vec<Address>')}, lazy=name)
    val = fget(E, tx, TX['value'], TOKEN).v
    E.ctx.assume(val >= 0)       # propose rejects negative values
    return tx


def pre_state(E, nsigners, pending=None, closed=False, max_app=None):
    """pending: list of approval counts for a CLOSED pending map; None = open symbolic map whose transactions are
    discovered on lookup (approval count chosen nondeterministically in 1..max_app)"""
    ST, TX = _fields()
    signers = mk_signers(E, nsigners)
    st = StructV('State', {ST['signers']: VecV(signers, 'Vec<Address>')}, lazy='st')
    thr = fget(E, st, ST['num_approvals_threshold'], 'u64').v
    nxt = fget(E, fget(E, st, ST['next_tx_id'], 'TxnID'), 0, 'i64').v
    init = fget(E, st, ST['initial_balance'], TOKEN).v
    start = fget(E, st, ST['start_epoch'], 'i64').v
    dur = fget(E, st, ST['unlock_duration'], 'i64').v
    E.ctx.assume(z3.And(thr >= 1, thr <= nsigners))
    E.ctx.assume(z3.And(nxt >= 0, nxt < 2**62, init >= 0, dur >= 0, start >= 0, start < 2**62, dur < 2**62))
    base = 'map(st.%d)' % ST['pending_txs']
    max_app = max_app or nsigners
    txs = []
    if pending is not None:
        b = BaseInfo(closed=True)
        E.ctx.memo[('mapbase', base)] = b
        for i, napp in enumerate(pending):
            tid = E.materialize('i64', 'ptx%d.id' % i)
            E.ctx.assume(z3.And(tid.v >= 0, tid.v < nxt))
            for e in b.entries:
                E.ctx.assume(e[0][1] != tid.v)
            tx = mk_txn(E, 'ptx%d' % i, signers, napp)
            b.entries.append([('int', tid.v), True, tx, StructV('TxnID', {0: tid})])
            txs.append((tid.v, tx))
    else:
        def hook(E2, m, kt, val):
            if m.base != base:
                return None
            napp = 1 + E2.ctx.choose(max_app, 'napp')
            n = len(base_info(E2, base).entries)
            tx = mk_txn(E2, 'ptx%d' % n, signers, napp)
            E2.ctx.assume(z3.And(kt[1] >= 0, kt[1] < nxt))
            return tx
        E.ctx.env['map_value_hook'] = hook
    pre = dict(st=st, signers=signers, thr=thr, nxt=nxt, init=init, start=start, dur=dur, base=base, txs=txs,
               nsigners=nsigners)
    E.ctx.env['pre'] = pre
    return pre


def locked_ok(pre, epoch, remaining_balance):
    """remaining_balance >= amount still locked at `epoch`  (locked = ceil(initial * remaining / duration), written
    without division: integer rb >= ceil(x/d)  <=>  rb*d >= x for d > 0)"""
    elapsed = epoch - pre['start']
    dur, init = pre['dur'], pre['init']
    return z3.If(elapsed >= dur, remaining_balance >= 0,
                 z3.If(elapsed <= 0, remaining_balance >= init,
                       remaining_balance * dur >= init * (dur - elapsed)))


def state_fields(E, st):
    ST, TX = _fields()
    sig = E.deref(fget(E, st, ST['signers'], 'Vec<Address>'))
    return dict(signers=list(sig.items), thr=fget(E, st, ST['num_approvals_threshold'], 'u64').v,
                nxt=fget(E, fget(E, st, ST['next_tx_id'], 'TxnID'), 0, 'i64').v,
                init=fget(E, st, ST['initial_balance'], TOKEN).v, start=fget(E, st, ST['start_epoch'], 'i64').v,
                dur=fget(E, st, ST['unlock_duration'], 'i64').v,
                pending=heap_or_base(E, fget(E, st, ST['pending_txs'], CID)))


def heap_or_base(E, cid):
    m = heap_get(E, cid) if isinstance(cid, CidV) else None
    if isinstance(m, MapM):
        return m
    ST, TX = _fields()
    return MapM('map(st.%d)' % ST['pending_txs'], (), TXN, 'hamt')


def inv_signers(f):
    P = []
    n = len(f['signers'])
    P.append(('Inv: 1 <= threshold', f['thr'] >= 1))
    P.append(('Inv: threshold <= number of signers', f['thr'] <= n))
    P.append(('Inv: number of signers <= 256', n <= 256))
    P.append(('Inv: at least one signer', n >= 1))
    for i in range(n):
        P.append(('Inv: signer %d is an ID address' % i, f['signers'][i].proto == 0))
        for j in range(i):
            P.append(('Inv: signers distinct', b_not(addr_eq(f['signers'][i], f['signers'][j]))))
    return P


def inv_txn(E, tx, signers, what):
    ST, TX = _fields()
    ap = E.deref(fget(E, tx, TX['approved'], 'Vec<Address>')).items
    P = [('Inv: %s has a non-empty approved list' % what, len(ap) >= 1)]
    for i, a in enumerate(ap):
        P.append(('Inv: %s approver %d is a current signer' % (what, i), in_set(a, signers)))
        for j in range(i):
            P.append(('Inv: %s approvers distinct' % what, b_not(addr_eq(a, ap[j]))))
    return P


def txn_same(E, a, b, approved=True):
    ST, TX = _fields()
    r = b_and(addr_eq(fget(E, a, TX['to'], ADDR), fget(E, b, TX['to'], ADDR)),
              fget(E, a, TX['value'], TOKEN).v == fget(E, b, TX['value'], TOKEN).v,
              fget(E, a, TX['method'], 'u64').v == fget(E, b, TX['method'], 'u64').v)
    return r


def send_props(E, rt, pre, s, tx, napproved, label):
    """clauses for the one send that executes transaction tx (approved by napproved signers at that moment)"""
    ST, TX = _fields()
    P = []
    P.append(('%s: quorum reached when sent' % label, napproved >= pre['thr']))
    P.append(('%s: sent to the proposed target' % label, addr_eq(s.to, fget(E, tx, TX['to'], ADDR))))
    P.append(('%s: sends the proposed value' % label, s.value == fget(E, tx, TX['value'], TOKEN).v))
    P.append(('%s: calls the proposed method' % label, zv(s.method) == fget(E, tx, TX['method'], 'u64').v))
    rb = s.balance_before - s.value
    P.append(('%s: value covered by balance' % label, rb >= 0))
    P.append(('%s: value non-negative' % label, s.value >= 0))
    P.append(('%s: balance stays above the locked amount (or no value moves)' % label,
              b_or(s.value == 0, locked_ok(pre, rt.epoch, rb))))
    return P


def deleted_before_send(E, s, tid):
    ST, TX = _fields()
    stb = s.state_before
    m = heap_or_base(E, fget(E, stb, ST['pending_txs'], CID))
    p, v = final_lookup(E, m, ('int', tid))
    return p is False


# ---------------------------------------------------------------------------------------

def run_propose(nsigners):
    def run(E):
        rt, rtref = new_rt(E)
        pre_state(E, nsigners)
        rt.state = E.ctx.env['pre']['st']
        params = LazyV('params', 'types::ProposeParams')
        E.ctx.env['params'] = params
        fn = find_fn(E, MS, 'propose')
        return E.run_function(fn, [rtref, params]), rt
    return run


def props_propose(E, res):
    ST, TX = _fields()
    env = res.ctx.env
    rt, pre = env['rt'], env['pre']
    P = []
    if res.kind != 'return':
        return [('no panic (%s)' % str(res.info)[:60], False)]
    if is_err(res.value):
        return P        # the VM reverts state and nested sends of an aborted message
    params = env['params']
    PP = Fields('actors/multisig/src/types.rs', 'ProposeParams')
    f = state_fields(E, rt.state)
    P.append(('proposer is a signer', in_set(rt.caller, pre['signers'])))
    P.append(('proposed value non-negative', fget(E, params, PP['value'], TOKEN).v >= 0))
    P.append(('transaction ids strictly increase', f['nxt'] == pre['nxt'] + 1))
    P.append(('signers/threshold/lock untouched', b_and(f['thr'] == pre['thr'], f['init'] == pre['init'],
                                                        f['start'] == pre['start'], f['dur'] == pre['dur'],
                                                        len(f['signers']) == pre['nsigners'])))
    P += inv_signers(f)
    ret = res.value.fields[('Ok', 0)]
    PR = Fields('actors/multisig/src/types.rs', 'ProposeReturn')
    rid = fget(E, fget(E, ret, PR['txn_id'], 'TxnID'), 0, 'i64').v
    applied = fget(E, ret, PR['applied'], 'bool')
    P.append(('returned id is the fresh id', rid == pre['nxt']))
    ptx = StructV(TXN, {TX['to']: fget(E, params, PP['to'], ADDR), TX['value']: fget(E, params, PP['value'], TOKEN),
                        TX['method']: fget(E, params, PP['method'], 'u64')})
    pm, pv = final_lookup(E, f['pending'], ('int', pre['nxt']))
    if rt.sends:
        P.append(('at most one send', len(rt.sends) == 1))
        s = rt.sends[0]
        P += send_props(E, rt, pre, s, ptx, 1, 'propose')
        P.append(('executed transaction removed before the send (no re-entrant re-execution)', deleted_before_send(E, s, pre['nxt'])))
        P.append(('executed transaction not pending afterwards', pm is False))
        P.append(('reported as applied', applied is True))
    else:
        P.append(('not executed only below quorum', pre['thr'] > 1))
        P.append(('reported as not applied', applied is False))
        P.append(('proposal stored', pm is True))
        if pm:
            P.append(('stored proposal equals the request', txn_same(E, pv, ptx)))
            ap = E.deref(fget(E, pv, TX['approved'], 'Vec<Address>')).items
            P.append(('proposer is the first and only approver', b_and(len(ap) == 1, addr_eq(ap[0], rt.caller) if ap else False)))
    for (k, pres, val, _) in f['pending'].over:
        P.append(('only the new transaction is written', key_eq(k, ('int', pre['nxt']))))
    return P


def run_approve(nsigners):
    def run(E):
        rt, rtref = new_rt(E)
        pre_state(E, nsigners)
        rt.state = E.ctx.env['pre']['st']
        params = LazyV('params', 'types::TxnIDParams')
        E.ctx.env['params'] = params
        fn = find_fn(E, MS, 'approve')
        return E.run_function(fn, [rtref, params]), rt
    return run


def props_approve(E, res):
    ST, TX = _fields()
    env = res.ctx.env
    rt, pre = env['rt'], env['pre']
    if res.kind != 'return':
        return [('no panic (%s)' % str(res.info)[:60], False)]
    if is_err(res.value):
        return []
    P = []
    params = env['params']
    tid = fget(E, fget(E, params, 0, 'TxnID'), 0, 'i64').v
    f = state_fields(E, rt.state)
    P.append(('approver is a signer', in_set(rt.caller, pre['signers'])))
    bp, btx = base_lookup(E, pre['base'], ('int', tid))
    P.append(('approved transaction exists', bp is True))
    if not bp:
        return P
    ap0 = E.deref(fget(E, btx, TX['approved'], 'Vec<Address>')).items
    k = len(ap0)
    P += inv_signers(f)
    P.append(('signers/threshold/lock/next id untouched', b_and(f['thr'] == pre['thr'], f['init'] == pre['init'],
              f['start'] == pre['start'], f['dur'] == pre['dur'], f['nxt'] == pre['nxt'], len(f['signers']) == pre['nsigners'])))
    already = implied(res.ctx, k >= pre['thr'])
    pm, pv = final_lookup(E, f['pending'], ('int', tid))
    ret = res.value.fields[('Ok', 0)]
    applied = fget(E, ret, 0, 'bool')
    if not already:
        P.append(('an approver cannot approve twice', b_not(in_set(rt.caller, ap0))))
    k1 = k if already else k + 1
    if rt.sends:
        P.append(('at most one send', len(rt.sends) == 1))
        s = rt.sends[0]
        P += send_props(E, rt, pre, s, btx, k1, 'approve')
        P.append(('executed transaction removed before the send (no re-entrant re-execution)', deleted_before_send(E, s, tid)))
        P.append(('executed transaction not pending afterwards', pm is False))
        P.append(('reported as applied', applied is True))
    else:
        P.append(('not executed only below quorum', k1 < pre['thr']))
        P.append(('reported as not applied', applied is False))
        P.append(('transaction still pending', pm is True))
        if pm:
            ap1 = E.deref(fget(E, pv, TX['approved'], 'Vec<Address>')).items
            P.append(('approval recorded after the earlier ones', b_and(len(ap1) == k + 1, all(implied(res.ctx, addr_eq(a, b)) for a, b in zip(ap1, ap0)),
                      addr_eq(ap1[-1], rt.caller) if ap1 else False)))
            P.append(('transaction body unchanged', txn_same(E, pv, btx)))
            P += inv_txn(E, pv, f['signers'], 'approved txn')
    for (kk, pres, val, _) in f['pending'].over:
        P.append(('only the approved transaction is written', key_eq(kk, ('int', tid))))
    return P


def run_cancel(nsigners):
    def run(E):
        rt, rtref = new_rt(E)
        pre_state(E, nsigners)
        rt.state = E.ctx.env['pre']['st']
        params = LazyV('params', 'types::TxnIDParams')
        E.ctx.env['params'] = params
        fn = find_fn(E, MS, 'cancel')
        return E.run_function(fn, [rtref, params]), rt
    return run


def props_cancel(E, res):
    ST, TX = _fields()
    env = res.ctx.env
    rt, pre = env['rt'], env['pre']
    if res.kind != 'return':
        return [('no panic (%s)' % str(res.info)[:60], False)]
    if is_err(res.value):
        return [('rejected cancel commits nothing', rt.commits == 0)]
    P = []
    tid = fget(E, fget(E, env['params'], 0, 'TxnID'), 0, 'i64').v
    f = state_fields(E, rt.state)
    bp, btx = base_lookup(E, pre['base'], ('int', tid))
    P.append(('cancelled transaction existed', bp is True))
    P.append(('canceller is a signer', in_set(rt.caller, pre['signers'])))
    if bp:
        ap0 = E.deref(fget(E, btx, TX['approved'], 'Vec<Address>')).items
        P.append(('only the earliest remaining approver may cancel', addr_eq(ap0[0], rt.caller)))
    pm, pv = final_lookup(E, f['pending'], ('int', tid))
    P.append(('transaction removed', pm is False))
    P.append(('nothing sent', len(rt.sends) == 0))
    for (kk, pres, val, _) in f['pending'].over:
        P.append(('only the cancelled transaction is touched', key_eq(kk, ('int', tid))))
    P.append(('signers/threshold/lock/next id untouched', b_and(f['thr'] == pre['thr'], f['init'] == pre['init'],
              f['start'] == pre['start'], f['dur'] == pre['dur'], f['nxt'] == pre['nxt'], len(f['signers']) == pre['nsigners'])))
    return P


# --- admin methods -----------------------------------------------------------------------

def run_admin(method, ptype, nsigners, pending):
    def run(E):
        rt, rtref = new_rt(E)
        pre_state(E, nsigners, pending=pending)
        rt.state = E.ctx.env['pre']['st']
        params = LazyV('params', 'types::' + ptype)
        E.ctx.env['params'] = params
        fn = find_fn(E, MS, method)
        return E.run_function(fn, [rtref, params]), rt
    return run


def admin_common(E, res):
    env = res.ctx.env
    rt, pre = env['rt'], env['pre']
    if res.kind != 'return':
        return None, [('no panic (%s)' % str(res.info)[:60], False)]
    if is_err(res.value):
        return None, [('rejected admin call commits nothing', rt.commits == 0)]
    f = state_fields(E, rt.state)
    P = [('admin methods only through the wallet itself', addr_eq(rt.caller, rt.receiver)),
         ('nothing sent', len(rt.sends) == 0)]
    P += inv_signers(f)
    return f, P


def resolved_id(E, rt, a, ctx):
    if implied(ctx, a.proto == 0):
        return a.key
    for (kt, val) in rt.funcs.get('resolve', []):
        if implied(ctx, key_eq(kt, ('addr', a.proto, a.key))) and val.vname == 'Some':
            return val.fields[('Some', 0)].v
    return None


def purge_props(E, res, f, removed_key):
    """pending map after removing signer `removed_key`: their approvals are gone, emptied txns deleted, the rest kept"""
    ST, TX = _fields()
    env = res.ctx.env
    pre = env['pre']
    P = []
    for i, (tid, tx) in enumerate(pre['txs']):
        ap0 = E.deref(fget(E, tx, TX['approved'], 'Vec<Address>')).items
        keep = [a for a in ap0 if not implied(res.ctx, a.key == removed_key)]
        for a in ap0:
            # aliasing with the removed signer must be decided on this path
            P.append(('oracle-precondition: approver aliasing decided', implied(res.ctx, a.key == removed_key) or implied(res.ctx, a.key != removed_key)))
        pm, pv = final_lookup(E, f['pending'], ('int', tid))
        if pm is None:
            pm, pv = True, tx
        if not keep:
            P.append(('txn %d: emptied approval list => transaction deleted' % i, pm is False))
        else:
            P.append(('txn %d: kept' % i, pm is True))
            if pm:
                ap1 = E.deref(fget(E, pv, TX['approved'], 'Vec<Address>')).items
                P.append(('txn %d: removed signer no longer counts, others keep their order' % i,
                          len(ap1) == len(keep) and all(implied(res.ctx, addr_eq(a, b)) for a, b in zip(ap1, keep))))
                P.append(('txn %d: body unchanged' % i, txn_same(E, pv, tx)))
                P += inv_txn(E, pv, f['signers'], 'txn %d' % i)
    return P


def run_add_signer_many(E):
    """add_signer on a wallet whose signer list is large: an unexamined list of n signers (n symbolic, 1..256)"""
    from mirsym.models_core import BigVecV
    rt, rtref = new_rt(E)
    ST, TX = _fields()
    n = z3.Int('signer_count')
    E.ctx.assume(z3.And(n >= 1, n <= 256))          # wallet invariant
    st = StructV('State', {ST['signers']: BigVecV('signers', n, (), 'Vec<Address>')}, lazy='st')
    thr = fget(E, st, ST['num_approvals_threshold'], 'u64').v
    E.ctx.assume(z3.And(thr >= 1, thr <= n))
    rt.state = st
    E.ctx.env.update(dict(n=n, thr=thr))
    params = LazyV('params', 'types::AddSignerParams')
    E.ctx.env['params'] = params
    return E.run_function(find_fn(E, MS, 'add_signer'), [rtref, params]), rt


def props_add_signer_many(E, res):
    from mirsym.models_core import BigVecV
    env = res.ctx.env
    rt = env['rt']
    if res.kind != 'return':
        return [('no panic (%s)' % str(res.info)[:60], False)]
    if is_err(res.value):
        return [('rejected admin call commits nothing', rt.commits == 0)]
    ST, TX = _fields()
    sg = E.deref(fget(E, rt.state, ST['signers'], 'Vec<Address>'))
    thr1 = fget(E, rt.state, ST['num_approvals_threshold'], 'u64').v
    n1 = sg.hidden + len(sg.items) if isinstance(sg, BigVecV) else None
    return [('the signer list never grows beyond 256 (1 <= threshold <= signers <= 256)', z3.And(n1 == env['n'] + 1, n1 <= 256, thr1 >= 1, thr1 <= n1) if n1 is not None else False),
            ('admin methods only through the wallet itself', addr_eq(rt.caller, rt.receiver))]


def props_add_signer(E, res):
    f, P = admin_common(E, res)
    if f is None:
        return P
    env = res.ctx.env
    rt, pre = env['rt'], env['pre']
    params = env['params']
    new = resolved_id(E, rt, fget(E, params, 0, ADDR), res.ctx)
    inc = fget(E, params, 1, 'bool')
    P.append(('new signer resolved', new is not None))
    if new is None:
        return P
    P.append(('new signer was not a signer', all_of([s.key != new for s in pre['signers']])))
    P.append(('exactly one signer appended', len(f['signers']) == pre['nsigners'] + 1 and
              all(implied(res.ctx, addr_eq(a, b)) for a, b in zip(f['signers'], pre['signers']))))
    if len(f['signers']) == pre['nsigners'] + 1:
        P.append(('appended signer is the requested one', b_and(f['signers'][-1].proto == 0, f['signers'][-1].key == new)))
    P.append(('threshold raised iff requested', f['thr'] == z3.If(inc if is_sym(inc) else z3.BoolVal(inc), pre['thr'] + 1, pre['thr'])))
    P.append(('lock and ids untouched', b_and(f['init'] == pre['init'], f['start'] == pre['start'], f['dur'] == pre['dur'], f['nxt'] == pre['nxt'])))
    P.append(('pending untouched', len(f['pending'].over) == 0))
    return P


def props_remove_signer(E, res):
    f, P = admin_common(E, res)
    if f is None:
        return P
    env = res.ctx.env
    rt, pre = env['rt'], env['pre']
    params = env['params']
    old = resolved_id(E, rt, fget(E, params, 0, ADDR), res.ctx)
    dec = fget(E, params, 1, 'bool')
    P.append(('removed signer resolved', old is not None))
    if old is None:
        return P
    P.append(('removed address was a signer', any_of([s.key == old for s in pre['signers']])))
    keep = [s for s in pre['signers'] if not implied(res.ctx, s.key == old)]
    P.append(('exactly that signer removed, order kept', len(f['signers']) == len(keep) == pre['nsigners'] - 1 and
              all(implied(res.ctx, addr_eq(a, b)) for a, b in zip(f['signers'], keep))))
    P.append(('threshold lowered iff requested', f['thr'] == z3.If(dec if is_sym(dec) else z3.BoolVal(dec), pre['thr'] - 1, pre['thr'])))
    P.append(('lock and ids untouched', b_and(f['init'] == pre['init'], f['start'] == pre['start'], f['dur'] == pre['dur'], f['nxt'] == pre['nxt'])))
    P += purge_props(E, res, f, old)
    return P


def props_swap_signer(E, res):
    f, P = admin_common(E, res)
    if f is None:
        return P
    env = res.ctx.env
    rt, pre = env['rt'], env['pre']
    params = env['params']
    old = resolved_id(E, rt, fget(E, params, 0, ADDR), res.ctx)
    new = resolved_id(E, rt, fget(E, params, 1, ADDR), res.ctx)
    P.append(('swap addresses resolved', old is not None and new is not None))
    if old is None or new is None:
        return P
    P.append(('replaced address was a signer', any_of([s.key == old for s in pre['signers']])))
    P.append(('replacement was not a signer', all_of([s.key != new for s in pre['signers']])))
    keep = [s for s in pre['signers'] if not implied(res.ctx, s.key == old)]
    P.append(('old signer out, new signer in', len(f['signers']) == pre['nsigners'] and len(keep) == pre['nsigners'] - 1 and
              all(implied(res.ctx, addr_eq(a, b)) for a, b in zip(f['signers'], keep)) and
              implied(res.ctx, b_and(f['signers'][-1].proto == 0, f['signers'][-1].key == new))))
    P.append(('threshold, lock and ids untouched', b_and(f['thr'] == pre['thr'], f['init'] == pre['init'], f['start'] == pre['start'],
                                                         f['dur'] == pre['dur'], f['nxt'] == pre['nxt'])))
    P += purge_props(E, res, f, old)
    return P


def props_change_threshold(E, res):
    f, P = admin_common(E, res)
    if f is None:
        return P
    env = res.ctx.env
    pre = env['pre']
    nt = fget(E, env['params'], 0, 'u64').v
    P.append(('threshold set to the request', f['thr'] == nt))
    P.append(('signers, lock and ids untouched', b_and(len(f['signers']) == pre['nsigners'], f['init'] == pre['init'],
                                                       f['start'] == pre['start'], f['dur'] == pre['dur'], f['nxt'] == pre['nxt'])))
    P.append(('pending untouched', len(f['pending'].over) == 0))
    return P


def props_lock_balance(E, res):
    f, P = admin_common(E, res)
    if f is None:
        return P
    env = res.ctx.env
    pre = env['pre']
    pa = env['params']
    P.append(('lock-up can be set only once', pre['dur'] == 0))
    P.append(('lock parameters stored', b_and(f['start'] == fget(E, pa, 0, 'i64').v, f['dur'] == fget(E, pa, 1, 'i64').v,
                                              f['init'] == fget(E, pa, 2, TOKEN).v)))
    P.append(('positive duration, non-negative amount', b_and(f['dur'] > 0, f['init'] >= 0)))
    P.append(('signers, threshold, ids untouched', b_and(len(f['signers']) == pre['nsigners'], f['thr'] == pre['thr'], f['nxt'] == pre['nxt'])))
    return P


# --- amount_locked -----------------------------------------------------------------------

def run_amount_locked(E):
    rt, rtref = new_rt(E)
    pre = pre_state(E, 1)
    elapsed = E.materialize('i64', 'elapsed')
    E.ctx.env['elapsed'] = elapsed.v
    fn = find_fn(E, MS, 'amount_locked')
    r = E.run_function(fn, [RefV(Cell(pre['st'], 'st'), ()), elapsed])
    return r, rt


def props_amount_locked(E, res):
    env = res.ctx.env
    pre = env['pre']
    if res.kind != 'return':
        return [('no panic (%s)' % str(res.info)[:60], False)]
    L = big(E, res.value)
    e = env['elapsed']
    init, dur = pre['init'], pre['dur']
    P = [('0 <= locked <= initial', z3.And(L >= 0, L <= init)),
         ('fully unlocked at the end of the schedule', z3.Implies(e >= dur, L == 0)),
         ('fully locked before the start', z3.Implies(z3.And(e <= 0, e < dur), L == init)),
         ('locked = ceil(initial * remaining / duration)',
          z3.Implies(z3.And(e > 0, e < dur), z3.And(L * dur >= init * (dur - e), (L - 1) * dur < init * (dur - e))))]
    return P


# --- constructor -------------------------------------------------------------------------

def run_constructor(n):
    def run(E):
        rt, rtref = new_rt(E)
        CP = Fields('actors/multisig/src/types.rs', 'ConstructorParams')
        signers = [E.materialize(ADDR, 'psigner%d' % i) for i in range(n)]
        params = StructV('types::ConstructorParams', {CP['signers']: VecV(signers, 'Vec<Address>')}, lazy='params')
        E.ctx.env['params'] = params
        E.ctx.env['psigners'] = signers
        fn = find_fn(E, MS, 'constructor')
        return E.run_function(fn, [rtref, params]), rt
    return run


def props_constructor(E, res):
    env = res.ctx.env
    rt = env['rt']
    if res.kind != 'return':
        return [('no panic (%s)' % str(res.info)[:60], False)]
    if is_err(res.value):
        return [('failed constructor creates no state', rt.state_set is False)]
    CP = Fields('actors/multisig/src/types.rs', 'ConstructorParams')
    f = state_fields(E, rt.state)
    P = [('only the init actor constructs', b_and(rt.caller.proto == 0, rt.caller.key == 1))]
    P += inv_signers(f)
    pa = env['params']
    P.append(('threshold as requested', f['thr'] == fget(E, pa, CP['num_approvals_threshold'], 'u64').v))
    P.append(('one signer per requested address', len(f['signers']) == len(env['psigners'])))
    for i, a in enumerate(env['psigners']):
        rid = resolved_id(E, rt, a, res.ctx)
        P.append(('signer %d resolved' % i, rid is not None))
        if rid is not None and i < len(f['signers']):
            P.append(('signer %d stored as its ID address' % i, f['signers'][i].key == rid))
    dur = fget(E, pa, CP['unlock_duration'], 'i64').v
    P.append(('unlock duration non-negative', f['dur'] >= 0))
    P.append(('lock-up set iff a duration was given', z3.If(dur != 0,
              z3.And(f['dur'] == dur, f['start'] == fget(E, pa, CP['start_epoch'], 'i64').v, f['init'] == rt.value_received),
              z3.And(f['dur'] == 0, f['init'] == 0))))
    P.append(('transaction ids start at 0', f['nxt'] == 0))
    P.append(('no pending transactions', f['pending'].base is None and len(f['pending'].over) == 0))
    return P


def build(tier):
    O = []
    ns = [1, 2, 3] if tier == 'quick' else [1, 2, 3, 4]
    for n in ns:
        O.append(Obligation('multisig.propose[signers=%d]' % n, run_propose(n), props_propose, scenario=make_scenario('Propose'),
                            descr='propose: signer only, fresh increasing id, executes iff threshold==1, send == proposal, deleted before send, balance-value >= locked',
                            bounds='%d signers (symbolic distinct ids); pending map symbolic; one call; amounts/epochs unbounded' % n, max_paths=30000))
    for n in ([2, 3] if tier == 'quick' else [1, 2, 3, 4]):
        O.append(Obligation('multisig.approve[signers=%d]' % n, run_approve(n), props_approve, scenario=make_scenario('Approve'),
                            descr='approve: signer only, no double approval, executes iff quorum, send == pending txn, deleted before send, lock respected',
                            bounds='%d signers; approved list of the target txn 1..%d entries; one call' % (n, n), max_paths=120000))
    for n in ([2] if tier == 'quick' else [1, 2, 3]):
        O.append(Obligation('multisig.cancel[signers=%d]' % n, run_cancel(n), props_cancel, scenario=make_scenario('Cancel'),
                            descr='cancel: only approved[0] (a signer) may cancel; txn removed; nothing else touched',
                            bounds='%d signers; one call' % n, max_paths=60000))
    pend_q = [[], [1], [2, 1]]
    pend_t = [[], [1], [2], [2, 1], [3, 2]]
    O.append(Obligation('multisig.add_signer[signers=symbolic count up to 256]', run_add_signer_many, props_add_signer_many,
                        descr='add_signer at the size limit: a wallet with 256 signers cannot grow; below the limit it grows by one', bounds='signer list of symbolic length 1..256 (elements unexamined: membership by an uninterpreted predicate)', max_paths=2000))
    O.append(Obligation('multisig.add_signer[signers=2]', run_admin('add_signer', 'AddSignerParams', 2, []), props_add_signer, scenario=make_scenario('AddSigner'),
                        descr='add_signer: only self; new distinct signer appended; threshold+1 iff requested; Inv', bounds='2 signers', max_paths=20000))
    for pend in (pend_q if tier == 'quick' else pend_t):
        n = 3
        if any(x > n for x in pend):
            continue
        O.append(Obligation('multisig.remove_signer[signers=%d,pending=%s]' % (n, pend), run_admin('remove_signer', 'RemoveSignerParams', n, pend),
                            props_remove_signer, scenario=make_scenario('RemoveSigner'), descr='remove_signer: only self; Inv; approvals of the removed signer purged, emptied txns deleted',
                            bounds='%d signers; closed pending map with approval counts %s' % (n, pend), max_paths=200000))
        O.append(Obligation('multisig.swap_signer[signers=%d,pending=%s]' % (n, pend), run_admin('swap_signer', 'SwapSignerParams', n, pend),
                            props_swap_signer, scenario=make_scenario('SwapSigner'), descr='swap_signer: only self; Inv; approvals of the replaced signer purged',
                            bounds='%d signers; closed pending map with approval counts %s' % (n, pend), max_paths=200000))
    O.append(Obligation('multisig.change_num_approvals_threshold[signers=3]', run_admin('change_num_approvals_threshold', 'ChangeNumApprovalsThresholdParams', 3, []),
                        props_change_threshold, scenario=make_scenario('ChangeNumApprovalsThreshold'), descr='threshold change: only self; 1 <= new <= |signers|', bounds='3 signers', max_paths=5000))
    O.append(Obligation('multisig.lock_balance[signers=1]', run_admin('lock_balance', 'LockBalanceParams', 1, []), props_lock_balance, scenario=make_scenario('LockBalance'),
                        descr='lock_balance: only self, only once, positive duration, non-negative amount', bounds='1 signer', max_paths=5000))
    O.append(Obligation('multisig.amount_locked', run_amount_locked, props_amount_locked,
                        descr='amount_locked = ceil(initial*remaining/duration) clamped to [0, initial]', bounds='all integers unbounded', max_paths=2000))
    for n in ([1, 2] if tier == 'quick' else [1, 2, 3]):
        O.append(Obligation('multisig.constructor[signers=%d]' % n, run_constructor(n), props_constructor,
                            descr='constructor establishes Inv: distinct resolved signers, 1<=threshold<=n, duration>=0, lock from value_received',
                            bounds='%d requested signers (any address protocol, aliasing explored)' % n, max_paths=60000))
    return O


# ---------------------------------------------------------------------------------------
# native replay scenarios (multisig adapter of /verif/replay)

def _addr_json(m, a):
    p = ev(m, a.proto)
    k = ev(m, a.key)
    if p == 0:
        return k
    return {{1: 'secp', 2: 'actor', 3: 'bls', 4: 'actor'}[p]: k % 250}


def _resolve_json(E, rt, m):
    out = []
    for (kt, val) in rt.funcs.get('resolve', []):
        a = AddrV(kt[1], kt[2])
        if val.vname == 'Some':
            out.append({'addr': _addr_json(m, a), 'id': ev(m, val.fields[('Some', 0)].v)})
    return out


def _txn_json(E, m, tid, tx):
    ST, TX = _fields()
    ap = E.deref(fget(E, tx, TX['approved'], 'Vec<Address>')).items
    return {'id': ev(m, tid), 'to': _addr_json(m, fget(E, tx, TX['to'], ADDR)), 'value': str(ev(m, fget(E, tx, TX['value'], TOKEN).v)),
            'method': ev(m, fget(E, tx, TX['method'], 'u64').v), 'params_hex': '', 'approved': [_addr_json(m, a) for a in ap]}


def _hash_choice(E, res, m, hp):
    """'none' | 'auto' | 'wrong' for the proposal_hash parameter"""
    n = ev(m, models_fvm._symbytes_len(E, hp).v)
    if n == 0:
        return 'none'
    for k, b in res.ctx.memo.items():
        if isinstance(k, tuple) and k and k[0] == 'byteseq' and hp.name in k:
            return 'auto' if ev(m, b) else 'wrong'
    return 'auto'


def make_scenario(method):
    def scenario(E, res, m):
        ST, TX = _fields()
        env = res.ctx.env
        rt, pre = env['rt'], env['pre']
        pend = []
        for e in base_info(E, pre['base']).entries:
            if e[1] is True:
                pend.append(_txn_json(E, m, e[0][1], e[2]))
        sc = {'actor': 'multisig', 'method': method, 'signers': [ev(m, s.key) for s in pre['signers']],
              'threshold': ev(m, pre['thr']), 'next_tx_id': ev(m, pre['nxt']), 'initial_balance': str(ev(m, pre['init'])),
              'start_epoch': ev(m, pre['start']), 'unlock_duration': ev(m, pre['dur']), 'pending': pend,
              'caller': ev(m, rt.caller.key), 'receiver': ev(m, rt.receiver.key), 'epoch': ev(m, rt.epoch),
              'balance': str(ev(m, z3.Int('rt.balance'))), 'resolve': _resolve_json(E, rt, m), 'entry': 'direct',
              'sends': send_script(E, rt, m)}
        pa = env.get('params')
        if method == 'Propose':
            PP = Fields('actors/multisig/src/types.rs', 'ProposeParams')
            sc['params'] = {'to': _addr_json(m, fget(E, pa, PP['to'], ADDR)), 'value': str(ev(m, fget(E, pa, PP['value'], TOKEN).v)),
                            'method': ev(m, fget(E, pa, PP['method'], 'u64').v), 'params_hex': ''}
        elif method in ('Approve', 'Cancel'):
            sc['params'] = {'id': ev(m, fget(E, fget(E, pa, 0, 'TxnID'), 0, 'i64').v),
                            'proposal_hash': _hash_choice(E, res, m, fget(E, pa, 1, 'std::vec::Vec<u8>'))}
        elif method == 'AddSigner':
            sc['params'] = {'signer': _addr_json(m, fget(E, pa, 0, ADDR)), 'increase': bool(ev(m, fget(E, pa, 1, 'bool')))}
        elif method == 'RemoveSigner':
            sc['params'] = {'signer': _addr_json(m, fget(E, pa, 0, ADDR)), 'decrease': bool(ev(m, fget(E, pa, 1, 'bool')))}
        elif method == 'SwapSigner':
            sc['params'] = {'from': _addr_json(m, fget(E, pa, 0, ADDR)), 'to': _addr_json(m, fget(E, pa, 1, ADDR))}
        elif method == 'ChangeNumApprovalsThreshold':
            sc['params'] = {'new_threshold': ev(m, fget(E, pa, 0, 'u64').v)}
        elif method == 'LockBalance':
            sc['params'] = {'start_epoch': ev(m, fget(E, pa, 0, 'i64').v), 'unlock_duration': ev(m, fget(E, pa, 1, 'i64').v),
                            'amount': str(ev(m, fget(E, pa, 2, TOKEN).v))}
        pred = {'result': result_pred(E, res, m), 'sends': sends_pred(E, rt, m)}
        if res.kind == 'return' and is_ok(res.value):
            f = state_fields(E, rt.state)
            pred['signers'] = [ev(m, s.key) for s in f['signers']]
            pred['threshold'] = ev(m, f['thr'])
            pred['next_tx_id'] = ev(m, f['nxt'])
            pred['initial_balance'] = str(ev(m, f['init']))
            pred['start_epoch'] = ev(m, f['start'])
            pred['unlock_duration'] = ev(m, f['dur'])
            fin = {}
            for e in base_info(E, pre['base']).entries:
                if e[1] is True:
                    fin[ev(m, e[0][1])] = e[2]
            for (k, pres, val, _) in f['pending'].over:
                if pres:
                    fin[ev(m, k[1])] = val
                else:
                    fin.pop(ev(m, k[1]), None)
            pred['pending'] = [{'id': i, 'approved': [_addr_json(m, a) for a in E.deref(fget(E, tx, TX['approved'], 'Vec<Address>')).items]}
                               for i, tx in sorted(fin.items())]
        sc['predicted'] = pred
        return sc
    return scenario
