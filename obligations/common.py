"""shared helpers for the per-property obligation modules"""
import z3
from mirsym.engine import *
from mirsym.values import *
from mirsym.obligation import *
from mirsym import models_core, models_fvm, models_std, models_evm
from mirsym.models_core import variant, payload, deep_eq, some, none, ok, err
from mirsym.models_fvm import (RuntimeM, AddrV, addr_eq, BigV, big, MapM, base_info, BaseInfo, key_eq, heap_get, CidV,
                               BlockV, SymBytes, new_cid, ACTOR_TYPES)

TOKEN = 'fvm_shared::econ::TokenAmount'
ADDR = 'fvm_shared::address::Address'
CID = 'cid::CidGeneric<64>'


def new_rt(E, name='rt'):
    rt = RuntimeM(E, name)
    E.ctx.env['rt'] = rt
    return rt, RefV(Cell(ObjV(rt), 'rt'), ())


def find_fn(E, crate, last, contains=None):
    fs = [f for f in E.prog.by_last.get(last, []) if f.crate == crate and '{closure' not in f.name
          and (contains is None or contains in f.name)]
    if len(fs) != 1:
        raise Inconclusive('function %s (%s) not found uniquely in %s: %s' % (last, contains, crate, [f.name for f in fs]))
    return fs[0]


def zv(x):
    """z3 term or python int of a scalar value"""
    if isinstance(x, (IntV, BigV)):
        return x.v
    return x


def decided_entry(ctx, entries, kt):
    """entry of a forked map whose key is (provably, on this path) equal to kt"""
    for e in entries:
        if implied(ctx, key_eq(e[0], kt)):
            return e
    return None


def final_lookup(E, m, kt):
    """(present, value) of key kt in map value m on this path, without forking (aliasing was decided during execution)"""
    ctx = E.ctx
    for (k, pres, val, _) in reversed(m.over):
        if implied(ctx, key_eq(k, kt)):
            return pres, val
    if m.base is None:
        return False, None
    b = base_info(E, m.base)
    e = decided_entry(ctx, b.entries, kt)
    if e is None:
        return None, None   # never looked up: unchanged from the (unknown) base
    return e[1], e[2]


def base_lookup(E, basename, kt):
    b = base_info(E, basename)
    e = decided_entry(E.ctx, b.entries, kt)
    if e is None:
        return None, None
    return e[1], e[2]


def all_of(xs):
    r = True
    for x in xs:
        r = b_and(r, x)
    return r


def any_of(xs):
    r = False
    for x in xs:
        r = b_or(r, x)
    return r


def iff(a, b):
    if isinstance(a, bool) and isinstance(b, bool):
        return a == b
    a = a if is_sym(a) else z3.BoolVal(a)
    b = b if is_sym(b) else z3.BoolVal(b)
    return a == b


def implies(a, b):
    return b_or(b_not(a), b)


def send_script(E, rt, m, ret_of=None):
    """scripted outcomes of the nested sends on this path (for the native replay runtime)"""
    out = []
    for i, s in enumerate(rt.sends):
        if s.ok:
            r = ret_of(i, s) if ret_of else None
            out.append({'ok': True, 'ret': r})
        elif s.syscall_err:
            name = s.syscall_err if s.syscall_err not in ('syserr', 'in_tx', 'negative value') else 'NotFound'
            out.append({'syserr': name})
        else:
            out.append({'ok': False, 'exit_code': ev(m, s.exit_code) if s.exit_code is not None else 1})
    return out


def sends_pred(E, rt, m):
    out = []
    for s in rt.sends:
        d = {'method': ev(m, zv(s.method)), 'value': str(ev(m, s.value))}
        if ev(m, s.to.proto) == 0:
            d['to'] = ev(m, s.to.key)        # non-ID targets are printed as address strings by the native side: not compared
        out.append(d)
    return out


def result_pred(E, res, m):
    if res.kind != 'return':
        return 'panic'
    v = res.value
    if is_ok(v):
        return 'Ok'
    c = err_code(E, v)
    return 'Err(%d)' % ev(m, c)


def find_mat(ctx, prefix, suffix):
    """a lazily materialised value by the shape of its symbolic name"""
    for k, v in ctx.memo.items():
        if isinstance(k, tuple) and len(k) == 3 and k[0] == 'mat' and k[2].startswith(prefix) and k[2].endswith(suffix) \
                and k[2].count('.') == (prefix + suffix).count('.') + k[2][len(prefix):].split('>')[0].count('.'):
            return v
    return None
