pub mod util;
mod c17_bitwise;
mod c17_boolean;
pub mod c17_arith;
mod c17_uints;
pub mod c18_stack;
mod c17_stackops;
