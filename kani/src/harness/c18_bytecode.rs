//! C18 – jump destination analysis (interpreter/bytecode.rs) and Memory::grow
//! (interpreter/memory.rs).
//!
//! Yellow Paper 9.4.3: the set of valid jump destinations D(c) are the positions of a JUMPDEST
//! (0x5b) opcode that are reached by scanning the code from position 0 where each PUSHn
//! (0x60..=0x7f) skips its n immediate bytes.  The oracle below is a byte-by-byte state
//! machine (counter of pending immediate bytes) with the opcode numbers written as LITERALS
//! from the Yellow Paper; the implementation gets its numbers from the opcode table in
//! /repo/actors/evm/src/interpreter/execution.rs via the generated `opcodes` module.
use crate::interpreter::bytecode::Bytecode;
use crate::interpreter::memory::Memory;

fn jumpdest_case<const N: usize>() {
    let code: [u8; N] = kani::any();
    let len: usize = kani::any();
    kani::assume(len <= N);
    let bc = Bytecode::new(code[..len].to_vec());

    // ---- independent reference scanner
    let mut valid = [false; N];
    let mut pending: usize = 0; // immediate bytes of an earlier PUSH still to be skipped
    let mut i = 0;
    while i < N {
        if i < len {
            if pending > 0 {
                pending -= 1;
            } else {
                let op = code[i];
                if op == 0x5b {
                    valid[i] = true;
                } else if op >= 0x60 && op <= 0x7f {
                    pending = (op - 0x5f) as usize;
                }
            }
        }
        i += 1;
    }

    let q: usize = kani::any(); // ANY offset, also far outside the code
    let expect = q < len && valid[q];
    assert!(bc.valid_jump_destination(q) == expect);
    // Deref / AsRef give the code back unchanged
    assert!(bc.len() == len);
    let r: usize = kani::any();
    kani::assume(r < len);
    assert!(bc[r] == code[r]);
    assert!(bc.as_ref()[r] == code[r]);

    // witnesses: a 0x5b hidden in PUSH data (invalid), and a real destination after a PUSH
    kani::cover!(q >= 2 && q < len && code[q] == 0x5b && !expect);
    kani::cover!(q >= 2 && expect && code[0] == 0x60);
    kani::cover!(q >= len && len == N);
}

/// All byte strings of length <= 6, any query offset.
#[kani::proof]
#[kani::unwind(9)]
fn c18_bytecode_jumpdest() {
    jumpdest_case::<6>()
}

/// All byte strings of length <= 10 (thorough tier).
#[kani::proof]
#[kani::unwind(13)]
fn c18_bytecode_jumpdest_10() {
    jumpdest_case::<10>()
}

/// Memory::grow: MSIZE stays a multiple of 32, memory never shrinks, grows to exactly
/// ceil32(new_size) when larger, old contents are preserved and new bytes are zero
/// (Yellow Paper: memory is zero-initialised, µ_i counts 32-byte words).
/// Two successive grows with symbolic sizes <= 96 bytes.
#[kani::proof]
#[kani::unwind(100)]
fn c18_memory_grow() {
    let mut m = Memory::default();
    assert!(m.len() == 0);
    let a: usize = kani::any();
    let b: usize = kani::any();
    kani::assume(a <= 96 && b <= 96);
    m.grow(a);
    let la = m.len();
    let ca = (a + 31) / 32 * 32;
    assert!(la == ca);
    // write a marker into the first grown region
    let marker: u8 = kani::any();
    let p: usize = kani::any();
    kani::assume(p < la);
    m[p] = marker;
    m.grow(b);
    let lb = m.len();
    let cb = (b + 31) / 32 * 32;
    assert!(lb == if cb > la { cb } else { la });
    assert!(lb % 32 == 0 && lb >= b && lb >= la);
    let q: usize = kani::any();
    kani::assume(q < lb);
    if q == p {
        assert!(m[q] == marker);
    } else {
        assert!(m[q] == 0);
    }
    kani::cover!(a == 33 && b == 65 && q == 95 && p == 63 && marker == 7);
    kani::cover!(a == 64 && b == 1);
    kani::cover!(a == 0 && b == 0);
}
