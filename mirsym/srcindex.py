"""Reads the facts MIR text does not carry from the source files: which type/trait an
`<impl at file:line:col>` block belongs to, and the variant order of enums."""
import os
import re
import glob
import functools

REPO = os.environ.get('VERIF_REPO', '/repo')
CARGO_SRC = glob.glob(os.path.expanduser('~/.cargo/registry/src/*/'))


@functools.lru_cache(maxsize=None)
def _lines(path):
    try:
        with open(path, errors='replace') as f:
            return f.read().split('\n')
    except OSError:
        return None


def _strip_generics(s):
    out = []
    depth = 0
    for i, c in enumerate(s):
        if c == '<':
            depth += 1
            continue
        if c == '>':
            if i > 0 and s[i - 1] == '-':
                out.append(c)
                continue
            depth -= 1
            continue
        if depth == 0:
            out.append(c)
    return ''.join(out)


def _head(t):
    t = t.strip()
    while t.startswith('&'):
        t = t[1:].lstrip()
        if t.startswith("'"):
            t = t.split(' ', 1)[1] if ' ' in t else t
        if t.startswith('mut '):
            t = t[4:]
    t = _strip_generics(t).strip()
    if t.startswith('dyn '):
        t = t[4:]
    return t.split('::')[-1].strip()


@functools.lru_cache(maxsize=None)
def impl_info(file, line, col, line2, col2):
    """returns dict(trait=<name or None>, self=<type head>, generic_self=bool) for an impl location"""
    path = os.path.join(REPO, file)
    ls = _lines(path)
    if ls is None or line > len(ls):
        return None
    text = ls[line - 1]
    if file.startswith('/') and '\t' in text[:col + 2]:
        # external macro source indented with tabs: rustc columns count a tab as one character
        pass
    seg = text[col - 1:col2 - 1] if line == line2 else text[col - 1:]
    if seg.startswith('impl') or seg.startswith('unsafe impl'):
        # gather the header up to '{'
        hdr = ''
        k = line - 1
        first = True
        while k < len(ls) and k < line + 30:
            part = ls[k][col - 1:] if first else ls[k]
            first = False
            if '{' in part:
                hdr += ' ' + part.split('{')[0]
                break
            hdr += ' ' + part
            k += 1
        hdr = re.sub(r'\s+', ' ', hdr).strip()
        hdr = hdr.split(' where ')[0]
        hdr = re.sub(r'^(unsafe )?impl', '', hdr).strip()
        gparams = []
        if hdr.startswith('<'):
            # skip generic params
            depth = 0
            for i, c in enumerate(hdr):
                if c == '<':
                    depth += 1
                elif c == '>' and hdr[i - 1] != '-':
                    depth -= 1
                    if depth == 0:
                        g = hdr[1:i]
                        gparams = [x.strip().split(':')[0].strip() for x in _split_commas(g)]
                        hdr = hdr[i + 1:].strip()
                        break
        if ' for ' in _strip_generics(hdr):
            # split at top-level ' for '
            idx = _top_find(hdr, ' for ')
            tr, ty = hdr[:idx], hdr[idx + 5:]
        else:
            tr, ty = None, hdr
        selfhead = _head(ty)
        info = {'trait': _head(tr) if tr else None, 'self': selfhead, 'generic_self': selfhead in gparams,
                'derive': False, 'trait_full': tr.strip() if tr else None, 'self_full': ty.strip()}
        if '$' in ty:
            # impl inside a macro_rules! body of another crate (impl Trait for $name): the self type is only visible in
            # the signatures of the generated functions
            info['macro_external'] = True
        return info
    mm = re.match(r'\s*[A-Za-z_][A-Za-z0-9_:]*!\s*[\{\(]\s*(?:#\[[^\]]*\]\s*)*(?:pub(?:\([a-z]+\))? )?struct ([A-Za-z0-9_]+)', seg)
    if mm:
        # item-generating macro (construct_uint! { pub struct U256(4); }): inherent and trait impls of the new type all
        # carry the macro call site; the trait cannot be recovered from the source
        return {'trait': None, 'self': mm.group(1), 'generic_self': False, 'derive': False, 'trait_full': None,
                'self_full': mm.group(1), 'macro': True}
    # derive attribute: seg is the derive name; the type is the next struct/enum/union item
    name = seg.strip()
    k = line - 1
    while k < len(ls) and k < line + 60:
        m = re.match(r'\s*(?:pub(?:\([a-z]+\))? )?(?:struct|enum|union) ([A-Za-z0-9_]+)', ls[k])
        if m:
            return {'trait': name.split('::')[-1], 'self': m.group(1), 'generic_self': False, 'derive': True,
                    'trait_full': name, 'self_full': m.group(1)}
        k += 1
    return None


def _split_commas(s):
    out, depth, cur = [], 0, []
    for i, c in enumerate(s):
        if c in '<([':
            depth += 1
        elif c in '>)]' and not (c == '>' and i > 0 and s[i - 1] == '-'):
            depth -= 1
        if c == ',' and depth == 0:
            out.append(''.join(cur))
            cur = []
        else:
            cur.append(c)
    if cur:
        out.append(''.join(cur))
    return out


def _top_find(s, needle):
    depth = 0
    for i, c in enumerate(s):
        if c == '<':
            depth += 1
        elif c == '>' and not (i > 0 and s[i - 1] == '-'):
            depth -= 1
        if depth == 0 and s.startswith(needle, i):
            return i
    return -1


# ---------------------------------------------------------------------------------------
# enum definitions

ENUM_RE = re.compile(r'^\s*(?:pub(?:\([a-z]+\))? )?enum ([A-Za-z0-9_]+)')

BUILTIN_ENUMS = {
    'Option': ['None', 'Some'],
    'Result': ['Ok', 'Err'],
    'ControlFlow': ['Continue', 'Break'],
    'Ordering': ['Less', 'Equal', 'Greater'],
    'EitherOrBoth': ['Both', 'Left', 'Right'],
    'Either': ['Left', 'Right'],
    'Cow': ['Borrowed', 'Owned'],
    'Bound': ['Included', 'Excluded', 'Unbounded'],
}
BUILTIN_DISCR = {'Ordering': {'Less': -1, 'Equal': 0, 'Greater': 1}}


def _scan_enums_in(path, out):
    ls = _lines(path)
    if ls is None:
        return
    i = 0
    n = len(ls)
    while i < n:
        m = ENUM_RE.match(ls[i])
        if m and '{' in ''.join(ls[i:i + 3]):
            name = m.group(1)
            # collect body
            depth = 0
            body = []
            started = False
            k = i
            while k < n:
                line = re.sub(r'//.*$', '', ls[k])
                for c in line:
                    if c == '{':
                        depth += 1
                        if depth == 1 and not started:
                            started = True
                            continue
                    if c == '}':
                        depth -= 1
                        if depth == 0 and started:
                            break
                    if started and depth >= 1:
                        body.append(c)
                if started and depth == 0:
                    break
                body.append('\n')
                k += 1
            text = ''.join(body)
            text = re.sub(r'/\*.*?\*/', '', text, flags=re.S)
            variants = []
            discr = {}
            nextd = 0
            for part in _split_commas_braces(text):
                part = re.sub(r'#\[[^\]]*\]', '', part, flags=re.S).strip()
                if not part:
                    continue
                mm = re.match(r'([A-Za-z0-9_]+)', part)
                if not mm:
                    continue
                vn = mm.group(1)
                md = re.search(r'=\s*(-?\d+|0x[0-9a-fA-F]+)\s*$', part)
                if md and '(' not in part and '{' not in part:
                    nextd = int(md.group(1), 0)
                variants.append(vn)
                discr[vn] = nextd
                nextd += 1
            out.setdefault(name, []).append({'variants': variants, 'discr': discr, 'file': path})
            i = k + 1
            continue
        i += 1


def _split_commas_braces(s):
    out, depth, cur = [], 0, []
    for c in s:
        if c in '<([{':
            depth += 1
        elif c in '>)]}':
            depth -= 1
        if c == ',' and depth == 0:
            out.append(''.join(cur))
            cur = []
        else:
            cur.append(c)
    if ''.join(cur).strip():
        out.append(''.join(cur))
    return out


@functools.lru_cache(maxsize=None)
def enum_table():
    out = {}
    roots = [os.path.join(REPO, d) for d in ('actors', 'runtime', 'state', 'vm_api')]
    for r in roots:
        for p in glob.glob(os.path.join(r, '**', '*.rs'), recursive=True):
            if '/tests/' in p or '/target/' in p:
                continue
            _scan_enums_in(p, out)
    for base in CARGO_SRC:
        for crate in ('fvm_shared-4.8.2', 'fvm_ipld_encoding-0.5.4', 'fvm_ipld_amt-0.7.7', 'fvm_ipld_hamt-0.10.6',
                      'frc46_token-15.0.0', 'fvm_actor_utils-15.0.0', 'fvm_ipld_bitfield-0.7.2', 'fvm_ipld_kamt-0.4.6'):
            for p in glob.glob(os.path.join(base, crate, 'src', '**', '*.rs'), recursive=True):
                _scan_enums_in(p, out)
    return out


def enum_variants(tyhead, hint_variant=None):
    """returns (variants list, discr dict) for an enum type head; disambiguates same-named enums by
    a variant name that must be present."""
    if tyhead in BUILTIN_ENUMS:
        vs = BUILTIN_ENUMS[tyhead]
        d = BUILTIN_DISCR.get(tyhead) or {v: i for i, v in enumerate(vs)}
        return vs, d
    cands = enum_table().get(tyhead, [])
    if hint_variant is not None:
        cands = [c for c in cands if hint_variant in c['variants']] or cands
    if not cands:
        return None, None
    # identical definitions in several files are fine
    c = cands[0]
    return c['variants'], c['discr']


@functools.lru_cache(maxsize=None)
def newtype_table():
    """tuple structs with a single field:  struct Name(pub T);  ->  {Name: T}"""
    out = {}
    rx = re.compile(r'struct\s+([A-Za-z0-9_]+)\s*\(\s*(?:pub(?:\([a-z]+\))?\s+)?([A-Za-z0-9_:<>]+)\s*\)\s*;')
    roots = [os.path.join(REPO, d) for d in ('actors', 'runtime')]
    for r in roots:
        for p in glob.glob(os.path.join(r, '**', '*.rs'), recursive=True):
            if '/tests/' in p or '/target/' in p:
                continue
            ls = _lines(p)
            if ls is None:
                continue
            for m in rx.finditer('\n'.join(ls)):
                out[m.group(1)] = m.group(2)
    return out
