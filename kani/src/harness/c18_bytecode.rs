//! C18 – jump destination analysis (interpreter/bytecode.rs) and Memory::grow
//! (interpreter/memory.rs).
//!
//! Yellow Paper 9.4.3: the set of valid jump destinations D(c) are the positions of a JUMPDEST
//! (0x5b) opcode that are reached by scanning the code from position 0 where each PUSHn
//! (0x60..=0x7f) skips its n immediate bytes.  The oracle below is a byte-by-byte state
//! machine (counter of pending immediate bytes) with the opcode numbers written as LITERALS
//! from the Yellow Paper; the implementation gets its numbers from the opcode table in
//! /repo/actors/evm/src/interpreter/execution.rs via the generated `opcodes` module.
use crate::interpreter::bytecode::Bytecode;
use crate::interpreter::memory::Memory;

fn jumpdest_case<const N: usize>() {
    let code: [u8; N] = kani::any();
    let len: usize = kani::any();
    kani::assume(len <= N);
    let bc = Bytecode::new(code[..len].to_vec());

    // ---- independent reference scanner
    let mut valid = [false; N];
    let mut pending: usize = 0; // immediate bytes of an earlier PUSH still to be skipped
    let mut i = 0;
    while i < N {
        if i < len {
            if pending > 0 {
                pending -= 1;
            } else {
                let op = code[i];
                if op == 0x5b {
                    valid[i] = true;
                } else if op >= 0x60 && op <= 0x7f {
                    pending = (op - 0x5f) as usize;
                }
            }
        }
        i += 1;
    }

    let q: usize = kani::any(); // ANY offset, also far outside the code
    let expect = q < len && valid[q];
    assert!(bc.valid_jump_destination(q) == expect);
    // Deref / AsRef give the code back unchanged
    assert!(bc.len() == len);
    let r: usize = kani::any();
    kani::assume(r < len);
    assert!(bc[r] == code[r]);
    assert!(bc.as_ref()[r] == code[r]);

    // witnesses: a 0x5b hidden in PUSH data (invalid), and a real destination after a PUSH
    kani::cover!(q >= 2 && q < len && code[q] == 0x5b && !expect);
    kani::cover!(q >= 2 && expect && code[0] == 0x60);
    kani::cover!(q >= len && len == N);
}

/// All byte strings of length <= 6, any query offset.
#[kani::proof]
#[kani::unwind(9)]
fn c18_bytecode_jumpdest() {
    jumpdest_case::<6>()
}

/// All byte strings of length <= 10 (thorough tier).
#[kani::proof]
#[kani::unwind(13)]
fn c18_bytecode_jumpdest_10() {
    jumpdest_case::<10>()
}

/// Memory::grow: MSIZE stays a multiple of 32, memory never shrinks, grows to exactly
/// ceil32(new_size) when larger, old contents are preserved and new bytes are zero
/// (Yellow Paper: memory is zero-initialised, µ_i counts 32-byte words).
/// Two successive grows, sizes ENUMERATED over {0, 1, 33} x {0, 32, 65} (5 x 5 sizes up to 95:
/// 135 s / 6.2 GB; symbolic
/// sizes make the 4 KiB page object symbolically indexed: 11.9 GB / OOM), symbolic marker
/// byte, symbolic read position.  (`Vec::resize` writes byte by byte: unwind 100 > 96.)
#[kani::proof]
#[kani::unwind(100)]
fn c18_memory_grow() {
    let first = [0usize, 1, 33];
    let second = [0usize, 32, 65];
    let mut i = 0;
    while i < 3 {
        let mut j = 0;
        while j < 3 {
            grow_case(first[i], second[j]);
            j += 1;
        }
        i += 1;
    }
    kani::cover!(i == 3);
}

fn grow_case(a: usize, b: usize) {
    let mut m = Memory::default();
    assert!(m.len() == 0);
    m.grow(a);
    let la = m.len();
    assert!(la == (a + 31) / 32 * 32);
    // a marker byte at the end of the first region must survive the second grow
    let marker: u8 = kani::any();
    if la > 0 {
        m[la - 1] = marker;
    }
    m.grow(b);
    let lb = m.len();
    let cb = (b + 31) / 32 * 32;
    assert!(lb == if cb > la { cb } else { la });
    assert!(lb % 32 == 0 && lb >= b && lb >= la);
    // (no kani::assume here: the cases run one after the other, an infeasible case would
    // silently cut off all later ones – the cover witnesses below guard against that)
    let q: usize = kani::any();
    if q < lb {
        if la > 0 && q == la - 1 {
            assert!(m[q] == marker);
        } else {
            assert!(m[q] == 0);
        }
    }
    if a == 33 && b == 65 {
        kani::cover!(q == 95 && marker == 7);
    }
}
