use fil_actor_market::ActivatedDeal;
use fil_actor_miner::ext::verifreg::Claim as FILPlusClaim;
use fil_actor_miner::{
    ExpirationExtension2, ExtendSectorExpiration2Params, SectorClaim, SectorOnChainInfo, State,
};
use fil_actors_runtime::{
    runtime::Runtime,
    test_utils::{MockRuntime, make_piece_cid},
};
use fvm_ipld_bitfield::BitField;
use fvm_shared::deal::DealID;
use fvm_shared::{
    ActorID, address::Address, clock::ChainEpoch, sector::RegisteredSealProof,
};
use std::collections::HashMap;

mod util;
use util::*;

const DEFAULT_SECTOR_EXPIRATION: ChainEpoch = 220;

fn setup() -> (ActorHarness, MockRuntime) {
    let mut h = ActorHarness::new(100);
    h.set_proof_type(RegisteredSealProof::StackedDRG512MiBV1);
    let rt = h.new_runtime();
    rt.balance.replace(BIG_BALANCE.clone());
    rt.set_epoch(1);
    (h, rt)
}

fn commit_sector_verified_deals(
    verified_deals: &[ActivatedDeal],
    h: &mut ActorHarness,
    rt: &MockRuntime,
) -> SectorOnChainInfo {
    h.construct_and_verify(rt);
    let mut pcc = ProveCommitConfig::empty();
    pcc.add_activated_deals(h.next_sector_no, verified_deals.to_owned());
    let deal_ids: Vec<DealID> = (0..verified_deals.len() as u64).collect();
    h.commit_and_prove_sectors_with_cfgs(rt, 1, DEFAULT_SECTOR_EXPIRATION as u64, vec![deal_ids], true, pcc)[0].clone()
}

fn make_claim(
    claim_id: u64,
    sector: &SectorOnChainInfo,
    client: ActorID,
    provider: ActorID,
    claim_end: ChainEpoch,
    deal: &ActivatedDeal,
    term_min: ChainEpoch,
) -> FILPlusClaim {
    FILPlusClaim {
        provider,
        client,
        data: make_piece_cid(format!("piece for claim {}", claim_id).as_bytes()),
        size: deal.size,
        term_min,
        term_max: claim_end - sector.activation,
        term_start: sector.activation,
        sector: sector.sector_number,
    }
}

// ORIGINAL-code probe: duplicate maintained claim id
#[test]
fn probe_duplicate_maintain() {
    let (mut h, rt) = setup();
    let verified_deals = vec![
        test_activated_deal(h.sector_size as u64 / 2, 1),
        test_activated_deal(h.sector_size as u64 / 2, 2),
    ];
    let old_sector = commit_sector_verified_deals(&verified_deals, &mut h, &rt);
    h.advance_and_submit_posts(&rt, std::slice::from_ref(&old_sector));
    let state: State = rt.get_state();
    let (dl, part) = state.find_sector(rt.store(), old_sector.sector_number).unwrap();
    let policy = rt.policy.clone();
    let new_expiration = old_sector.expiration + 42 * policy.wpost_proving_period;
    let client = Address::new_id(3000).id().unwrap();
    let provider = h.receiver.id().unwrap();
    let claim_short = make_claim(400, &old_sector, client, provider, old_sector.expiration, &verified_deals[0], policy.minimum_verified_allocation_term);
    let claim_long = make_claim(500, &old_sector, client, provider, new_expiration, &verified_deals[1], policy.minimum_verified_allocation_term);
    let mut claims = HashMap::new();
    claims.insert(400u64, Ok(claim_short));
    claims.insert(500u64, Ok(claim_long));
    let params = ExtendSectorExpiration2Params {
        extensions: vec![ExpirationExtension2 {
            deadline: dl,
            partition: part,
            sectors: BitField::new(),
            new_expiration,
            sectors_with_claims: vec![SectorClaim {
                sector_number: old_sector.sector_number,
                maintain_claims: vec![500, 500],
                drop_claims: vec![],
            }],
        }],
    };
    let res = h.extend_sectors2(&rt, params, claims);
    println!("PROBE dup result: {:?}", res.as_ref().map(|_| ()).map_err(|e| e.msg().to_string()));
    let s = h.get_sector(&rt, old_sector.sector_number);
    println!("PROBE dup: old exp {} new exp {} old w {} new w {}", old_sector.expiration, s.expiration, old_sector.verified_deal_weight, s.verified_deal_weight);
}

// ORIGINAL-code probe: same sector in two declarations
#[test]
fn probe_two_decls() {
    let (mut h, rt) = setup();
    let verified_deals = vec![test_activated_deal(h.sector_size as u64, 1)];
    let old_sector = commit_sector_verified_deals(&verified_deals, &mut h, &rt);
    h.advance_and_submit_posts(&rt, std::slice::from_ref(&old_sector));
    let state: State = rt.get_state();
    let (dl, part) = state.find_sector(rt.store(), old_sector.sector_number).unwrap();
    let policy = rt.policy.clone();
    let new_expiration = old_sector.expiration + 42 * policy.wpost_proving_period;
    let client = Address::new_id(3000).id().unwrap();
    let provider = h.receiver.id().unwrap();
    // the only claim ends at the old expiration
    let claim = make_claim(400, &old_sector, client, provider, old_sector.expiration, &verified_deals[0], policy.minimum_verified_allocation_term);
    let mut claims: HashMap<u64, Result<FILPlusClaim, fil_actors_runtime::ActorError>> = HashMap::new();
    claims.insert(400u64, Ok(claim));
    let mut bf = BitField::new();
    bf.set(old_sector.sector_number);
    let params = ExtendSectorExpiration2Params {
        extensions: vec![
            ExpirationExtension2 {
                deadline: dl,
                partition: part,
                sectors: BitField::new(),
                new_expiration: old_sector.expiration, // no-op, allowed by the claim
                sectors_with_claims: vec![SectorClaim {
                    sector_number: old_sector.sector_number,
                    maintain_claims: vec![400],
                    drop_claims: vec![],
                }],
            },
            ExpirationExtension2 {
                deadline: dl,
                partition: part,
                sectors: bf,
                new_expiration, // past the claim's max term
                sectors_with_claims: vec![],
            },
        ],
    };
    let res = {
        use fil_actor_miner::{Actor, Method, ext::verifreg::{GetClaimsParams, GetClaimsReturn}};
        use fil_actors_runtime::{BatchReturn, VERIFIED_REGISTRY_ACTOR_ADDR, test_utils::ACCOUNT_ACTOR_CODE_ID};
        use fvm_ipld_encoding::ipld_block::IpldBlock;
        use fvm_shared::econ::TokenAmount;
        use num_traits::Zero;
        rt.set_caller(*ACCOUNT_ACTOR_CODE_ID, h.worker);
        rt.expect_validate_caller_addr(h.caller_addrs());
        rt.expect_send_simple(
            VERIFIED_REGISTRY_ACTOR_ADDR,
            fil_actor_miner::ext::verifreg::GET_CLAIMS_METHOD as u64,
            IpldBlock::serialize_cbor(&GetClaimsParams { provider, claim_ids: vec![400] }).unwrap(),
            TokenAmount::zero(),
            IpldBlock::serialize_cbor(&GetClaimsReturn {
                batch_info: BatchReturn::ok(1),
                claims: vec![claims.get(&400).unwrap().clone().unwrap()],
            })
            .unwrap(),
            fvm_shared::error::ExitCode::OK,
        );
        let r = rt.call::<Actor>(Method::ExtendSectorExpiration2 as u64, IpldBlock::serialize_cbor(&params).unwrap());
        rt.verify();
        r
    };
    println!("PROBE 2decl result: {:?}", res.as_ref().map(|_| ()).map_err(|e| e.msg().to_string()));
    let s = h.get_sector(&rt, old_sector.sector_number);
    println!("PROBE 2decl: old exp {} new exp {} old w {} new w {}", old_sector.expiration, s.expiration, old_sector.verified_deal_weight, s.verified_deal_weight);
}
