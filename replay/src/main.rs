//! verif_replay -- native replay of a solver-found counterexample ("scenario") on the REAL actor code.
//!
//!   verif_replay <file.json>      (normally started by /verif/replay/run.py, which builds this crate
//!                                  against $VERIF_REPO and compares the output with the prediction)
//!
//! The file is either a bare scenario object or the wrapper written by /verif/check
//! ({"property","obligation","label","exit","model","scenario"}).  The binary prints ONE JSON object
//! with the OBSERVATIONS of the native run on stdout and exits 0; it exits 2 with a reason on stderr
//! when the scenario is malformed or names an unknown actor/method.  It never judges the outcome --
//! comparing observations with `scenario["predicted"]` is run.py's job.
//!
//! # How to add an actor (one module + one match arm)
//!
//! 1. Add the crate to `Cargo.toml.in`:   fil_actor_foo = { path = "@REPO@/actors/foo" }
//! 2. Create `src/foo.rs` with `pub fn replay(sc: &serde_json::Value) -> anyhow::Result<serde_json::Value>`:
//!      a. `let rt = ReplayRuntime::from_scenario(sc)?;`      caller / receiver / epoch / balance /
//!         address tables / scripted sends are read from the common scenario keys (see runtime.rs);
//!      b. build the actor's pre-state from the scenario with the actor's own types (HAMTs/AMTs are
//!         built in `rt.store`) and install it with `rt.set_initial_state(&state)?`;
//!      c. build the typed params and run the real entry point inside `rt.run_call(|| ...)`:
//!         `<Actor as ActorCode>::invoke_method(&rt, Method::X as u64, IpldBlock::serialize_cbor(&params)?)`
//!         (or the public associated fn when the scenario says "entry":"direct").  `run_call` catches
//!         panics and applies the trampoline's "caller must have been validated" rule;
//!      d. `let mut obs = rt.common_observations(&outcome);` gives result / sends / deleted / commits /...;
//!         add the actor's post-state read back with `rt.read_state::<State>()` using the same key
//!         names the scenario uses for the pre-state, lists sorted by id;
//!      e. return `Value::Object(obs)`.
//! 3. Add `mod foo;` and the arm `"foo" => foo::replay(sc)` in `dispatch` below.
//! Nothing in run.py needs to change: it compares whatever keys `predicted` contains.
//!
//! Actors whose methods are private fns (miner) can only be entered through `invoke_method`; their adapters
//! accept "entry":"direct" and treat it like "dispatch" (see miner.rs).
//!
//! # Function-level adapters (no message, no runtime)
//!
//! `market_state` replays single `fil_actor_market::State` methods: it builds the state on a bare
//! `MemoryBlockstore`, calls the public method directly inside `runtime::catch_panic` and prints result /
//! ret / post-state in the same conventions (see market_state.rs).  The runtime keys (caller, receiver, ...)
//! are not needed by such a scenario.
//!
//! Conventions: ids are u64 and mean ID addresses; epochs i64; token amounts are arbitrary precision and
//! may be given as JSON numbers or decimal strings, they are printed as decimal strings; a failed call is
//! NOT rolled back by the harness (the VM would): the printed state is what the actor code left behind.

mod json_util;
mod market_state;
mod miner;
mod multisig;
mod paych;
mod runtime;

use anyhow::{anyhow, Result};
use serde_json::Value;

fn dispatch(sc: &Value) -> Result<Value> {
    let actor = json_util::req_str(sc, "actor")?;
    match actor {
        "paych" => paych::replay(sc),
        "multisig" => multisig::replay(sc),
        "market_state" => market_state::replay(sc),
        "miner" => miner::replay(sc),
        other => Err(anyhow!("unknown actor '{}' (adapters: paych, multisig, market_state, miner)", other)),
    }
}

fn run() -> Result<Value> {
    let path = std::env::args().nth(1).ok_or_else(|| anyhow!("usage: verif_replay <scenario.json>"))?;
    let text = std::fs::read_to_string(&path).map_err(|e| anyhow!("cannot read {}: {}", path, e))?;
    let doc: Value = serde_json::from_str(&text).map_err(|e| anyhow!("{} is not valid JSON: {}", path, e))?;
    let sc = match doc.get("scenario") {
        Some(s) if s.is_object() => s,
        Some(_) => return Err(anyhow!("malformed scenario: 'scenario' is not an object")),
        None => &doc,
    };
    dispatch(sc)
}

fn main() {
    match run() {
        Ok(obs) => {
            println!("{}", serde_json::to_string_pretty(&obs).unwrap());
        }
        Err(e) => {
            eprintln!("replay error: {:#}", e);
            std::process::exit(2);
        }
    }
}
