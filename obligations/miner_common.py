"""Symbolic miner actor state for the money obligations (C01, C03, C14, C15, C05).

State = the four ledgers (pre_commit_deposits, locked_funds, initial_pledge, fee_debt), a vesting table with a fixed
number of entries (head + tail object) satisfying its representation invariant (strictly increasing epochs, tail
amounts positive, locked_funds = sum of the table), MinerInfo (see C13) and the scheduling fields."""
from .common import *
from . import C13
from .C12 import _addr_json

MINER = 'fil_actor_miner'
CRATES = ['fil_actors_runtime', 'fil_actor_miner']
VF = 'vesting_state::VestingFund'


def SF():
    return Fields('actors/miner/src/state.rs', 'State')


def mk_vesting(E, n, name='vest'):
    """VestingFunds with n entries (n = 0: None).  returns (value, [(epoch, amount)], total)"""
    ctx = E.ctx
    wrap = lambda o: StructV('vesting_state::VestingFunds', {0: o})
    if n == 0:
        return wrap(EnumV('std::option::Option<vesting_state::VestingFundsInner>', 0, 'None', {})), [], 0
    ents = []
    prev = None
    for i in range(n):
        e = z3.Int('%s%d.epoch' % (name, i))
        a = z3.Int('%s%d.amount' % (name, i))
        ctx.assume(z3.And(e >= 0, e < 2**50))
        if prev is not None:
            ctx.assume(e > prev)
        ctx.assume(a >= 0)      # zero-amount entries occur (exhausted head; floor schedule of tiny sums)
        prev = e
        ents.append((e, a))
    mkf = lambda e, a: StructV(VF, {0: IntV(e, 'i64'), 1: BigV(a)})
    tail = VecV([mkf(e, a) for (e, a) in ents[1:]], 'Vec<VestingFund>')
    tcid = new_cid(E, tail, 'vesttail')
    inner = StructV('vesting_state::VestingFundsInner', {0: mkf(*ents[0]), 1: tcid})
    total = sum(a for (_, a) in ents)
    return wrap(EnumV('std::option::Option<vesting_state::VestingFundsInner>', 1, 'Some', {('Some', 0): inner})), ents, total


def vesting_entries(E, vf):
    """entries [(epoch, amount)] of a VestingFunds value after a call (concrete shape per path)"""
    vf = E.deref(vf)
    if isinstance(vf, StructV) and 0 in vf.fields and isinstance(E.deref(vf.fields[0]), EnumV):
        vf = E.deref(vf.fields[0])      # newtype VestingFunds(Option<Inner>)
    if isinstance(vf, EnumV):
        if vf.vname == 'None':
            return []
        inner = E.deref(vf.fields[('Some', 0)])
    else:
        raise Inconclusive('vesting funds of unexpected shape %r' % (vf,))
    head = E.deref(inner.fields[0])
    tail = heap_get(E, inner.fields[1])
    out = []
    ha = big(E, head.fields[1])
    # load(): the head is part of the table only while its amount is positive
    out.append((head.fields[0].v, ha, 'head'))
    for f in E.deref(tail).items:
        f = E.deref(f)
        out.append((f.fields[0].v, big(E, f.fields[1]), 'tail'))
    return out


def mk_miner_state(E, nvest=1, ncontrol=0, with_info=True):
    ST = SF()
    ctx = E.ctx
    vf, ents, vtotal = mk_vesting(E, nvest)
    fields = {ST['vesting_funds']: vf}
    pre = {}
    if with_info:
        ip = C13.pre_info(E, ncontrol)
        fields[ST['info']] = fget(E, ip['st'], ST['info'], CID)
        pre['info'] = ip['info']
        pre['owner'], pre['worker'], pre['ben'] = ip['owner'], ip['worker'], ip['ben']
    if 'rt' in ctx.env:
        ctx.assume(ctx.env['rt'].receiver.key >= 100)
    st = StructV('State', fields, lazy='st')
    pcd = fget(E, st, ST['pre_commit_deposits'], TOKEN).v
    lf = fget(E, st, ST['locked_funds'], TOKEN).v
    ip_ = fget(E, st, ST['initial_pledge'], TOKEN).v
    fd = fget(E, st, ST['fee_debt'], TOKEN).v
    pps = fget(E, st, ST['proving_period_start'], 'i64').v
    ctx.assume(z3.And(pcd >= 0, ip_ >= 0, fd >= 0, pps >= 0, pps < 2**50))
    ctx.assume(lf == vtotal)                     # C03: locked-funds total = sum of the vesting schedule
    pre.update(dict(st=st, pcd=pcd, lf=lf, ip=ip_, fd=fd, pps=pps, vents=ents, vtotal=vtotal))
    ctx.env['pre'] = pre
    return pre


def ledgers(E, st):
    ST = SF()
    return dict(pcd=fget(E, st, ST['pre_commit_deposits'], TOKEN).v, lf=fget(E, st, ST['locked_funds'], TOKEN).v,
                ip=fget(E, st, ST['initial_pledge'], TOKEN).v, fd=fget(E, st, ST['fee_debt'], TOKEN).v,
                vents=vesting_entries(E, fget(E, st, ST['vesting_funds'], 'vesting_state::VestingFunds')))


def table_sum(ents):
    return sum(a for (_, a, _) in ents) if ents else 0


def table_wellformed(ents, what='vesting table'):
    P = []
    for i, (e, a, k) in enumerate(ents):
        if i > 0:
            P.append(('%s: epochs strictly increasing' % what, e > ents[i - 1][0]))
            P.append(('%s: amounts non-negative' % what, a >= 0))
        else:
            P.append(('%s: head amount non-negative' % what, a >= 0))
    return P


BURNT = 99
POWER = 4
REWARD = 2


def is_burn(s):
    return b_and(s.to.proto == 0, s.to.key == BURNT)


def solvency(rt, led):
    """balance >= pre-commit deposits + vesting funds + initial pledge, all ledgers non-negative"""
    return z3.And(led['pcd'] >= 0, led['lf'] >= 0, led['ip'] >= 0, led['fd'] >= 0,
                  rt.balance >= led['pcd'] + led['lf'] + led['ip'])


# ---------------------------------------------------------------------------------------
# native replay scenarios ("miner" adapter)

def _opt(m, some, f):
    return f() if ev(m, some) else None


def info_json(E, m, info):
    v = C13.view(E, info)
    d = {'owner': ev(m, v['owner'].key), 'worker': ev(m, v['worker'].key), 'control': [ev(m, x.key) for x in v['control']],
         'beneficiary': ev(m, v['ben'].key),
         'beneficiary_term': {'quota': str(ev(m, v['quota'])), 'used_quota': str(ev(m, v['used'])), 'expiration': ev(m, v['exp'])},
         'pending_owner': _opt(m, v['po_some'], lambda: ev(m, v['po'].key)),
         'pending_worker': _opt(m, v['pw_some'], lambda: {'new_worker': ev(m, v['pw_new'].key), 'effective_at': ev(m, v['pw_at'])}) if v['pw_new'] is not None else None,
         'pending_beneficiary': _opt(m, v['pb_some'], lambda: {'new_beneficiary': ev(m, v['pb_new'].key), 'new_quota': str(ev(m, v['pb_quota'])),
                                                               'new_expiration': ev(m, v['pb_exp']), 'approved_by_beneficiary': bool(ev(m, v['pb_by_ben'])),
                                                               'approved_by_nominee': bool(ev(m, v['pb_by_nom']))}) if 'pb_new' in v else None}
    MI = Fields('actors/miner/src/state.rs', 'MinerInfo')
    d['consensus_fault_elapsed'] = ev(m, fget(E, info, MI['consensus_fault_elapsed'], 'i64').v)
    return d


def ledgers_json(E, m, st, vents=None):
    ST = SF()
    led = ledgers(E, st)
    ents = [(e, a) for (e, a, k) in led['vents']]
    return {'pre_commit_deposits': str(ev(m, led['pcd'])), 'locked_funds': str(ev(m, led['lf'])), 'initial_pledge': str(ev(m, led['ip'])),
            'fee_debt': str(ev(m, led['fd'])), 'vesting': [{'epoch': ev(m, e), 'amount': str(ev(m, a))} for (e, a) in ents],
            'vesting_total': str(ev(m, sum(a for (_, a) in ents) if ents else 0))}


def miner_scenario(method, params_fn=None, ret_of=None):
    def scenario(E, res, m):
        ST = SF()
        env = res.ctx.env
        rt, pre = env['rt'], env['pre']
        st0 = pre['st']
        try:
            st_json = ledgers_json(E, m, st0)
        except Exception:
            # obligations over MinerInfo only: ledgers are irrelevant to the method, replay with an empty ledger
            st_json = {'pre_commit_deposits': '0', 'locked_funds': '0', 'initial_pledge': '0', 'fee_debt': '0', 'vesting': [], 'vesting_total': '0'}
        sc = {'actor': 'miner', 'method': method, 'state': st_json, 'caller': ev(m, rt.caller.key),
              'receiver': ev(m, rt.receiver.key), 'epoch': ev(m, rt.epoch), 'balance': str(ev(m, z3.Int('rt.balance'))),
              'value_received': str(ev(m, rt.value_received)), 'entry': 'direct',
              'sends': send_script(E, rt, m, ret_of(E, res, m) if ret_of else None)}
        sc['state']['proving_period_start'] = ev(m, pre['pps']) if 'pps' in pre else 0
        try:
            et = fget(E, st0, ST['early_terminations'], 'fvm_ipld_bitfield::BitField')
            sc['state']['early_terminations_empty'] = bool(ev(m, models_fvm.bitfield_empty(E, et)))
        except Exception:
            sc['state']['early_terminations_empty'] = True
        if 'info' in pre:
            sc['info'] = info_json(E, m, pre['info'])
        from .C12 import _resolve_json
        sc['resolve'] = _resolve_json(E, rt, m)
        if params_fn:
            sc['params'] = params_fn(E, res, m)
        cf = [k for k in res.ctx.memo if isinstance(k, tuple) and len(k) == 3 and k[0] == 'mat' and k[2].endswith('.fault.0')]
        if cf:
            base = cf[0][2][:-2]
            sc['consensus_fault'] = {'target': ev(m, z3.Int(base + '.0.key')), 'epoch': ev(m, z3.Int(base + '.1'))}
        pred = {'result': result_pred(E, res, m), 'sends': sends_pred(E, rt, m)}
        if res.kind == 'return' and is_ok(res.value) and rt.state is not None:
            try:
                pred['state'] = ledgers_json(E, m, rt.state)
                pred['state'].pop('vesting', None)
            except Exception:
                pass
            if 'info' in pre:
                i1 = C13.info_after(E, rt)
                pred['info'] = info_json(E, m, i1 if i1 is not None else pre['info'])
        sc['predicted'] = pred
        return sc
    return scenario
