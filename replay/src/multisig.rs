//! Adapter: multisig actor (`fil_actor_multisig`).
//!
//! scenario = {"actor":"multisig",
//!   "method":"Propose"|"Approve"|"Cancel"|"AddSigner"|"RemoveSigner"|"SwapSigner"|
//!            "ChangeNumApprovalsThreshold"|"LockBalance",
//!   "signers":[address...], "threshold":u64, "next_tx_id":i64,
//!   "initial_balance":amount, "start_epoch":i64, "unlock_duration":i64,
//!   "pending":[{"id":i64,"to":address,"value":amount,"method":u64,"params_hex":"","approved":[address...]}],
//!   "params": Propose {to,value,method,params_hex}
//!           | Approve/Cancel {id, proposal_hash: "auto"|"wrong"|"none"|"<hex>"}
//!           | AddSigner {signer,increase} | RemoveSigner {signer,decrease} | SwapSigner {from,to}
//!           | ChangeNumApprovalsThreshold {new_threshold} | LockBalance {start_epoch,unlock_duration,amount},
//!   ["entry":"dispatch"|"direct"],  + the runtime keys of runtime.rs (caller, receiver, epoch, balance, sends, ...)}
//!
//! "proposal_hash":"auto" = the correct hash of pending txn <id> computed with the real
//! `compute_proposal_hash` (32 zero bytes if there is no such txn), "wrong" = that hash with the first
//! byte flipped, "none" = empty (no check requested).

use anyhow::{anyhow, bail, Context, Result};
use fil_actor_multisig::{
    compute_proposal_hash, Actor as MsigActor, AddSignerParams, ApproveReturn,
    ChangeNumApprovalsThresholdParams, LockBalanceParams, Method, PendingTxnMap, ProposeParams,
    ProposeReturn, RemoveSignerParams, State, SwapSignerParams, Transaction, TxnID, TxnIDParams,
    PENDING_TXN_CONFIG,
};
use fil_actors_runtime::runtime::ActorCode;
use fil_actors_runtime::ActorError;
use fvm_ipld_encoding::ipld_block::IpldBlock;
use fvm_ipld_encoding::RawBytes;
use serde::Serialize;
use serde_json::{json, Value};

use crate::json_util::*;
use crate::runtime::{CallOutcome, ReplayRuntime};

fn parse_txn(t: &Value) -> Result<(TxnID, Transaction)> {
    let id = TxnID(req_i64(t, "id")?);
    let mut approved = vec![];
    for a in list(t, "approved")? {
        approved.push(addr(a)?);
    }
    Ok((
        id,
        Transaction {
            to: addr(req(t, "to")?)?,
            value: req_token(t, "value")?,
            method: opt_u64(t, "method", 0)?,
            params: RawBytes::new(opt_hex(t, "params_hex")?),
            approved,
        },
    ))
}

fn ser<T: Serialize>(p: &T) -> Result<Option<IpldBlock>> {
    IpldBlock::serialize_cbor(p).map_err(|e| anyhow!("cannot encode params: {}", e))
}

fn wrap<T: Serialize>(r: Result<T, ActorError>) -> Result<Option<IpldBlock>, ActorError> {
    r.and_then(|v| Ok(IpldBlock::serialize_cbor(&v)?))
}

fn unit(r: Result<(), ActorError>) -> Result<Option<IpldBlock>, ActorError> {
    r.map(|_| None)
}

pub fn replay(sc: &Value) -> Result<Value> {
    let rt = ReplayRuntime::from_scenario(sc)?;
    let method = req_str(sc, "method")?;
    let direct = match opt(sc, "entry").and_then(|v| v.as_str()) {
        None | Some("dispatch") => false,
        Some("direct") => true,
        Some(other) => bail!("malformed scenario: unknown entry '{}'", other),
    };

    // ---- pre-state
    let mut pending = PendingTxnMap::empty(rt.store.clone(), PENDING_TXN_CONFIG, "pending txns");
    let mut txns: Vec<(TxnID, Transaction)> = vec![];
    for (i, t) in list(sc, "pending")?.iter().enumerate() {
        let (id, txn) = parse_txn(t).with_context(|| format!("pending[{}]", i))?;
        if txns.iter().any(|(j, _)| *j == id) {
            bail!("malformed scenario: pending txn {} listed twice", id);
        }
        pending.set(&id, txn.clone()).map_err(|e| anyhow!("cannot store pending txn {}: {}", id, e.msg()))?;
        txns.push((id, txn));
    }
    let pending_root = pending.flush().map_err(|e| anyhow!("cannot flush pending txns: {}", e.msg()))?;
    drop(pending);
    let mut signers = vec![];
    for s in list(sc, "signers")? {
        signers.push(addr(s)?);
    }
    let st = State {
        signers,
        num_approvals_threshold: req_u64(sc, "threshold")?,
        next_tx_id: TxnID(opt_i64(sc, "next_tx_id", 0)?),
        initial_balance: opt_token(sc, "initial_balance")?,
        start_epoch: opt_i64(sc, "start_epoch", 0)?,
        unlock_duration: opt_i64(sc, "unlock_duration", 0)?,
        pending_txs: pending_root,
    };
    rt.set_initial_state(&st)?;

    // ---- call
    let null = Value::Null;
    let p = sc.get("params").unwrap_or(&null);
    let txn_id_params = |p: &Value| -> Result<TxnIDParams> {
        let id = TxnID(req_i64(p, "id")?);
        let auto = || -> Result<Vec<u8>> {
            match txns.iter().find(|(j, _)| *j == id) {
                Some((_, t)) => Ok(compute_proposal_hash(t, &rt).map_err(|e| anyhow!("compute_proposal_hash: {}", e))?.to_vec()),
                None => Ok(vec![0u8; 32]),
            }
        };
        let proposal_hash = match opt(p, "proposal_hash").and_then(|v| v.as_str()) {
            None | Some("none") | Some("") => vec![],
            Some("auto") => auto()?,
            Some("wrong") => {
                let mut h = auto()?;
                h[0] ^= 0xff;
                h
            }
            Some(_) => hex_of(&p["proposal_hash"])?,
        };
        Ok(TxnIDParams { id, proposal_hash })
    };

    let out: CallOutcome = match method {
        "Propose" => {
            let params = ProposeParams {
                to: addr(req(p, "to")?)?,
                value: req_token(p, "value")?,
                method: opt_u64(p, "method", 0)?,
                params: RawBytes::new(opt_hex(p, "params_hex")?),
            };
            if direct {
                rt.run_call(|| wrap(MsigActor::propose(&rt, params)))
            } else {
                let b = ser(&params)?;
                rt.run_call(|| MsigActor::invoke_method(&rt, Method::Propose as u64, b))
            }
        }
        "Approve" => {
            let params = txn_id_params(p)?;
            if direct {
                rt.run_call(|| wrap(MsigActor::approve(&rt, params)))
            } else {
                let b = ser(&params)?;
                rt.run_call(|| MsigActor::invoke_method(&rt, Method::Approve as u64, b))
            }
        }
        "Cancel" => {
            let params = txn_id_params(p)?;
            if direct {
                rt.run_call(|| unit(MsigActor::cancel(&rt, params)))
            } else {
                let b = ser(&params)?;
                rt.run_call(|| MsigActor::invoke_method(&rt, Method::Cancel as u64, b))
            }
        }
        "AddSigner" => {
            let params = AddSignerParams { signer: addr(req(p, "signer")?)?, increase: opt_bool(p, "increase", false)? };
            if direct {
                rt.run_call(|| unit(MsigActor::add_signer(&rt, params)))
            } else {
                let b = ser(&params)?;
                rt.run_call(|| MsigActor::invoke_method(&rt, Method::AddSigner as u64, b))
            }
        }
        "RemoveSigner" => {
            let params = RemoveSignerParams { signer: addr(req(p, "signer")?)?, decrease: opt_bool(p, "decrease", false)? };
            if direct {
                rt.run_call(|| unit(MsigActor::remove_signer(&rt, params)))
            } else {
                let b = ser(&params)?;
                rt.run_call(|| MsigActor::invoke_method(&rt, Method::RemoveSigner as u64, b))
            }
        }
        "SwapSigner" => {
            let params = SwapSignerParams { from: addr(req(p, "from")?)?, to: addr(req(p, "to")?)? };
            if direct {
                rt.run_call(|| unit(MsigActor::swap_signer(&rt, params)))
            } else {
                let b = ser(&params)?;
                rt.run_call(|| MsigActor::invoke_method(&rt, Method::SwapSigner as u64, b))
            }
        }
        "ChangeNumApprovalsThreshold" => {
            let params = ChangeNumApprovalsThresholdParams { new_threshold: req_u64(p, "new_threshold")? };
            if direct {
                rt.run_call(|| unit(MsigActor::change_num_approvals_threshold(&rt, params)))
            } else {
                let b = ser(&params)?;
                rt.run_call(|| MsigActor::invoke_method(&rt, Method::ChangeNumApprovalsThreshold as u64, b))
            }
        }
        "LockBalance" => {
            let params = LockBalanceParams {
                start_epoch: req_i64(p, "start_epoch")?,
                unlock_duration: req_i64(p, "unlock_duration")?,
                amount: req_token(p, "amount")?,
            };
            if direct {
                rt.run_call(|| unit(MsigActor::lock_balance(&rt, params)))
            } else {
                let b = ser(&params)?;
                rt.run_call(|| MsigActor::invoke_method(&rt, Method::LockBalance as u64, b))
            }
        }
        other => bail!("unknown multisig method '{}'", other),
    };

    // ---- observations
    let mut obs = rt.common_observations(&out);
    if let Some(r) = &out.ret {
        // decoded return value of Propose / Approve
        if method == "Propose" {
            if let Ok(x) = r.deserialize::<ProposeReturn>() {
                obs.insert(
                    "ret".into(),
                    json!({"txn_id": x.txn_id.0, "applied": x.applied, "code": x.code.value(), "ret_hex": hex::encode(x.ret.bytes())}),
                );
            }
        } else if method == "Approve" {
            if let Ok(x) = r.deserialize::<ApproveReturn>() {
                obs.insert(
                    "ret".into(),
                    json!({"applied": x.applied, "code": x.code.value(), "ret_hex": hex::encode(x.ret.bytes())}),
                );
            }
        }
    }
    match rt.read_state::<State>() {
        Ok(Some(st)) => {
            obs.insert("signers".into(), Value::Array(st.signers.iter().map(addr_json).collect()));
            obs.insert("threshold".into(), json!(st.num_approvals_threshold));
            obs.insert("next_tx_id".into(), json!(st.next_tx_id.0));
            obs.insert("initial_balance".into(), token_json(&st.initial_balance));
            obs.insert("start_epoch".into(), json!(st.start_epoch));
            obs.insert("unlock_duration".into(), json!(st.unlock_duration));
            match dump_pending(&rt, &st) {
                Ok(l) => {
                    obs.insert("pending".into(), Value::Array(l));
                }
                Err(e) => {
                    obs.insert("state_error".into(), json!(format!("{:#}", e)));
                }
            }
        }
        Ok(None) => {
            obs.insert("state_error".into(), json!("no state"));
        }
        Err(e) => {
            obs.insert("state_error".into(), json!(format!("{:#}", e)));
        }
    }
    Ok(Value::Object(obs))
}

fn dump_pending(rt: &ReplayRuntime, st: &State) -> Result<Vec<Value>> {
    let m = PendingTxnMap::load(rt.store.clone(), &st.pending_txs, PENDING_TXN_CONFIG, "pending txns")
        .map_err(|e| anyhow!("cannot load pending txns: {}", e.msg()))?;
    let mut v: Vec<(i64, Value)> = vec![];
    m.for_each(|id, t: &Transaction| {
        v.push((
            id.0,
            json!({
                "id": id.0,
                "to": addr_json(&t.to),
                "value": token_json(&t.value),
                "method": t.method,
                "params_hex": hex::encode(t.params.bytes()),
                "approved": t.approved.iter().map(addr_json).collect::<Vec<_>>(),
            }),
        ));
        Ok(())
    })
    .map_err(|e| anyhow!("cannot iterate pending txns: {}", e.msg()))?;
    v.sort_by_key(|(id, _)| *id);
    Ok(v.into_iter().map(|(_, x)| x).collect())
}
