"""C06 — market escrow: locked funds equal outstanding deal obligations.

Inductive steps: locking at publication adds exactly the deal's obligations (client: collateral + total fee,
provider: collateral) and needs unlocked escrow; every processing step of a deal (C07 obligations, re-used here)
moves locked balances and the market-wide totals by exactly the change of the deal's obligations; withdrawals pay
min(requested, escrow - locked) to the account itself (or a miner's owner) and only to approved callers; deposits add
exactly the value received."""
from .common import *
from .market_common import *
from . import C07

PROPERTY = 'C06'


# ---- lock_client_and_provider_balances ---------------------------------------------------------------

def run_lock(E):
    rt, rtref = new_rt(E)
    deal = mk_deal(E)
    tb = mk_tables(E, deal, 0, 0)
    E.ctx.env.update(dict(deal=deal, tb=tb))
    stcell = Cell(tb['st'], 'st')
    fn = find_fn(E, MARKET, 'lock_client_and_provider_balances')
    r = E.run_function(fn, [RefV(stcell, (), True), RefV(Cell(OpaqueV('store'), 'store'), ()), RefV(Cell(deal['v'], 'deal'), ())])
    E.ctx.env['st1'] = stcell.value
    return r, rt


def props_lock(E, res):
    env = res.ctx.env
    deal, tb = env['deal'], env['tb']
    if res.kind != 'return':
        return [('no panic (%s)' % str(res.info)[:60], False)]
    fee = deal['price'] * (deal['end'] - deal['start'])
    need_c = deal['cc'] + fee
    need_p = deal['pc']
    ec0, lc0 = tb['bal']['client']
    ep0, lp0 = tb['bal']['provider']
    if tb['same']:
        covered = lc0 + need_c + need_p <= ec0
    else:
        covered = z3.And(lc0 + need_c <= ec0, lp0 + need_p <= ep0)
    if is_err(res.value):
        # NB: the caller (publish_storage_deals) aborts the whole message on this error, so a partial client lock is undone
        return [('locking is refused only when a party lacks unlocked escrow', z3.Not(covered))]
    ec, lc, ep, lp, em, lm = C07.balances_after(E, env['st1'], deal, tb)
    tcc1, tpc1, tsf1 = totals(E, env['st1'])
    P = [('both parties had enough unlocked escrow', covered)]
    if tb['same']:
        P.append(('locked grows by exactly the deal obligations', lc == lc0 + need_c + need_p))
    else:
        P.append(('client locked grows by collateral + total fee', lc == lc0 + need_c))
        P.append(('provider locked grows by its collateral', lp == lp0 + need_p))
    P.append(('escrow untouched by locking', z3.And(ec == ec0, ep == ep0)))
    P.append(('locked never exceeds escrow', z3.And(lc <= ec, lp <= ep)))
    P.append(('market totals grow by the deal parts', z3.And(tcc1 == tb['tcc'] + deal['cc'], tpc1 == tb['tpc'] + deal['pc'], tsf1 == tb['tsf'] + fee)))
    P += frame_tables(E, lm, [deal['client'], deal['provider']], 'lock')
    P.append(('escrow table not written', len(em.over) == 0))
    return P


# ---- withdraw_balance / add_balance (actor methods) ---------------------------------------------------

def mk_account(E, rt, name='acct', key=None):
    """market state with one account entry; locked <= escrow.  With `key` the two table entries of that account are
    fixed up front (presence of a zero entry arbitrary), otherwise entries are discovered on lookup."""
    ST, DPF, DSF = F()
    ctx = E.ctx
    esc = z3.Int('escrow_' + name)
    lck = z3.Int('locked_' + name)
    ctx.assume(z3.And(lck >= 0, esc >= lck))
    ebase = 'map(st.%d)' % ST['escrow_table']
    lbase = 'map(st.%d)' % ST['locked_table']
    if key is not None:
        eb, lb = BaseInfo(), BaseInfo()
        ctx.memo[('mapbase', ebase)] = eb
        ctx.memo[('mapbase', lbase)] = lb
        kt = ('addr', 0, key)
        a = AddrV(0, key)
        eb.entries.append([kt, z3.Or(esc > 0, z3.Bool('zero_entry_escrow')), BigV(esc), a])
        lb.entries.append([kt, z3.Or(lck > 0, z3.Bool('zero_entry_locked')), BigV(lck), a])

    def hook(E2, m, kt, val):
        if m.base == ebase:
            E2.ctx.assume(val.v == esc)
            E2.ctx.assume(val.v >= 0)
        elif m.base == lbase:
            E2.ctx.assume(val.v == lck)
            E2.ctx.assume(val.v >= 0)
        return None
    ctx.env['map_value_hook'] = hook
    return dict(esc=esc, lck=lck, ebase=ebase, lbase=lbase)


def table_val(E, st, field, base, kt):
    ST, DPF, DSF = F()
    cid = fget(E, st, ST[field], CID)
    m = heap_get(E, cid) if isinstance(cid, CidV) else None
    if not isinstance(m, MapM):
        m = MapM(base, (), TOKEN, 'hamt')
    p, v = final_lookup(E, m, kt)
    if p is None:
        return None, m
    if p is False:
        return 0, m
    return big(E, v), m


def run_withdraw(idparam):
    def run(E):
        return _run_withdraw(E, idparam)
    return run


def _run_withdraw(E, idparam):
    rt, rtref = new_rt(E)
    WP = Fields('actors/market/src/types.rs', 'WithdrawBalanceParams')
    if idparam:
        who = E.materialize(ADDR, 'params.%d' % WP['provider_or_client'])
        E.ctx.assume(who.proto == 0)
        acct = mk_account(E, rt, key=who.key)
    else:
        acct = mk_account(E, rt)
    acct['accounting'] = idparam
    E.ctx.env['acct'] = acct
    rt.state = LazyV('st', 'State')
    params = LazyV('params', 'types::WithdrawBalanceParams')

    def hook(E2, rt2, rec, nm):
        # a miner's ControlAddresses answer: owner, worker and ONE further control address (all arbitrary)
        if implied(E2.ctx, zv(rec.method) == 2) and E2.ctx.choose(2, nm + '.typed') == 0:
            ret = StructV('ext::miner::GetControlAddressesReturnParams',
                          {0: E2.materialize(ADDR, nm + '.owner'), 1: E2.materialize(ADDR, nm + '.worker'),
                           2: VecV([E2.materialize(ADDR, nm + '.control0')], 'Vec<Address>')})
            E2.ctx.env['control_ret'] = ret
            return ('ok', some(BlockV(ret)))
        return None
    rt.send_hook = hook
    E.ctx.env['params'] = params
    E.ctx.env['balance0'] = rt.balance
    fn = find_fn(E, MARKET, 'withdraw_balance', 'lib.rs')
    return E.run_function(fn, [rtref, params]), rt


def _nominal(E, rt, ctx, a):
    from .C12 import resolved_id
    return resolved_id(E, rt, a, ctx)


def props_withdraw(E, res):
    env = res.ctx.env
    rt, acct = env['rt'], env['acct']
    ctx = res.ctx
    if res.kind != 'return':
        return [('no panic (%s)' % str(res.info)[:60], False)]
    if is_err(res.value):
        return []     # aborted message: reverted by the VM
    WP = Fields('actors/market/src/types.rs', 'WithdrawBalanceParams')
    pa = env['params']
    who = fget(E, pa, WP['provider_or_client'], ADDR)
    req = fget(E, pa, WP['amount'], TOKEN).v
    nid = _nominal(E, rt, ctx, who)
    P = [('account address resolved', nid is not None), ('requested amount non-negative', req >= 0)]
    if nid is None:
        return P
    kt = ('addr', 0, nid)
    # was the account a miner?  (escrow_address asks the miner for its owner/worker)
    is_miner = any(zv(s.method) is not None and implied(ctx, s.to.key == nid) and s is not rt.sends[-1] for s in rt.sends)
    payout = rt.sends[-1]
    P.append(('exactly one value transfer, the last send', all_of([b_or(s is payout, s.value == 0) for s in rt.sends])))
    esc1, em = table_val(E, rt.state, 'escrow_table', acct['ebase'], kt)
    if acct['accounting']:
        esc0, lck0 = acct['esc'], acct['lck']
        avail = esc0 - lck0
        spec = z3.If(req <= avail, req, avail)
        P.append(('pays min(requested, escrow - locked)', payout.value == spec))
        P.append(('escrow falls by exactly the payout', esc1 == esc0 - payout.value if esc1 is not None else payout.value == 0))
        P.append(('locked funds stay covered', (esc1 if esc1 is not None else esc0) >= lck0))
    ST, DPF, DSF = F()
    lcid = fget(E, rt.state, ST['locked_table'], CID)
    P.append(('locked table untouched', not isinstance(heap_get(E, lcid), MapM) if isinstance(lcid, CidV) else True))
    for (k, pres, val, _) in em.over:
        P.append(('only the withdrawing account is touched', key_eq(k, kt)))
    if not is_miner:
        P.append(('a non-miner account is paid to itself', b_and(payout.to.proto == 0, payout.to.key == nid)))
        P.append(('only the account itself may withdraw', b_and(rt.caller.key == nid)))
    else:
        # owner / worker come from the miner's ControlAddresses answer (symbolic); recipient must be the owner
        i = rt.sends.index([s for s in rt.sends if s is not payout][0])
        if 'control_ret' in env:
            owner, worker = env['control_ret'].fields[0], env['control_ret'].fields[1]
        else:
            owner = find_mat(ctx, 'rt.send[%d].ret.Some.0.as<' % i, '.0')
            worker = find_mat(ctx, 'rt.send[%d].ret.Some.0.as<' % i, '.1')
        P.append(('control addresses answer decoded', owner is not None and worker is not None))
        if owner is None or worker is None:
            return P
        P.append(("a miner's balance is paid to its owner", addr_eq(payout.to, owner)))
        P.append(("only the miner's owner or worker may withdraw", b_or(addr_eq(rt.caller, owner), addr_eq(rt.caller, worker))))
    P.append(('plain transfer', zv(payout.method) == 0))
    return P


def run_add(E):
    rt, rtref = new_rt(E)
    acct = mk_account(E, rt)
    E.ctx.env['acct'] = acct
    rt.state = LazyV('st', 'State')
    params = LazyV('params', 'types::AddBalanceParams')
    E.ctx.env['params'] = params
    fn = find_fn(E, MARKET, 'add_balance', 'lib.rs')
    return E.run_function(fn, [rtref, params]), rt


def props_add(E, res):
    env = res.ctx.env
    rt, acct = env['rt'], env['acct']
    ctx = res.ctx
    if res.kind != 'return':
        return [('no panic (%s)' % str(res.info)[:60], False)]
    if is_err(res.value):
        return []
    who = fget(E, env['params'], 0, ADDR)
    nid = _nominal(E, rt, ctx, who)
    P = [('account address resolved', nid is not None), ('deposit is positive', rt.value_received > 0)]
    if nid is None:
        return P
    kt = ('addr', 0, nid)
    b = base_info(E, acct['ebase'])
    e = decided_entry(ctx, b.entries, kt)
    esc0 = acct['esc'] if (e and e[1] is True) else 0
    esc1, em = table_val(E, rt.state, 'escrow_table', acct['ebase'], kt)
    P.append(('escrow grows by exactly the value received', esc1 == esc0 + rt.value_received if esc1 is not None else False))
    for (k, pres, val, _) in em.over:
        P.append(('only the credited account is touched', key_eq(k, kt)))
    P.append(('no value leaves the market', all_of([s.value == 0 for s in rt.sends])))
    return P


def build(tier):
    O = [
        Obligation('market.lock_client_and_provider_balances', run_lock, props_lock,
                   descr='publication locks exactly client_collateral + price*duration and provider_collateral, only out of unlocked escrow; totals follow',
                   bounds='one deal; client = / != provider', max_paths=20000),
        Obligation('market.withdraw_balance[accounting]', run_withdraw(True), props_withdraw,
                   descr='withdraw pays exactly min(requested, escrow - locked), escrow falls by that amount, locked stays covered; recipient/caller rules as below',
                   bounds='one call; account named by ID address; table entries for it arbitrary with locked <= escrow', max_paths=40000),
        Obligation('market.withdraw_balance[any address]', run_withdraw(False), props_withdraw,
                   descr='withdraw pays only to the resolved account itself (miner: its owner) and only on request of the account (miner: owner/worker)',
                   bounds='one call; account named by any address (resolution symbolic); control addresses answer symbolic', max_paths=40000),
        Obligation('market.add_balance', run_add, props_add,
                   descr='deposit credits exactly value_received to the resolved account', bounds='one call', max_paths=40000),
    ]
    # per-deal processing steps: locked/escrow/totals move by exactly the change of the deal's obligations
    for o in C07.build(tier):
        if o.name.startswith('market.process_'):
            o.name = o.name + ' (obligation accounting)'
            O.append(o)
    # missed activation: released exactly once, never stranded (incl. the failing clean-up tolerated by settle_deal_payments)
    from . import C08
    for o in C08.build(tier):
        if 'get_active_deal_or_process_timeout' in o.name:
            O.append(o)
    from . import market_publish
    O += market_publish.build_for('C06', tier)
    return O
