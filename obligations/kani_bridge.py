"""Engine K: bridge from the check driver to the Kani harness crate /verif/kani (run.py).

Every harness is one obligation: Kani/CBMC decide it over all values of its kani::any() inputs within the stated
unwinding bound (unwinding assertions on); `success` additionally requires every kani::cover! reachability witness
to be satisfied (vacuity guard).  A failed harness is re-run by run.py with concrete playback and replayed natively
(`cargo kani playback`); only a reproduced counterexample is reported as a violation.

When VERIF_REPO names another checkout (seeded-change experiments) the crate is copied to /verif/.cache/kani_alt/<hash>
with its /repo paths rewritten, so the harnesses compile against that checkout."""
import hashlib
import json
import os
import shutil
import subprocess
import sys
import time

HERE = os.path.dirname(os.path.dirname(os.path.abspath(__file__)))
CACHE = os.path.join(HERE, '.cache')


def _crate_dir():
    repo = os.path.realpath(os.environ.get('VERIF_REPO', '/repo'))
    src = os.path.join(HERE, 'kani')
    if repo == '/repo':
        return src, repo
    h = hashlib.sha1(repo.encode()).hexdigest()[:10]
    dst = os.path.join(CACHE, 'kani_alt', h)
    if os.path.exists(dst):
        shutil.rmtree(dst)
    shutil.copytree(src, dst, ignore=shutil.ignore_patterns('target'))
    for root, _, files in os.walk(dst):
        for f in files:
            if f.endswith(('.rs', '.py', '.toml', '.json')):
                p = os.path.join(root, f)
                s = open(p).read()
                s2 = s.replace('"/repo"', '"%s"' % repo).replace('/repo/', repo + '/')
                if f == 'run.py':
                    s2 = s2.replace('"kani_target"', '"kani_target_%s"' % h).replace('"kani_playback"', '"kani_playback_%s"' % h) \
                           .replace('"kani_playback_target"', '"kani_playback_target_%s"' % h)
                if s2 != s:
                    open(p, 'w').write(s2)
    return dst, repo


def run(prop, tier, jobs, log, timeout_s=None):
    crate, repo = _crate_dir()
    os.makedirs(os.path.join(CACHE, 'kani_results'), exist_ok=True)
    out = os.path.join(CACHE, 'kani_results', '%s_%s_check.json' % (prop, tier))
    if os.path.exists(out):
        os.unlink(out)
    cmd = [sys.executable if 'pyvenv' not in sys.executable else 'python3', os.path.join(crate, 'run.py'), '--property', prop, '--tier', tier,
           '--jobs', str(max(1, min(jobs, 14))), '--json', out]
    env = dict(os.environ)
    env['CARGO_NET_OFFLINE'] = 'true'
    t = time.time()
    cap = timeout_s or {'quick': 1500, 'thorough': 3300}[tier]
    try:
        p = subprocess.run(cmd, stdout=subprocess.PIPE, stderr=subprocess.PIPE, text=True, env=env, timeout=cap)
        rc = p.returncode
        tail = (p.stderr or '')[-1500:]
    except subprocess.TimeoutExpired:
        rc, tail = 124, 'kani runner exceeded %ds' % cap
    wall = time.time() - t
    results = []
    if not os.path.exists(out):
        log('K: kani runner produced no result (rc=%s) %s' % (rc, tail[-300:]))
        return [{'name': 'K:runner', 'status': 'inconclusive', 'problems': ['kani runner rc=%s: %s' % (rc, tail)], 'paths': 0, 'prop_queries': 0,
                 'violations': [], 'exits': {}, 'solver_s': 0, 'wall_s': round(wall, 1), 'functions_encoded': [], 'models_used': {}, 'descr': '', 'bounds': ''}]
    doc = json.load(open(out))
    for h in doc.get('harnesses', []):
        st = h.get('status')
        r = {'name': 'K:' + h['name'], 'paths': 1, 'prop_queries': max(1, int((h.get('cbmc_stats') or {}).get('vccs_generated', 1) or 1)),
             'violations': [], 'exits': {'cover_satisfied': h.get('cover_satisfied'), 'cover_total': h.get('cover_total')},
             'solver_s': round(float(h.get('verification_s') or 0), 2), 'wall_s': h.get('wall_s'), 'functions_encoded': h.get('functions', []),
             'models_used': {}, 'descr': h.get('oracle', ''),
             'bounds': 'unwind %s; %s; outside the claim: %s' % (h.get('unwind'), h.get('bounds', ''), h.get('outside_claim', '-')),
             'problems': [], 'feasibility_queries': 0}
        if st == 'success' and h.get('cover_ok', True):
            r['status'] = 'discharged'
        elif st == 'failed':
            r['status'] = 'violated'
            rep = h.get('replay')
            label = 'kani harness %s: %s' % (h['name'], '; '.join(str(x)[:160] for x in (h.get('failed_checks') or [])[:3]) or h.get('detail', ''))
            # CBMC's verdict on the compiled real code is the deciding step; the concrete playback is a convenience.  run.py
            # replays the first generated playback test, which can be the test of a cover property rather than of the
            # failed assertion ("Not enough det vals found"), so a failed native replay does not refute the verdict:
            # such counterexamples are reported like engine M's function-level ones (solver counterexample)
            status = 'reproduced' if rep == 'reproduced' else 'solver_only'
            r['violations'].append({'label': label, 'replayed': status, 'replay_path': h.get('cex_file') or h.get('log', ''),
                                    'replay_detail': 'kani concrete playback: %s' % rep, 'model': {'cex_values': h.get('cex_values')}})
        else:
            r['status'] = 'inconclusive'
            r['problems'].append('kani: %s %s' % (st, str(h.get('detail', ''))[:300]))
        log('K: %-55s %-12s cbmc=%6.1fs  covers %s/%s' % (h['name'][:55], r['status'], float(h.get('verification_s') or 0), h.get('cover_satisfied'), h.get('cover_total')))
        results.append(r)
    if not results:
        results.append({'name': 'K:runner', 'status': 'inconclusive', 'problems': ['no harness registered for %s/%s (rc=%s) %s' % (prop, tier, rc, tail[-300:])], 'paths': 0,
                        'prop_queries': 0, 'violations': [], 'exits': {}, 'solver_s': 0, 'wall_s': round(wall, 1), 'functions_encoded': [], 'models_used': {}, 'descr': '', 'bounds': ''})
    log('K: %d kani harness(es) for %s/%s against %s in %.0fs (runner rc=%s; kani %s)' % (len(results), prop, tier, repo, wall, rc, (doc.get('versions') or {}).get('kani', '?')))
    return results
