//! Adapter: storage miner actor (`fil_actor_miner`), whole-method replay of the money / ownership methods.
//!
//! scenario = {"actor":"miner",
//!   "method": "ApplyRewards" | "RepayDebt" | "ReportConsensusFault" | "WithdrawBalance" | "ChangeOwnerAddress" |
//!             "ChangeWorkerAddress" | "ConfirmChangeWorkerAddress" | "ChangeBeneficiary" | "ChangePeerID",
//!   "state": {"pre_commit_deposits","locked_funds","initial_pledge","fee_debt": amounts,
//!             "vesting":[{"epoch":i64,"amount":amount}]   entry 0 = head (inline), rest = tail; [] = no table,
//!             "proving_period_start":i64 (0), ["current_deadline":u64 (0)], ["deadline_cron_active":bool (false)],
//!             "early_terminations_empty":bool (true)      false: deadline 0 is put into State.early_terminations},
//!   "info":  {"owner":id,"worker":id,"control":[id],"beneficiary":id (owner),
//!             "beneficiary_term":{"quota","used_quota","expiration"},
//!             "pending_owner":id|null, "pending_worker":{"new_worker":id,"effective_at":i64}|null,
//!             "pending_beneficiary":{"new_beneficiary":id,"new_quota","new_expiration","approved_by_beneficiary",
//!                                    "approved_by_nominee"}|null,
//!             "consensus_fault_elapsed":i64 (-1), ["peer_id_hex"]}      absent: owner=worker=beneficiary=1000
//!   "params": ApplyRewards {"reward","penalty"} | WithdrawBalance {"amount_requested"} |
//!             ChangeOwnerAddress {"new_owner":addr} | ChangeWorkerAddress {"new_worker":addr,"new_control_addresses":[addr]} |
//!             ChangeBeneficiary {"new_beneficiary":addr,"new_quota","new_expiration"} | ChangePeerID {"new_id_hex"} |
//!             ReportConsensusFault: none needed (the three headers are opaque, empty byte strings are passed; the
//!             verdict comes from the runtime key "consensus_fault") | RepayDebt, ConfirmChangeWorkerAddress: none,
//!   ["exported":bool]  true: use the FRC-42 method number instead of the internal one (where one exists),
//!   ["entry":"dispatch"|"direct"],  + the runtime keys of runtime.rs (caller, receiver, epoch, balance, sends,
//!   consensus_fault, resolve, ...)}
//!
//! The pre-state is built natively WITHOUT the actor constructor: `State::new` (empty sector / deadline
//! structures) on a `MinerInfo` stored with put_cbor, then the pub ledger fields are overwritten.  The fields
//! of `VestingFunds` are private, so the table is built through its serde form: the tail `Vec<VestingFund>`
//! is stored with put_cbor and the CBOR of `(head, tail_cid)` is decoded as `VestingFunds`; the result is
//! checked with the pub `VestingFunds::load` against the scenario before anything runs.
//!
//! The miner's methods are private fns, so "entry":"direct" ALSO goes through `invoke_method`; the only
//! thing the dispatcher adds is `restrict_internal_api`, which accepts every builtin caller type except evm
//! (the default caller type "account" passes).  When the scenario names no caller_type the singleton ids get
//! their real types (2 = reward, 3 = cron, 4 = power, ...) so that ApplyRewards sees f02 as the reward actor.
//!
//! Observations: result / error / sends / commits / deleted / ... (common), "state": {four ledgers, "vesting":
//! entries of `VestingFunds::load` (a head drawn down to 0 is not listed, as in the actor's own view),
//! "vesting_total", "deadline_cron_active", ...}, "info": {same shape as the input}, "ret" for WithdrawBalance.

use anyhow::{anyhow, bail, Context, Result};
use fil_actor_miner::{
    Actor as MinerActor, ApplyRewardParams, BeneficiaryTerm, ChangeBeneficiaryParams, ChangeOwnerAddressParams,
    ChangePeerIDParams, ChangeWorkerAddressParams, Method, MinerInfo, PendingBeneficiaryChange,
    ReportConsensusFaultParams, State, VestingFund, VestingFunds, WithdrawBalanceParams, WithdrawBalanceReturn,
    WorkerKeyChange,
};
use fil_actors_runtime::runtime::ActorCode;
use fvm_ipld_encoding::ipld_block::IpldBlock;
use fvm_ipld_encoding::CborStore;
use fvm_shared::address::Address;
use fvm_shared::econ::TokenAmount;
use fvm_shared::sector::RegisteredPoStProof;
use multihash_codetable::Code;
use serde_json::{json, Map, Value};

use crate::json_util::*;
use crate::runtime::{code_for_type_name, ReplayRuntime};

const DEFAULT_PARTY: u64 = 1000;

pub const METHODS: &str = "ApplyRewards, RepayDebt, ReportConsensusFault, WithdrawBalance, ChangeOwnerAddress, \
ChangeWorkerAddress, ConfirmChangeWorkerAddress, ChangeBeneficiary, ChangePeerID";

pub fn replay(sc: &Value) -> Result<Value> {
    let rt = ReplayRuntime::from_scenario(sc)?;
    let method = req_str(sc, "method")?;
    match opt(sc, "entry").and_then(|v| v.as_str()) {
        None | Some("dispatch") | Some("direct") => {}
        Some(other) => bail!("malformed scenario: unknown entry '{}'", other),
    }
    let exported = opt_bool(sc, "exported", false)?;
    give_singleton_caller_its_type(&rt, sc)?;

    // ---- pre-state
    let null = Value::Null;
    let info = build_info(sc.get("info").unwrap_or(&null)).context("key 'info'")?;
    let info_cid = rt.store.put_cbor(&info, Code::Blake2b256).map_err(|e| anyhow!("cannot store miner info: {}", e))?;
    let stj = sc.get("state").unwrap_or(&null);
    let mut st = State::new(
        &rt.policy,
        &rt.store,
        info_cid,
        opt_i64(stj, "proving_period_start", 0)?,
        opt_u64(stj, "current_deadline", 0)?,
    )
    .map_err(|e| anyhow!("State::new failed: {}", e))?;
    st.pre_commit_deposits = opt_token(stj, "pre_commit_deposits")?;
    st.locked_funds = opt_token(stj, "locked_funds")?;
    st.initial_pledge = opt_token(stj, "initial_pledge")?;
    st.fee_debt = opt_token(stj, "fee_debt")?;
    st.deadline_cron_active = opt_bool(stj, "deadline_cron_active", false)?;
    if !opt_bool(stj, "early_terminations_empty", true)? {
        st.early_terminations.set(0);
    }
    let mut vesting = vec![];
    for (i, e) in list(stj, "vesting")?.iter().enumerate() {
        vesting.push(VestingFund {
            epoch: req_i64(e, "epoch").with_context(|| format!("state.vesting[{}]", i))?,
            amount: req_token(e, "amount").with_context(|| format!("state.vesting[{}]", i))?,
        });
    }
    st.vesting_funds = build_vesting_funds(&rt, &vesting)?;
    let mut notes: Vec<String> = vec![];
    let vesting_sum: TokenAmount = vesting.iter().map(|f| f.amount.clone()).sum();
    if vesting_sum != st.locked_funds {
        notes.push(format!(
            "pre-state: locked_funds {} differs from the sum of the vesting table {}",
            st.locked_funds.atto(),
            vesting_sum.atto()
        ));
    }
    rt.set_initial_state(&st)?;

    // ---- call
    let pj = sc.get("params").unwrap_or(&null);
    let enc = |r: std::result::Result<Option<IpldBlock>, fvm_ipld_encoding::Error>| {
        r.map_err(|e| anyhow!("cannot encode params: {}", e))
    };
    let (num, params): (u64, Option<IpldBlock>) = match method {
        "ApplyRewards" => (
            Method::ApplyRewards as u64,
            enc(IpldBlock::serialize_cbor(&ApplyRewardParams {
                reward: req_token(pj, "reward")?,
                penalty: opt_token(pj, "penalty")?,
            }))?,
        ),
        "RepayDebt" => (if exported { Method::RepayDebtExported } else { Method::RepayDebt } as u64, None),
        "ReportConsensusFault" => (
            Method::ReportConsensusFault as u64,
            enc(IpldBlock::serialize_cbor(&ReportConsensusFaultParams {
                header1: opt_hex(pj, "header1_hex")?,
                header2: opt_hex(pj, "header2_hex")?,
                header_extra: opt_hex(pj, "header_extra_hex")?,
            }))?,
        ),
        "WithdrawBalance" => (
            if exported { Method::WithdrawBalanceExported } else { Method::WithdrawBalance } as u64,
            enc(IpldBlock::serialize_cbor(&WithdrawBalanceParams {
                amount_requested: req_token(pj, "amount_requested")?,
            }))?,
        ),
        "ChangeOwnerAddress" => (
            if exported { Method::ChangeOwnerAddressExported } else { Method::ChangeOwnerAddress } as u64,
            enc(IpldBlock::serialize_cbor(&ChangeOwnerAddressParams { new_owner: addr(req(pj, "new_owner")?)? }))?,
        ),
        "ChangeWorkerAddress" => {
            let mut ctl = vec![];
            for a in list(pj, "new_control_addresses")? {
                ctl.push(addr(a)?);
            }
            (
                if exported { Method::ChangeWorkerAddressExported } else { Method::ChangeWorkerAddress } as u64,
                enc(IpldBlock::serialize_cbor(&ChangeWorkerAddressParams {
                    new_worker: addr(req(pj, "new_worker")?)?,
                    new_control_addresses: ctl,
                }))?,
            )
        }
        "ConfirmChangeWorkerAddress" => (
            if exported { Method::ConfirmChangeWorkerAddressExported } else { Method::ConfirmChangeWorkerAddress }
                as u64,
            None,
        ),
        "ChangeBeneficiary" => (
            if exported { Method::ChangeBeneficiaryExported } else { Method::ChangeBeneficiary } as u64,
            enc(IpldBlock::serialize_cbor(&ChangeBeneficiaryParams {
                new_beneficiary: addr(req(pj, "new_beneficiary")?)?,
                new_quota: opt_token(pj, "new_quota")?,
                new_expiration: opt_i64(pj, "new_expiration", 0)?,
            }))?,
        ),
        "ChangePeerID" => (
            if exported { Method::ChangePeerIDExported } else { Method::ChangePeerID } as u64,
            enc(IpldBlock::serialize_cbor(&ChangePeerIDParams { new_id: opt_hex(pj, "new_id_hex")? }))?,
        ),
        other => bail!("unknown miner method '{}' (methods: {})", other, METHODS),
    };
    let out = rt.run_call(|| MinerActor::invoke_method(&rt, num, params));

    // ---- observations
    let mut obs = rt.common_observations(&out);
    obs.insert("method_num".into(), json!(num));
    obs.insert("consensus_fault_calls".into(), json!(*rt.consensus_fault_calls.borrow()));
    if method == "WithdrawBalance" {
        if let Some(r) = &out.ret {
            match r.deserialize::<WithdrawBalanceReturn>() {
                Ok(w) => {
                    obs.insert("ret".into(), json!({"amount_withdrawn": token_json(&w.amount_withdrawn)}));
                }
                Err(e) => notes.push(format!("return value does not decode as WithdrawBalanceReturn: {}", e)),
            }
        }
    }
    match rt.read_state::<State>() {
        Ok(Some(st)) => {
            let mut errs: Vec<String> = vec![];
            let mut so = Map::new();
            so.insert("pre_commit_deposits".into(), token_json(&st.pre_commit_deposits));
            so.insert("locked_funds".into(), token_json(&st.locked_funds));
            so.insert("initial_pledge".into(), token_json(&st.initial_pledge));
            so.insert("fee_debt".into(), token_json(&st.fee_debt));
            match st.vesting_funds.load(&rt.store) {
                Ok(funds) => {
                    let total: TokenAmount = funds.iter().map(|f| f.amount.clone()).sum();
                    so.insert("vesting".into(), Value::Array(funds.iter().map(fund_json).collect()));
                    so.insert("vesting_total".into(), token_json(&total));
                }
                Err(e) => errs.push(format!("vesting table: {}", e)),
            }
            so.insert("proving_period_start".into(), json!(st.proving_period_start));
            so.insert("current_deadline".into(), json!(st.current_deadline));
            so.insert("deadline_cron_active".into(), json!(st.deadline_cron_active));
            so.insert("early_terminations_empty".into(), json!(st.early_terminations.is_empty()));
            obs.insert("state".into(), Value::Object(so));
            match st.get_info(&rt.store) {
                Ok(info) => {
                    obs.insert("info".into(), info_json(&info));
                }
                Err(e) => errs.push(format!("miner info: {:#}", e)),
            }
            if !errs.is_empty() {
                obs.insert("state_error".into(), json!(errs.join("; ")));
            }
        }
        Ok(None) => {
            obs.insert("state_error".into(), json!("no state"));
        }
        Err(e) => {
            obs.insert("state_error".into(), json!(format!("{:#}", e)));
        }
    }
    if !notes.is_empty() {
        obs.insert("notes".into(), json!(notes));
    }
    Ok(Value::Object(obs))
}

/// `VestingFunds(Option<VestingFundsInner{head, tail}>)` has private fields: go through its serde form.
fn build_vesting_funds(rt: &ReplayRuntime, funds: &[VestingFund]) -> Result<VestingFunds> {
    let vf = match funds.split_first() {
        None => VestingFunds::new(),
        Some((head, tail)) => {
            let tail_cid = rt
                .store
                .put_cbor(&tail.to_vec(), Code::Blake2b256)
                .map_err(|e| anyhow!("cannot store the vesting tail: {}", e))?;
            // Some(x) encodes as x; VestingFundsInner is a tuple struct (head, tail)
            let bytes = fvm_ipld_encoding::to_vec(&(head.clone(), tail_cid))
                .map_err(|e| anyhow!("cannot encode the vesting table: {}", e))?;
            fvm_ipld_encoding::from_slice::<VestingFunds>(&bytes)
                .map_err(|e| anyhow!("the hand-made CBOR does not decode as VestingFunds (layout changed?): {}", e))?
        }
    };
    // check with the actor's own reader (it hides a head whose amount is not positive)
    let got = vf.load(&rt.store).map_err(|e| anyhow!("VestingFunds::load on the pre-state failed: {}", e))?;
    let want: Vec<&VestingFund> =
        funds.iter().enumerate().filter(|(i, f)| *i > 0 || f.amount.is_positive()).map(|(_, f)| f).collect();
    let same = got.len() == want.len() && got.iter().zip(&want).all(|(a, b)| a.epoch == b.epoch && a.amount == b.amount);
    if !same {
        bail!(
            "pre-state vesting table reads back as {:?}, the scenario says {:?}",
            got.iter().map(|f| (f.epoch, f.amount.atto().to_string())).collect::<Vec<_>>(),
            want.iter().map(|f| (f.epoch, f.amount.atto().to_string())).collect::<Vec<_>>()
        );
    }
    Ok(vf)
}

fn build_info(v: &Value) -> Result<MinerInfo> {
    let owner = opt_u64(v, "owner", DEFAULT_PARTY)?;
    let worker = opt_u64(v, "worker", owner)?;
    let mut control = vec![];
    for c in list(v, "control")? {
        control.push(u64_of(c).context("key 'control'")?);
    }
    let mut info = MinerInfo::new(
        owner,
        worker,
        control,
        opt_hex(v, "peer_id_hex")?,
        vec![],
        RegisteredPoStProof::StackedDRGWindow32GiBV1P1,
    )
    .map_err(|e| anyhow!("MinerInfo::new failed: {}", e))?;
    info.beneficiary = Address::new_id(opt_u64(v, "beneficiary", owner)?);
    if let Some(t) = opt(v, "beneficiary_term") {
        info.beneficiary_term = BeneficiaryTerm {
            quota: opt_token(t, "quota")?,
            used_quota: opt_token(t, "used_quota")?,
            expiration: opt_i64(t, "expiration", 0)?,
        };
    }
    if let Some(p) = opt(v, "pending_owner") {
        info.pending_owner_address = Some(Address::new_id(u64_of(p).context("key 'pending_owner'")?));
    }
    if let Some(p) = opt(v, "pending_worker") {
        info.pending_worker_key = Some(WorkerKeyChange {
            new_worker: Address::new_id(req_u64(p, "new_worker")?),
            effective_at: req_i64(p, "effective_at")?,
        });
    }
    if let Some(p) = opt(v, "pending_beneficiary") {
        info.pending_beneficiary_term = Some(PendingBeneficiaryChange {
            new_beneficiary: Address::new_id(req_u64(p, "new_beneficiary")?),
            new_quota: opt_token(p, "new_quota")?,
            new_expiration: opt_i64(p, "new_expiration", 0)?,
            approved_by_beneficiary: opt_bool(p, "approved_by_beneficiary", false)?,
            approved_by_nominee: opt_bool(p, "approved_by_nominee", false)?,
        });
    }
    if let Some(e) = opt(v, "consensus_fault_elapsed") {
        info.consensus_fault_elapsed = i64_of(e).context("key 'consensus_fault_elapsed'")?;
    }
    Ok(info)
}

fn fund_json(f: &VestingFund) -> Value {
    json!({"epoch": f.epoch, "amount": token_json(&f.amount)})
}

fn info_json(info: &MinerInfo) -> Value {
    json!({
        "owner": addr_json(&info.owner),
        "worker": addr_json(&info.worker),
        "control": info.control_addresses.iter().map(addr_json).collect::<Vec<_>>(),
        "beneficiary": addr_json(&info.beneficiary),
        "beneficiary_term": {
            "quota": token_json(&info.beneficiary_term.quota),
            "used_quota": token_json(&info.beneficiary_term.used_quota),
            "expiration": info.beneficiary_term.expiration,
        },
        "pending_owner": info.pending_owner_address.as_ref().map(addr_json),
        "pending_worker": info.pending_worker_key.as_ref().map(|k| json!({
            "new_worker": addr_json(&k.new_worker),
            "effective_at": k.effective_at,
        })),
        "pending_beneficiary": info.pending_beneficiary_term.as_ref().map(|p| json!({
            "new_beneficiary": addr_json(&p.new_beneficiary),
            "new_quota": token_json(&p.new_quota),
            "new_expiration": p.new_expiration,
            "approved_by_beneficiary": p.approved_by_beneficiary,
            "approved_by_nominee": p.approved_by_nominee,
        })),
        "consensus_fault_elapsed": info.consensus_fault_elapsed,
        "peer_id_hex": hex::encode(&info.peer_id),
    })
}

/// Without an explicit caller_type (or code_cids entry) a caller that is one of the singleton actors gets
/// its real type instead of the generic default "account".
fn give_singleton_caller_its_type(rt: &ReplayRuntime, sc: &Value) -> Result<()> {
    if sc.get("caller_type").is_some() {
        return Ok(());
    }
    let id = rt.caller.id().map_err(|e| anyhow!("caller is not an ID address: {}", e))?;
    if let Some(Value::Object(o)) = sc.get("code_cids") {
        if o.contains_key(&id.to_string()) {
            return Ok(());
        }
    }
    let name = match id {
        0 => "system",
        1 => "init",
        2 => "reward",
        3 => "cron",
        4 => "storagepower",
        5 => "storagemarket",
        6 => "verifiedregistry",
        7 => "datacap",
        10 => "eam",
        _ => return Ok(()),
    };
    rt.code_cids.borrow_mut().insert(id, code_for_type_name(name)?);
    Ok(())
}
