"""C08 — deal lifecycle: unique publication, one timely activation by the provider (partial, see DESIGN.md).

State-level and helper-level obligations of the market actor: strictly increasing deal ids, pending-proposal set
semantics, the activation gate (preactivate_deal / validate_deal_can_activate), and the missed-activation clean-up
(get_active_deal_or_process_timeout)."""
from .common import *
from .market_common import *
from . import C07

PROPERTY = 'C08'
EX_DEAL_EXPIRED = 32


def run_can_activate(E):
    rt, rtref = new_rt(E)
    deal = mk_deal(E)
    miner = E.materialize(ADDR, 'miner')
    se = E.materialize('i64', 'sector_expiration').v
    ep = E.materialize('i64', 'epoch').v
    E.ctx.env.update(dict(deal=deal, miner=miner, se=se, ep=ep))
    fn = find_fn(E, MARKET, 'validate_deal_can_activate')
    return E.run_function(fn, [RefV(Cell(deal['v'], 'd'), ()), RefV(Cell(miner, 'm'), ()), IntV(se, 'i64'), IntV(ep, 'i64')]), rt


def props_can_activate(E, res):
    env = res.ctx.env
    if res.kind != 'return':
        return [('no panic (%s)' % str(res.info)[:60], False)]
    d = env['deal']
    spec = z3.And(addr_eq(d['provider'], env['miner']), env['ep'] <= d['start'], d['end'] <= env['se'])
    return [('a deal can be activated iff by its own provider, no later than its start epoch, in a sector that outlives it',
             z3.BoolVal(is_ok(res.value)) == spec)]


def run_gen_id(E):
    rt, rtref = new_rt(E)
    ST, DPF, DSF = F()
    st = StructV('State', {}, lazy='st')
    nid = fget(E, st, ST['next_id'], 'u64').v
    E.ctx.assume(nid < 2**63)
    E.ctx.env['nid'] = nid
    cell = Cell(st, 'st')
    fn = find_fn(E, MARKET, 'generate_storage_deal_id')
    r = E.run_function(fn, [RefV(cell, (), True)])
    r2 = E.run_function(fn, [RefV(cell, (), True)])
    E.ctx.env['r1'] = r
    E.ctx.env['st1'] = cell.value
    return r2, rt


def props_gen_id(E, res):
    env = res.ctx.env
    if res.kind != 'return':
        return [('no panic (%s)' % str(res.info)[:60], False)]
    ST, DPF, DSF = F()
    return [('deal ids are handed out in strictly increasing order starting at next_id', z3.And(env['r1'].v == env['nid'], res.value.v == env['nid'] + 1)),
            ('next_id advances past every id handed out', fget(E, env['st1'], ST['next_id'], 'u64').v == env['nid'] + 2)]


def run_pending(E):
    """put then has then remove then has, on an arbitrary pending set"""
    rt, rtref = new_rt(E)
    ST, DPF, DSF = F()
    st = StructV('State', {}, lazy='st')
    cell = Cell(st, 'st')
    c1 = E.materialize(CID, 'cid1')
    c2 = E.materialize(CID, 'cid2')
    store = lambda: RefV(Cell(OpaqueV('store'), 'store'), ())
    has0 = E.run_function(find_fn(E, MARKET, 'has_pending_deal'), [RefV(cell, ()), store(), RefV(Cell(c2, 'c2'), ())])
    E.run_function(find_fn(E, MARKET, 'put_pending_deals'), [RefV(cell, (), True), store(), RefV(Cell(VecV([c1], '[Cid]'), 'v'), ())])
    has1 = E.run_function(find_fn(E, MARKET, 'has_pending_deal'), [RefV(cell, ()), store(), RefV(Cell(c1, 'c1'), ())])
    has2 = E.run_function(find_fn(E, MARKET, 'has_pending_deal'), [RefV(cell, ()), store(), RefV(Cell(c2, 'c2'), ())])
    rem = E.run_function(find_fn(E, MARKET, 'remove_pending_deal'), [RefV(cell, (), True), store(), c1])
    has3 = E.run_function(find_fn(E, MARKET, 'has_pending_deal'), [RefV(cell, ()), store(), RefV(Cell(c1, 'c1'), ())])
    E.ctx.env.update(dict(has0=has0, has1=has1, has2=has2, rem=rem, has3=has3, c1=c1, c2=c2))
    return has3, rt


def okval(E, r):
    return r.fields[('Ok', 0)] if is_ok(r) else None


def props_pending(E, res):
    env = res.ctx.env
    if res.kind != 'return':
        return [('no panic (%s)' % str(res.info)[:60], False)]
    vals = [okval(E, env[k]) for k in ('has0', 'has1', 'has2', 'rem', 'has3')]
    if any(v is None for v in vals):
        return [('pending-set operations do not fail', False)]
    h0, h1, h2, rem, h3 = vals
    same = env['c1'].term == env['c2'].term
    bz_ = lambda x: x if is_sym(x) else z3.BoolVal(bool(x))
    return [('a published proposal is pending (duplicate detection sees it)', bz_(h1) == z3.BoolVal(True)),
            ('publishing one proposal does not affect others', bz_(h2) == z3.Or(same, bz_(h0))),
            ('removal reports the entry and clears it', z3.And(rem.vname == 'Some', bz_(h3) == z3.BoolVal(False)))]


# ---- get_active_deal_or_process_timeout ----------------------------------------------------------------

def run_timeout(E):
    rt, rtref = new_rt(E)
    ST, DPF, DSF = F()
    deal = mk_deal(E)
    fee = deal['price'] * (deal['end'] - deal['start'])
    tb = mk_tables(E, deal, deal['cc'] + fee, deal['pc'])
    E.ctx.assume(z3.And(tb['tcc'] >= deal['cc'], tb['tpc'] >= deal['pc'], tb['tsf'] >= fee))
    ep = E.materialize('i64', 'epoch').v
    E.ctx.assume(z3.And(ep >= 0, ep < 2**40))
    did = E.materialize('u64', 'deal_id').v
    dcid = E.materialize(CID, 'dcid')
    # state tables: the proposal is stored under deal_id, its cid is pending (market invariant for an unactivated proposal)
    pb = BaseInfo()
    E.ctx.memo[('mapbase', 'map(st.%d)' % ST['proposals'])] = pb
    pb.entries.append([('int', did), True, deal['v'], IntV(did, 'u64')])
    qb = BaseInfo()
    E.ctx.memo[('mapbase', 'map(st.%d)' % ST['pending_proposals'])] = qb
    qb.entries.append([('cid', dcid.term), True, UNIT, dcid])
    E.ctx.env.update(dict(deal=deal, tb=tb, ep=ep, did=did, dcid=dcid))
    cell = Cell(tb['st'], 'st')
    fn = find_fn(E, MARKET, 'get_active_deal_or_process_timeout')
    r = E.run_function(fn, [RefV(cell, (), True), RefV(Cell(OpaqueV('store'), 'store'), ()), IntV(ep, 'i64'), IntV(did, 'u64'),
                            RefV(Cell(deal['v'], 'd'), ()), RefV(Cell(dcid, 'c'), ())])
    E.ctx.env['st1'] = cell.value
    return r, rt


def props_timeout(E, res):
    env = res.ctx.env
    ctx = res.ctx
    if res.kind != 'return':
        return [('no panic (%s)' % str(res.info)[:60], False)]
    ST, DPF, DSF = F()
    deal, tb, ep, did = env['deal'], env['tb'], env['ep'], env['did']
    if is_err(res.value):
        return [('clean-up of a well-formed unactivated proposal never fails', False)]
    lds = res.value.fields[('Ok', 0)]
    st1 = env['st1']
    sb, sv = base_lookup(E, 'map(st.%d)' % ST['states'], ('int', did))
    activated = sb is True
    P = []
    if lds.vname == 'Loaded':
        P.append(('an activated deal is returned as is', activated))
        return P
    P.append(('no deal state exists for an unactivated proposal', not activated))
    if lds.vname == 'TooEarly':
        P.append(('before the start epoch nothing happens', ep < deal['start']))
        P.append(('nothing is written before the start epoch', all(not isinstance(heap_get(E, fget(E, st1, ST[f], CID)), MapM) or len(heap_get(E, fget(E, st1, ST[f], CID)).over) == 0
                                                                  for f in ('proposals', 'pending_proposals', 'escrow_table', 'locked_table'))))
        return P
    # ProposalExpired
    P.append(('a proposal times out only at or after its start epoch', ep >= deal['start']))
    slashed = big(E, lds.fields[('ProposalExpired', 0)])
    P.append(("missed activation burns the provider's collateral", slashed == deal['pc']))
    pm = heap_get(E, fget(E, st1, ST['proposals'], CID))
    qm = heap_get(E, fget(E, st1, ST['pending_proposals'], CID))
    P.append(('the proposal is removed', isinstance(pm, MapM) and final_lookup(E, pm, ('int', did))[0] is False))
    P.append(('its pending entry is removed', isinstance(qm, MapM) and final_lookup(E, qm, ('cid', env['dcid'].term))[0] is False))
    fee = deal['price'] * (deal['end'] - deal['start'])
    res2 = res
    P += C07.accounting_props(E, res2, 0, deal['cc'] + fee, 0, deal['pc'], 'time-out')
    return P


def build(tier):
    return [
        Obligation('market.validate_deal_can_activate', run_can_activate, props_can_activate,
                   descr='activation gate = provider match, epoch <= start, end <= sector expiry', bounds='all fields symbolic', max_paths=200, expect_ok=False),
        Obligation('market.generate_storage_deal_id x2', run_gen_id, props_gen_id, descr='ids strictly increasing, next_id advances', bounds='two calls', max_paths=200, expect_ok=False),
        Obligation('market.pending proposals set (has/put/remove)', run_pending, props_pending,
                   descr='a published proposal cid is pending until removed; other cids unaffected', bounds='one put / remove on an arbitrary set', max_paths=2000, expect_ok=False),
        Obligation('market.get_active_deal_or_process_timeout', run_timeout, props_timeout,
                   descr='unactivated proposal: too early before start (no change); at/after start removed with pending entry, provider collateral burnt, client fully unlocked',
                   bounds='one proposal; client = / != provider', max_paths=60000, expect_ok=False),
    ]
