#!/usr/bin/env python3
"""Runner for the Kani harness crate /verif/kani.

    python3 /verif/kani/run.py --property C17 --tier quick|thorough [--jobs N] [--json out.json]
                               [--harness NAME ...] [--no-cex] [--list]

Steps
 1. (re)generates the shim modules from the CURRENT /repo working tree – done by the crate's
    build.rs, which cargo re-runs whenever one of the /repo files it reads has changed – and
    compiles the crate once with `cargo kani --only-codegen` into /verif/.cache/kani_target.
    If the crate no longer compiles against /repo: every harness -> "build_error", exit 2.
 2. runs every harness of harnesses.json registered for (property, tier), `--jobs` at a time,
    each as its own `cargo kani --harness <path> --exact` process (the build is fresh, so the
    cargo step is a no-op) under an address-space limit and a wall-clock timeout.
 3. classifies: success | failed | inconclusive(timeout|oom|unwinding|vacuous|error) | build_error.
    Only `VERIFICATION:- SUCCESSFUL` with every kani::cover! SATISFIED counts as success.
 4. for each `failed` harness re-runs with `-Z concrete-playback --concrete-playback=print`,
    stores the generated unit test in /verif/.cache/kani_cex/<harness>.rs and tries to replay
    it natively (`cargo kani playback`) in a scratch copy of the crate under /verif/.cache.
 5. prints one JSON document (also written to --json).

Exit code: 0 all success; 1 at least one `failed` harness with a counterexample produced;
2 otherwise (any inconclusive / build_error / failed-without-counterexample and no cex).
Only the python3 standard library is used.
"""
import argparse
import json
import os
import re
import resource
import shutil
import signal
import subprocess
import sys
import threading
import time
from concurrent.futures import ThreadPoolExecutor

HERE = os.path.dirname(os.path.abspath(__file__))
CACHE = os.path.join(os.path.dirname(HERE), ".cache")
TARGET = os.path.join(CACHE, "kani_target")
LOGS = os.path.join(CACHE, "kani_logs")
CEX = os.path.join(CACHE, "kani_cex")
PLAYBACK = os.path.join(CACHE, "kani_playback")
PLAYBACK_TARGET = os.path.join(CACHE, "kani_playback_target")
REPO = "/repo"
MEM_LIMIT_GB_DEFAULT = 12

ENV = dict(os.environ)
ENV["CARGO_NET_OFFLINE"] = "true"
ENV.pop("CARGO_TARGET_DIR", None)


def sh(cmd, **kw):
    return subprocess.run(cmd, stdout=subprocess.PIPE, stderr=subprocess.STDOUT, text=True, env=ENV, **kw)


def versions():
    v = {}
    try:
        v["kani"] = sh(["cargo", "kani", "--version"]).stdout.strip()
    except Exception as e:  # noqa
        v["kani"] = "unknown: %s" % e
    cbmc = shutil.which("cbmc")
    if not cbmc:
        import glob
        c = sorted(glob.glob(os.path.expanduser("~/.kani/kani-*/bin/cbmc")))
        cbmc = c[-1] if c else None
    try:
        v["cbmc"] = sh([cbmc, "--version"]).stdout.strip() if cbmc else "not found"
    except Exception as e:  # noqa
        v["cbmc"] = "unknown: %s" % e
    try:
        v["repo_head"] = sh(["git", "-C", REPO, "rev-parse", "HEAD"]).stdout.strip()
        v["repo_dirty_files"] = [l[3:] for l in sh(["git", "-C", REPO, "status", "--porcelain", "--untracked-files=no"]).stdout.splitlines()][:50]
    except Exception:
        pass
    return v


PROPERTIES = ["C05", "C17", "C18", "C20"]
FEATURES = []  # set in main(): one cargo feature per selected property


def base_cmd():
    cmd = ["cargo", "kani", "--target-dir", TARGET]
    if FEATURES:
        cmd += ["--features", ",".join(FEATURES)]
    return cmd


# Kani adds, for every assertion, a second "reachability" property; CBMC decides each property
# with its own incremental SAT call, so this doubles-to-squares the work on pointer-heavy
# harnesses (measured on c17_swap_13_16: 1534 s with, 43 s without).  Vacuity is covered by the
# explicit kani::cover! witness every harness carries (all must be SATISFIED), therefore the
# reach checks are switched off for all harnesses.
DEFAULT_KANI_ARGS = ["-Z", "unstable-options", "--no-assertion-reach-checks"]


def harness_cmd(h, extra=()):
    cmd = base_cmd() + ["--harness", h["path"], "--exact", "--output-format", "terse"]
    cmd += DEFAULT_KANI_ARGS
    cmd += list(h.get("kani_args", []))
    cmd += list(extra)
    return cmd


def run_limited(cmd, log_path, timeout_s, mem_gb, cwd=HERE, env=None):
    """Run cmd in its own process group with RLIMIT_AS; returns (rc|None on timeout, wall, peak_rss_mb)."""
    def pre():
        os.setsid()
        if mem_gb:
            lim = int(mem_gb * (1 << 30))
            resource.setrlimit(resource.RLIMIT_AS, (lim, lim))
    t0 = time.time()
    with open(log_path, "w") as log:
        log.write("$ " + " ".join(cmd) + "\n")
        log.flush()
        p = subprocess.Popen(cmd, stdout=log, stderr=subprocess.STDOUT, cwd=cwd, env=env or ENV, preexec_fn=pre)
        timed_out = []

        def kill():
            timed_out.append(True)
            try:
                os.killpg(p.pid, signal.SIGKILL)
            except ProcessLookupError:
                pass
        timer = threading.Timer(timeout_s, kill)
        timer.start()
        try:
            _, status, ru = os.wait4(p.pid, 0)
        finally:
            timer.cancel()
        # make sure nothing of the group survives (cbmc children of a killed driver)
        try:
            os.killpg(p.pid, signal.SIGKILL)
        except (ProcessLookupError, PermissionError):
            pass
        p.returncode = os.waitstatus_to_exitcode(status) if hasattr(os, "waitstatus_to_exitcode") else status
    wall = time.time() - t0
    return (None if timed_out else p.returncode), wall, round(ru.ru_maxrss / 1024.0, 1)


FAILED_RE = re.compile(r"^Failed Checks: (.*)$")
COVER_RE = re.compile(r"\*\* (\d+) of (\d+) cover properties satisfied")
SUMMARY_RE = re.compile(r"\*\* (\d+) of (\d+) failed")


def classify(text, rc):
    """-> (status, detail, failed_checks, cover_sat, cover_total)"""
    failed = []
    lines = text.splitlines()
    for i, l in enumerate(lines):
        m = FAILED_RE.match(l.strip())
        if m:
            loc = lines[i + 1].strip() if i + 1 < len(lines) and lines[i + 1].strip().startswith("File:") else ""
            failed.append((m.group(1) + ("  [" + loc + "]" if loc else "")).strip())
    cov = COVER_RE.search(text)
    cs, ct = (int(cov.group(1)), int(cov.group(2))) if cov else (0, 0)
    low = text.lower()
    if rc is None:
        return "inconclusive", "timeout", failed, cs, ct
    if "VERIFICATION:- SUCCESSFUL" in text:
        if ct == 0:
            return "inconclusive", "vacuous (no cover property reported)", failed, cs, ct
        if cs < ct:
            return "inconclusive", "vacuous (%d of %d cover witnesses unsatisfied)" % (ct - cs, ct), failed, cs, ct
        return "success", "", failed, cs, ct
    if "VERIFICATION:- FAILED" in text:
        real = [f for f in failed if "unwinding assertion" not in f]
        if real:
            return "failed", "", failed, cs, ct
        if failed:
            return "inconclusive", "unwinding", failed, cs, ct
        # FAILED without listed checks: CBMC error status
        if "bad_alloc" in low or "out of memory" in low or "memory exhausted" in low:
            return "inconclusive", "oom", failed, cs, ct
        return "inconclusive", "error", failed, cs, ct
    if "bad_alloc" in low or "out of memory" in low or "memory exhausted" in low or "cannot allocate memory" in low:
        return "inconclusive", "oom", failed, cs, ct
    if "error: could not compile" in text or re.search(r"^error(\[E\d+\])?:", text, re.M) and "CBMC" not in text:
        return "build_error", "", failed, cs, ct
    return "inconclusive", "error", failed, cs, ct


def extract_playback_test(text, name):
    """The unit test Kani prints between ``` fences after 'Concrete playback unit test for'."""
    m = re.search(r"Concrete playback unit test for `[^`]*`:\s*```\s*\n(.*?)```", text, re.S)
    if not m:
        return None
    body = m.group(1)
    # strip the common left margin kani adds
    ls = body.splitlines()
    margin = min((len(l) - len(l.lstrip()) for l in ls if l.strip()), default=0)
    return "\n".join(l[margin:] for l in ls) + "\n"


def produce_cex(h, mem_gb):
    """Re-run a failed harness with concrete playback; store + try to replay the unit test."""
    out = {"cex_file": None, "replay": "none", "cex_command": None}
    os.makedirs(CEX, exist_ok=True)
    cmd = harness_cmd(h, ["-Z", "concrete-playback", "--concrete-playback=print"])
    out["cex_command"] = " ".join(cmd)
    log = os.path.join(LOGS, h["name"] + ".cex.log")
    rc, wall, _ = run_limited(cmd, log, h.get("timeout_s", 300) * 2, mem_gb)
    text = open(log, errors="replace").read()
    test = extract_playback_test(text, h["name"])
    if not test:
        out["replay"] = "no_counterexample_printed"
        return out
    path = os.path.join(CEX, h["name"] + ".rs")
    header = ("// Counterexample for Kani harness %s (property %s)\n// produced by: %s\n"
              "// Paste into %s (inside the harness module) and run `cargo kani playback -Z concrete-playback --test <fn>`.\n"
              % (h["path"], h["property"], " ".join(cmd), "/verif/kani/src/" + h["file"]))
    with open(path, "w") as f:
        f.write(header + test)
    out["cex_file"] = path
    out["replay"] = "printed"
    # concrete values, for convenience
    out["cex_values"] = re.findall(r"^\s*//\s*(.+)$", test, re.M)[:64]
    # ---- native replay in a scratch copy of the crate
    try:
        m = re.search(r"fn (kani_concrete_playback_\w+)", test)
        if not m:
            return out
        tname = m.group(1)
        dst = os.path.join(PLAYBACK, h["name"])
        shutil.rmtree(dst, ignore_errors=True)
        os.makedirs(PLAYBACK, exist_ok=True)
        shutil.copytree(HERE, dst, ignore=shutil.ignore_patterns("target", "__pycache__", "*.json", "*.md", "run.py"))
        cfg = os.path.join(dst, ".cargo", "config.toml")
        with open(cfg, "w") as f:
            f.write('[net]\noffline = true\n\n[build]\ntarget-dir = "%s"\n' % PLAYBACK_TARGET)
        src = os.path.join(dst, "src", h["file"])
        with open(src, "a") as f:
            f.write("\n// ---- appended by run.py for replay ----\n" + test)
        pcmd = ["cargo", "kani", "playback", "-Z", "concrete-playback", "--test", tname]
        plog = os.path.join(LOGS, h["name"] + ".replay.log")
        env = dict(ENV)
        env["CARGO_TARGET_DIR"] = PLAYBACK_TARGET
        rc, wall, _ = run_limited(pcmd, plog, 900, None, cwd=dst, env=env)
        ptxt = open(plog, errors="replace").read()
        out["replay_command"] = "(cd %s && %s)" % (dst, " ".join(pcmd))
        out["replay_log"] = plog
        if re.search(r"test .*%s .*FAILED" % re.escape(tname), ptxt) or ("panicked at" in ptxt and tname in ptxt):
            out["replay"] = "reproduced"
            pm = re.search(r"panicked at ([^\n]*)\n([^\n]*)", ptxt)
            if pm:
                out["replay_panic"] = (pm.group(1) + " " + pm.group(2)).strip()
        elif re.search(r"test .*%s .*ok" % re.escape(tname), ptxt):
            out["replay"] = "not_reproduced"
        else:
            out["replay"] = "printed"
            out["replay_note"] = "playback infrastructure did not run the test (see replay_log)"
        shutil.rmtree(dst, ignore_errors=True)
    except Exception as e:  # noqa
        out["replay_note"] = "replay attempt raised %r" % (e,)
    return out


def run_harness(h, mem_gb, do_cex):
    os.makedirs(LOGS, exist_ok=True)
    cmd = harness_cmd(h)
    log = os.path.join(LOGS, h["name"] + ".log")
    rc, wall, rss = run_limited(cmd, log, h.get("timeout_s", 300), mem_gb)
    text = open(log, errors="replace").read()
    status, detail, failed, cs, ct = classify(text, rc)
    if status == "inconclusive" and detail == "error" and rss > mem_gb * 1024 * 0.9:
        detail = "oom"
    res = {
        "name": h["name"], "property": h["property"], "status": status, "detail": detail,
        "wall_s": round(wall, 1), "peak_rss_mb": rss,
        "cover_satisfied": cs, "cover_total": ct, "cover_ok": ct > 0 and cs == ct,
        "failed_checks": failed, "command": " ".join(cmd), "log": log,
        "unwind": h.get("unwind"), "timeout_s": h.get("timeout_s"),
        "functions": h.get("functions"), "oracle": h.get("oracle"),
        "bounds": h.get("bounds"), "outside_claim": h.get("outside_claim"),
    }
    if h.get("kani_args") and "stubbing" in " ".join(h["kani_args"]):
        res["stub_applied"] = bool(re.search(r"- Stub: .*fmt::format", text)) or None
    if status == "failed" and do_cex:
        res.update(produce_cex(h, mem_gb))
    return res


def main():
    ap = argparse.ArgumentParser(description=__doc__, formatter_class=argparse.RawDescriptionHelpFormatter)
    ap.add_argument("--property", required=False, default="all", help="C17 | C18 | C20 | C05 | all")
    ap.add_argument("--tier", choices=["quick", "thorough"], default="quick")
    ap.add_argument("--jobs", type=int, default=max(1, min(12, (os.cpu_count() or 4) - 2)))
    ap.add_argument("--json", dest="json_out")
    ap.add_argument("--harness", action="append", help="restrict to these harness names (repeatable)")
    ap.add_argument("--mem-gb", type=float, default=MEM_LIMIT_GB_DEFAULT)
    ap.add_argument("--no-cex", action="store_true", help="do not re-run failed harnesses for counterexamples")
    ap.add_argument("--list", action="store_true")
    ap.add_argument("--manifest", default=os.path.join(HERE, "harnesses.json"))
    a = ap.parse_args()

    manifest = json.load(open(a.manifest))
    hs = [h for h in manifest["harnesses"]
          if (a.property.lower() == "all" or h["property"].lower() == a.property.lower()) and a.tier in h["tiers"]]
    if a.harness:
        hs = [h for h in manifest["harnesses"] if h["name"] in a.harness]
    if a.list:
        for h in hs:
            print("%-34s %-4s %-16s unwind=%-5s timeout=%ss" % (h["name"], h["property"], ",".join(h["tiers"]), h.get("unwind"), h.get("timeout_s")))
        return 0

    # one cargo feature per property: only the harness modules of the selected properties are
    # compiled (Kani generates code per harness, so build time is proportional to their number)
    FEATURES[:] = sorted({h["property"].lower() for h in hs})
    t_start = time.time()
    doc = {"tool": "kani", "property": a.property, "tier": a.tier, "jobs": a.jobs,
           "mem_limit_gb": a.mem_gb, "versions": versions(), "harnesses": []}

    # ---- 1. build once (build.rs regenerates the shims from the current /repo text)
    os.makedirs(TARGET, exist_ok=True)
    os.makedirs(LOGS, exist_ok=True)
    lock = os.path.join(HERE, "Cargo.lock")
    if not os.path.exists(lock):
        shutil.copy(os.path.join(REPO, "Cargo.lock"), lock)
    # same -Z / check flags as the harness runs: they are part of the rustc invocation, a
    # different set would make every harness process recompile the crate
    bcmd = base_cmd() + ["--only-codegen"] + DEFAULT_KANI_ARGS
    blog = os.path.join(LOGS, "_build.log")
    rc, bwall, _ = run_limited(bcmd, blog, 1800, None)
    btxt = open(blog, errors="replace").read()
    doc["build"] = {"command": " ".join(bcmd), "wall_s": round(bwall, 1), "ok": rc == 0, "log": blog}
    if rc != 0:
        errs = [l for l in btxt.splitlines() if l.startswith("error") or "verif build.rs" in l][:40]
        doc["build"]["errors"] = errs
        for h in hs:
            doc["harnesses"].append({"name": h["name"], "property": h["property"], "status": "build_error",
                                     "detail": "crate does not compile against the current /repo tree",
                                     "wall_s": 0, "cover_ok": False, "failed_checks": [],
                                     "command": " ".join(harness_cmd(h))})
        return finish(doc, t_start, a)

    # ---- 2./3./4. run
    order = sorted(hs, key=lambda h: -h.get("expected_s", 10))  # longest first
    with ThreadPoolExecutor(max_workers=a.jobs) as ex:
        results = list(ex.map(lambda h: run_harness(h, a.mem_gb, not a.no_cex), order))
    byname = {r["name"]: r for r in results}
    doc["harnesses"] = [byname[h["name"]] for h in hs]
    return finish(doc, t_start, a)


def finish(doc, t_start, a):
    hs = doc["harnesses"]
    doc["total_wall_s"] = round(time.time() - t_start, 1)
    counts = {}
    for r in hs:
        counts[r["status"]] = counts.get(r["status"], 0) + 1
    doc["summary"] = counts
    failed = [r for r in hs if r["status"] == "failed"]
    with_cex = [r for r in failed if r.get("cex_file")]
    if hs and all(r["status"] == "success" for r in hs):
        code = 0
    elif with_cex:
        code = 1
    else:
        code = 2
    doc["exit_code"] = code
    s = json.dumps(doc, indent=1)
    if a.json_out:
        with open(a.json_out, "w") as f:
            f.write(s + "\n")
    print(s)
    return code


if __name__ == "__main__":
    sys.exit(main())
