//! Small helpers to read scenario JSON leniently (numbers may be JSON numbers or decimal strings,
//! token amounts are arbitrary precision) and to print observations.

use std::str::FromStr;

use anyhow::{anyhow, bail, Context, Result};
use fvm_shared::address::{Address, Payload};
use fvm_shared::bigint::BigInt;
use fvm_shared::econ::TokenAmount;
use num_traits::ToPrimitive;
use serde_json::{json, Value};

/// `v[key]` or an error naming the missing key.
pub fn req<'a>(v: &'a Value, key: &str) -> Result<&'a Value> {
    match v.get(key) {
        Some(x) if !x.is_null() => Ok(x),
        _ => Err(anyhow!("malformed scenario: missing key '{}'", key)),
    }
}

/// `v[key]` if present and not null.
pub fn opt<'a>(v: &'a Value, key: &str) -> Option<&'a Value> {
    match v.get(key) {
        Some(x) if !x.is_null() => Some(x),
        _ => None,
    }
}

/// Arbitrary-precision integer from a JSON number or a decimal string.
pub fn big(v: &Value) -> Result<BigInt> {
    let s = match v {
        Value::Number(n) => n.to_string(),
        Value::String(s) => s.trim().to_string(),
        Value::Bool(b) => (*b as u8).to_string(),
        other => bail!("malformed scenario: expected an integer, got {}", other),
    };
    // accept "12", "-12", "+12", "12.0"
    let s = s.strip_prefix('+').unwrap_or(&s).to_string();
    let s = match s.split_once('.') {
        Some((a, b)) if b.chars().all(|c| c == '0') => a.to_string(),
        _ => s,
    };
    BigInt::from_str(&s).map_err(|_| anyhow!("malformed scenario: '{}' is not an integer", s))
}

pub fn i64_of(v: &Value) -> Result<i64> {
    let b = big(v)?;
    b.to_i64().ok_or_else(|| anyhow!("malformed scenario: {} does not fit in i64", b))
}

pub fn u64_of(v: &Value) -> Result<u64> {
    let b = big(v)?;
    b.to_u64().ok_or_else(|| anyhow!("malformed scenario: {} does not fit in u64", b))
}

pub fn token(v: &Value) -> Result<TokenAmount> {
    Ok(TokenAmount::from_atto(big(v)?))
}

pub fn bool_of(v: &Value) -> Result<bool> {
    match v {
        Value::Bool(b) => Ok(*b),
        Value::String(s) if s.eq_ignore_ascii_case("true") => Ok(true),
        Value::String(s) if s.eq_ignore_ascii_case("false") => Ok(false),
        Value::Number(_) | Value::String(_) => Ok(big(v)? != BigInt::from(0)),
        other => bail!("malformed scenario: expected a bool, got {}", other),
    }
}

pub fn req_i64(v: &Value, key: &str) -> Result<i64> {
    i64_of(req(v, key)?).with_context(|| format!("key '{}'", key))
}
pub fn req_u64(v: &Value, key: &str) -> Result<u64> {
    u64_of(req(v, key)?).with_context(|| format!("key '{}'", key))
}
pub fn req_token(v: &Value, key: &str) -> Result<TokenAmount> {
    token(req(v, key)?).with_context(|| format!("key '{}'", key))
}
pub fn req_str<'a>(v: &'a Value, key: &str) -> Result<&'a str> {
    req(v, key)?.as_str().ok_or_else(|| anyhow!("malformed scenario: key '{}' must be a string", key))
}
pub fn opt_i64(v: &Value, key: &str, d: i64) -> Result<i64> {
    opt(v, key).map(i64_of).unwrap_or(Ok(d)).with_context(|| format!("key '{}'", key))
}
pub fn opt_u64(v: &Value, key: &str, d: u64) -> Result<u64> {
    opt(v, key).map(u64_of).unwrap_or(Ok(d)).with_context(|| format!("key '{}'", key))
}
pub fn opt_token(v: &Value, key: &str) -> Result<TokenAmount> {
    opt(v, key).map(token).unwrap_or(Ok(TokenAmount::default())).with_context(|| format!("key '{}'", key))
}
pub fn opt_bool(v: &Value, key: &str, d: bool) -> Result<bool> {
    opt(v, key).map(bool_of).unwrap_or(Ok(d)).with_context(|| format!("key '{}'", key))
}
pub fn opt_hex(v: &Value, key: &str) -> Result<Vec<u8>> {
    match opt(v, key) {
        None => Ok(vec![]),
        Some(x) => hex_of(x).with_context(|| format!("key '{}'", key)),
    }
}
pub fn list<'a>(v: &'a Value, key: &str) -> Result<&'a [Value]> {
    match opt(v, key) {
        None => Ok(&[]),
        Some(Value::Array(a)) => Ok(a.as_slice()),
        Some(other) => bail!("malformed scenario: key '{}' must be a list, got {}", key, other),
    }
}

pub fn hex_of(v: &Value) -> Result<Vec<u8>> {
    let s = v.as_str().ok_or_else(|| anyhow!("malformed scenario: expected a hex string, got {}", v))?;
    let s = s.strip_prefix("0x").unwrap_or(s);
    hex::decode(s).map_err(|e| anyhow!("malformed scenario: bad hex '{}': {}", s, e))
}

/// Address notation accepted everywhere an address is expected:
///   123 or "123"                      -> ID address f0123
///   "f1...", "f2...", "f3...", "f4..."  -> parsed textual address
///   {"actor": <seed>}                 -> f2 actor address derived from the seed (any JSON scalar)
///   {"bls": <u8 seed>} / {"secp": <seed>} -> deterministic key address
///   {"delegated": [<namespace id>, "<subaddress hex>"]}
pub fn addr(v: &Value) -> Result<Address> {
    match v {
        Value::Number(_) => Ok(Address::new_id(u64_of(v)?)),
        Value::String(s) => {
            let t = s.trim();
            if !t.is_empty() && t.chars().all(|c| c.is_ascii_digit()) {
                return Ok(Address::new_id(u64_of(v)?));
            }
            Address::from_str(t).map_err(|e| anyhow!("malformed scenario: bad address '{}': {}", t, e))
        }
        Value::Object(o) => {
            if let Some(x) = o.get("id") {
                return Ok(Address::new_id(u64_of(x)?));
            }
            if let Some(x) = o.get("actor") {
                return Ok(Address::new_actor(format!("replay-actor-{}", scalar_text(x)).as_bytes()));
            }
            if let Some(x) = o.get("bls") {
                let seed = u64_of(x)?;
                let mut key = [0u8; 48];
                key[..8].copy_from_slice(&seed.to_be_bytes());
                key[47] = 0xb1;
                return Address::new_bls(&key).map_err(|e| anyhow!("bls address: {}", e));
            }
            if let Some(x) = o.get("secp") {
                let seed = u64_of(x)?;
                let mut key = [0u8; 65];
                key[0] = 4;
                key[1..9].copy_from_slice(&seed.to_be_bytes());
                return Address::new_secp256k1(&key).map_err(|e| anyhow!("secp address: {}", e));
            }
            if let Some(Value::Array(a)) = o.get("delegated") {
                if a.len() == 2 {
                    return Address::new_delegated(u64_of(&a[0])?, &hex_of(&a[1])?)
                        .map_err(|e| anyhow!("delegated address: {}", e));
                }
            }
            bail!("malformed scenario: unknown address notation {}", v)
        }
        other => bail!("malformed scenario: expected an address, got {}", other),
    }
}

fn scalar_text(v: &Value) -> String {
    match v {
        Value::String(s) => s.clone(),
        other => other.to_string(),
    }
}

/// ID addresses print as numbers, everything else as the textual address.
pub fn addr_json(a: &Address) -> Value {
    match a.payload() {
        Payload::ID(id) => json!(*id),
        _ => json!(a.to_string()),
    }
}

/// Token amounts are printed as decimal strings (they may exceed 64 bits).
pub fn token_json(t: &TokenAmount) -> Value {
    json!(t.atto().to_string())
}
