"""update_replica_states (the ledger step of ProveReplicaUpdates3): executed whole from MIR for a given grouping of updates
by deadline.
CUTS (declared, each a recorded result contract): request_current_epoch_block_reward / request_current_total_power (typed
answers), State::load_deadlines / save_deadlines, Deadlines::load_deadline (a deadline with symbolic live_power and daily_fee) /
update_deadline (captures the deadline written), Deadline::partitions_amt and the partitions array get/set/flush,
update_existing_sector_info (arbitrary well-formed new sector info; its weight arithmetic is decided by miner_ext / miner_formulas),
Partition::replace_sectors -> arbitrary (power delta, pledge delta, daily-fee delta), recorded per call,
Sectors::store (captures the sector infos written), the sectors AMT flush.
Clauses: C02 (power), C03 (pledge), C01 (solvency)."""
from .common import *
from .miner_common import *
from .miner_common import CRATES
from .miner_money import tagged, for_property, install_bib_cut, bib_prop
from .miner_cron import _pp


def run_replica(shape):
    """shape: list of update counts per deadline, e.g. [1], [2], [1, 1]"""
    def run(E):
        rt, rtref = new_rt(E)
        pre = mk_miner_state(E, 0)
        rt.state = pre['st']
        E.ctx.assume(rt.balance >= pre['pcd'] + pre['lf'] + pre['ip'])
        E.ctx.assume(z3.And(rt.epoch >= 0, rt.epoch < 2**40))
        env = E.ctx.env
        env['balance0'] = rt.balance
        RU = Fields('actors/miner/src/lib.rs', 'ReplicaUpdateStateInputs')
        DL = Fields('actors/miner/src/deadline_state.rs', 'Deadline')
        from mirsym.models_std import DictM
        d = DictM('BTreeMap')
        dl_idx = [E.materialize('u64', 'dl%d' % i) for i in range(len(shape))]
        for a, b in zip(dl_idx, dl_idx[1:]):
            E.ctx.assume(a.v < b.v)
        for x in dl_idx:
            E.ctx.assume(x.v < 48)
        ups = []
        for i, n in enumerate(shape):
            items = []
            for j in range(n):
                si = Cell(LazyV('old_%d_%d' % (i, j), 'types::SectorOnChainInfo'), 'si')
                env.setdefault('old_cells', []).append(si)
                u = StructV('ReplicaUpdateStateInputs', {RU['deadline']: dl_idx[i], RU['partition']: E.materialize('u64', 'part_%d_%d' % (i, j)),
                                                         RU['sector_info']: RefV(si, ()), RU['activated_data']: LazyV('act_%d_%d' % (i, j), 'ReplicaUpdateActivatedData')})
                items.append(u)
                ups.append((i, j))
            d.items.append([models_fvm.key_term(E, dl_idx[i]), dl_idx[i], Cell(VecV(items, 'Vec<ReplicaUpdateStateInputs>'), 'dv')])
        env['shape'] = shape
        lz = lambda nm, ty: (lambda E2, c: ok(LazyV(E2.ctx.fresh_name(nm), ty), c.dest_ty))
        okc = lambda E2, c: ok(UNIT, c.dest_ty)
        E.cuts['request_current_epoch_block_reward'] = lz('rew', 'ext::reward::ThisEpochRewardReturn')
        PW = Fields('actors/miner/src/ext.rs', 'CurrentTotalPowerReturn')

        def cut_pow(E2, c):
            # environment contract: epochs reported by the power actor are chain epochs (|e| < 2^40)
            rs = E2.materialize('i64', E2.ctx.fresh_name('pow.ramp_start_epoch'))
            E2.ctx.assume(z3.And(rs.v > -2**40, rs.v < 2**40))
            return ok(StructV('ext::power::CurrentTotalPowerReturn', {PW['ramp_start_epoch']: rs}, lazy=E2.ctx.fresh_name('pow')), c.dest_ty)
        E.cuts['request_current_total_power'] = cut_pow
        E.cuts['State::load_deadlines'] = lz('deadlines', 'deadlines::Deadlines')
        E.cuts['State::save_deadlines'] = okc
        loaded = env.setdefault('loaded', [])

        def cut_load_dl(E2, c):
            k = len(loaded)
            lp = (z3.Int('dl%d.live.raw' % k), z3.Int('dl%d.live.qa' % k))
            fee = z3.Int('dl%d.daily_fee' % k)
            loaded.append(dict(idx=zv(c.args[2]), live=lp, fee=fee))
            return ok(StructV('deadline_state::Deadline', {DL['live_power']: _pp(*lp), DL['daily_fee']: BigV(fee)}, lazy='dl%d' % k), c.dest_ty)
        E.cuts['Deadlines::load_deadline'] = cut_load_dl
        written = env.setdefault('written', [])

        def cut_update_dl(E2, c):
            dlv = E2.deref(c.args[4])
            lp = E2.deref(fget(E2, dlv, DL['live_power'], 'PowerPair'))
            written.append(dict(idx=zv(c.args[3]), live=(big(E2, fget(E2, lp, 0, 'BigInt')), big(E2, fget(E2, lp, 1, 'BigInt'))), fee=big(E2, fget(E2, dlv, DL['daily_fee'], TOKEN))))
            return ok(UNIT, c.dest_ty)
        E.cuts['Deadlines::update_deadline'] = cut_update_dl
        E.cuts['Deadline::partitions_amt'] = lambda E2, c: ok(OpaqueV('partitions', E2.ctx.fresh_name('parts')), c.dest_ty)
        gets = env.setdefault('gets', [])

        def cut_get(E2, c):
            gets.append(zv(c.args[1]))
            p = Cell(LazyV(E2.ctx.fresh_name('partition'), 'partition_state::Partition'), 'p')
            return ok(some(RefV(p, ()), 'Option<&Partition>'), c.dest_ty)
        sets = env.setdefault('sets', [])

        def cut_set(E2, c):
            sets.append(zv(c.args[1]))
            return ok(UNIT, c.dest_ty)
        for pre_ in ('Amt::', 'Array::', 'AmtImpl::'):
            E.cuts[pre_ + 'get'] = cut_get
            E.cuts[pre_ + 'set'] = cut_set
            E.cuts[pre_ + 'flush'] = lambda E2, c: ok(E2.materialize(CID, E2.ctx.fresh_name('flushed')), c.dest_ty)
        SI = Fields('actors/miner/src/types.rs', 'SectorOnChainInfo')

        def wf_sector(E2, sec):
            # sector invariants (as in miner_ext): a live sector with non-negative weights, power base <= now < expiration < 2^40
            g = lambda f, ty: fget(E2, sec, SI[f], ty)
            E2.ctx.assume(z3.And(big(E2, g('deal_weight', 'BigInt')) >= 0, big(E2, g('verified_deal_weight', 'BigInt')) >= 0,
                                 g('power_base_epoch', 'i64').v >= 0, g('power_base_epoch', 'i64').v <= rt.epoch, g('expiration', 'i64').v > rt.epoch,
                                 g('expiration', 'i64').v < 2**40, g('activation', 'i64').v >= 0, g('activation', 'i64').v <= rt.epoch,
                                 big(E2, g('initial_pledge', TOKEN)) >= 0, big(E2, g('daily_fee', TOKEN)) >= 0))
            return sec

        def cut_new_sector(E2, c):
            sec = StructV('types::SectorOnChainInfo', {}, lazy=E2.ctx.fresh_name('new_sector'))
            return wf_sector(E2, sec)
        E.cuts['update_existing_sector_info'] = cut_new_sector
        for cell_ in env.get('old_cells', []):
            cell_.value = wf_sector(E, StructV('types::SectorOnChainInfo', {}, lazy=cell_.value.name))
        repl = env.setdefault('repl', [])

        def cut_replace(E2, c):
            k = len(repl)
            pd = (z3.Int('r%d.power.raw' % k), z3.Int('r%d.power.qa' % k))
            pl, fe = z3.Int('r%d.pledge' % k), z3.Int('r%d.fee' % k)
            repl.append(dict(power=pd, pledge=pl, fee=fe, after_loads=len(loaded)))
            return ok(StructV('tuple', {0: _pp(*pd), 1: BigV(pl), 2: BigV(fe)}), c.dest_ty)
        E.cuts['Partition::replace_sectors'] = cut_replace

        def cut_store(E2, c):
            env['stored'] = len(E2.deref(c.args[1]).items)
            return ok(UNIT, c.dest_ty)
        E.cuts['Sectors::store'] = cut_store
        install_bib_cut(E)
        sectors = Cell(LazyV('sectors', 'sectors::Sectors'), 'sectors')
        fn = find_fn(E, MINER, 'update_replica_states')
        n = sum(shape)
        return E.run_function(fn, [rtref, RefV(Cell(ObjV(d), 'ubd'), ()), IntV(n, 'usize'), RefV(sectors, (), True), EnumV('fvm_shared::sector::SectorSize', 32 << 30, '_32GiB', {})]), rt   # sector size only feeds the cut kernels
    return run


def props_replica(E, res):
    env = res.ctx.env
    rt, pre = env['rt'], env['pre']
    if res.kind != 'return':
        return [tagged('ALL', 'no panic (%s)' % str(res.info)[:60], False)]
    if is_err(res.value):
        return [bib_prop(res), tagged('C03,C02', 'a refused replica update commits nothing', z3.BoolVal(rt.commits == 0))]
    shape = env['shape']
    repl, loaded, written = env.get('repl', []), env.get('loaded', []), env.get('written', [])
    n = sum(shape)
    P = []
    P.append(tagged('C02,C03', 'every update is applied to its partition exactly once (no sector keeps stale power or pledge in its partition)', len(repl) == n))
    P.append(tagged('C02,C03', 'every updated sector info is written back', env.get('stored') == n))
    P.append(tagged('C02', 'each partition that was loaded is saved again', env.get('gets', []) == env.get('sets', []) if all(not is_sym(x) for x in env.get('gets', []) + env.get('sets', [])) else len(env.get('gets', [])) == len(env.get('sets', []))))
    tup = E.deref(res.value.fields[('Ok', 0)])
    pw = E.deref(fget(E, tup, 0, 'PowerPair'))
    ret_pow = (big(E, fget(E, pw, 0, 'BigInt')), big(E, fget(E, pw, 1, 'BigInt')))
    ret_pledge = big(E, fget(E, tup, 1, TOKEN))
    tot = lambda k: sum(r[k] for r in repl) if repl else 0
    P.append(tagged('C02', "the power delta reported for the miner's claim is the sum of the partitions' power deltas, each counted once",
                    z3.And(ret_pow[0] == (sum(r['power'][0] for r in repl) if repl else 0), ret_pow[1] == (sum(r['power'][1] for r in repl) if repl else 0))))
    P.append(tagged('C03', "the pledge delta reported is the sum of the partitions' pledge deltas", ret_pledge == tot('pledge')))
    led = ledgers(E, rt.state)
    P.append(tagged('C03', 'initial pledge moves by exactly the sum of the pledge deltas of the updated sectors', led['ip'] == pre['ip'] + tot('pledge')))
    P.append(tagged('C03', 'no other ledger moves', z3.And(led['pcd'] == pre['pcd'], led['lf'] == pre['lf'], led['fd'] == pre['fd'])))
    P.append(tagged('C01', 'miner stays solvent', solvency(rt, led)))
    P.append(tagged('C01,C03', 'a pledge increase is covered by unlocked balance', z3.Implies(tot('pledge') > 0, env['balance0'] - pre['pcd'] - pre['lf'] - pre['ip'] >= tot('pledge'))))
    # per deadline: its power / fee memo moves by exactly the deltas of its own updates
    P.append(tagged('C02', 'every deadline with updates is loaded and written once', len(loaded) == len(shape) and len(written) == len(shape)))
    if len(loaded) == len(shape) and len(written) == len(shape):
        for i, cnt in enumerate(shape):
            mine = [r for r in repl if r['after_loads'] == i + 1]
            P.append(tagged('C02', "a deadline's live-power memo moves by exactly the power deltas of its own updates (nothing carried over from another deadline)",
                            z3.And(written[i]['live'][0] == loaded[i]['live'][0] + (sum(r['power'][0] for r in mine) if mine else 0),
                                   written[i]['live'][1] == loaded[i]['live'][1] + (sum(r['power'][1] for r in mine) if mine else 0))))
            P.append(tagged('C15', "a deadline's daily-fee memo moves by exactly the fee deltas of its own updates",
                            written[i]['fee'] == loaded[i]['fee'] + (sum(r['fee'] for r in mine) if mine else 0)))
            P.append(tagged('C02', 'the deadline written is the deadline loaded', written[i]['idx'] == loaded[i]['idx']))
    return P


def build_for(pid, tier):
    wrap = lambda f: (lambda E, res: for_property(pid, f(E, res)))
    shapes = [[1], [2], [1, 1]] if tier == 'quick' else [[1], [2], [1, 1], [2, 1], [3]]
    return [Obligation('miner.update_replica_states[updates per deadline=%s]' % sh, run_replica(sh), wrap(props_replica),
                       descr="replica update ledger step: every update is applied to its partition once; the reported power / pledge deltas and each deadline's memos are the sums of the partitions' deltas; initial pledge moves by the pledge delta, covered by unlocked balance",
                       bounds='%d deadline(s) with %s update(s); CUTS: network queries, deadline / partition / sector-table loading and saving, update_existing_sector_info, Partition::replace_sectors (arbitrary recorded deltas)' % (len(sh), sh),
                       max_paths=100000, wall_s=600) for sh in shapes]


# ---- extend_sector_expiration_inner: the roll-up of an extension message ------------------------------------------------------
# CUTS (declared): deadline / partition / sector loading and saving as above, Sectors::load_sectors (one arbitrary well-formed
# sector per declaration), extend_sector_committment (arbitrary well-formed new sector or a refusal; its arithmetic and claim rules
# are C10's miner_ext obligations), Partition::replace_sectors (arbitrary recorded deltas), Deadline::add_expiration_partitions
# (recorded).  Deadline indices are concrete (the code indexes a 48-slot vector by them and treats all slots alike).

def run_extend_inner(shape, idxs=(3, 7, 11)):
    """shape: declarations per deadline, e.g. [1], [2], [1, 1]"""
    def run(E):
        rt, rtref = new_rt(E)
        pre = mk_miner_state(E, 0)
        rt.state = pre['st']
        E.ctx.assume(rt.balance >= pre['pcd'] + pre['lf'] + pre['ip'])
        E.ctx.assume(z3.And(rt.epoch >= 0, rt.epoch < 2**40))
        from . import C13
        E.ctx.assume(z3.Not(C13.bz(C13.view(E, pre['info'])['pw_some'])))
        env = E.ctx.env
        env['balance0'] = rt.balance
        env['shape'] = shape
        DL = Fields('actors/miner/src/deadline_state.rs', 'Deadline')
        SI = Fields('actors/miner/src/types.rs', 'SectorOnChainInfo')
        VE = Fields('actors/miner/src/lib.rs', 'ValidatedExpirationExtension')
        EI = Fields('actors/miner/src/lib.rs', 'ExtendExpirationsInner')
        from mirsym.models_std import DictM
        decls = []
        for i, n in enumerate(shape):
            for j in range(n):
                ne = E.materialize('i64', 'decl_%d_%d.new_expiration' % (i, j))
                E.ctx.assume(z3.And(ne.v > rt.epoch, ne.v < 2**40))
                decls.append(StructV('ValidatedExpirationExtension', {VE['deadline']: IntV(idxs[i], 'u64'), VE['partition']: E.materialize('u64', 'decl_%d_%d.partition' % (i, j)),
                                                                      VE['sectors']: models_fvm.BitFieldV('decl_%d_%d.sectors' % (i, j)), VE['new_expiration']: ne}))
        env['decl_epochs'] = [[zv(fget(E, d, VE['new_expiration'], 'i64')) for d in decls if zv(fget(E, d, VE['deadline'], 'u64')) == idxs[i]] for i in range(len(shape))]
        env['decl_parts'] = [[zv(fget(E, d, VE['partition'], 'u64')) for d in decls if zv(fget(E, d, VE['deadline'], 'u64')) == idxs[i]] for i in range(len(shape))]
        inner = StructV('ExtendExpirationsInner', {EI['extensions']: VecV(decls, 'Vec<ValidatedExpirationExtension>'),
                                                   EI['claims']: some(ObjV(DictM('BTreeMap')), 'Option<BTreeMap<u64, (u64, u64)>>')})
        lz = lambda nm, ty: (lambda E2, c: ok(LazyV(E2.ctx.fresh_name(nm), ty), c.dest_ty))
        okc = lambda E2, c: ok(UNIT, c.dest_ty)
        E.cuts['State::load_deadlines'] = lz('deadlines', 'deadlines::Deadlines')
        E.cuts['State::save_deadlines'] = okc
        E.cuts['Sectors::load'] = lz('sectors', 'sectors::Sectors')
        E.cuts['State::quant_spec_for_deadline'] = lambda E2, c: LazyV(E2.ctx.fresh_name('quant'), 'quantize::QuantSpec')
        loaded, written = env.setdefault('loaded', []), env.setdefault('written', [])

        def cut_load_dl(E2, c):
            k = len(loaded)
            lp = (z3.Int('dl%d.live.raw' % k), z3.Int('dl%d.live.qa' % k))
            fee = z3.Int('dl%d.daily_fee' % k)
            loaded.append(dict(idx=zv(c.args[2]), live=lp, fee=fee))
            return ok(StructV('deadline_state::Deadline', {DL['live_power']: _pp(*lp), DL['daily_fee']: BigV(fee)}, lazy='dl%d' % k), c.dest_ty)
        E.cuts['Deadlines::load_deadline'] = cut_load_dl

        def cut_update_dl(E2, c):
            dlv = E2.deref(c.args[4])
            lp = E2.deref(fget(E2, dlv, DL['live_power'], 'PowerPair'))
            written.append(dict(idx=zv(c.args[3]), live=(big(E2, fget(E2, lp, 0, 'BigInt')), big(E2, fget(E2, lp, 1, 'BigInt'))), fee=big(E2, fget(E2, dlv, DL['daily_fee'], TOKEN)),
                                resched=list(env.get('resched_pending', []))))
            env['resched_pending'] = []
            return ok(UNIT, c.dest_ty)
        E.cuts['Deadlines::update_deadline'] = cut_update_dl
        E.cuts['Deadline::partitions_amt'] = lambda E2, c: ok(OpaqueV('partitions', E2.ctx.fresh_name('parts')), c.dest_ty)
        gets, sets = env.setdefault('gets', []), env.setdefault('sets', [])

        def cut_get(E2, c):
            gets.append(zv(c.args[1]))
            p = Cell(LazyV(E2.ctx.fresh_name('partition'), 'partition_state::Partition'), 'p')
            return ok(some(RefV(p, ()), 'Option<&Partition>'), c.dest_ty)

        def cut_set(E2, c):
            sets.append(zv(c.args[1]))
            return ok(UNIT, c.dest_ty)
        for pre_ in ('Amt::', 'Array::', 'AmtImpl::'):
            E.cuts[pre_ + 'get'] = cut_get
            E.cuts[pre_ + 'set'] = cut_set
            E.cuts[pre_ + 'flush'] = lambda E2, c: ok(E2.materialize(CID, E2.ctx.fresh_name('flushed')), c.dest_ty)

        def wf_sector(E2, nm):
            sec = StructV('types::SectorOnChainInfo', {}, lazy=nm)
            g = lambda f, ty: fget(E2, sec, SI[f], ty)
            E2.ctx.assume(z3.And(big(E2, g('deal_weight', 'BigInt')) >= 0, big(E2, g('verified_deal_weight', 'BigInt')) >= 0,
                                 g('power_base_epoch', 'i64').v >= 0, g('power_base_epoch', 'i64').v <= rt.epoch, g('expiration', 'i64').v > rt.epoch,
                                 g('expiration', 'i64').v < 2**40, big(E2, g('initial_pledge', TOKEN)) >= 0))
            return sec
        E.cuts['Sectors::load_sectors'] = lambda E2, c: ok(VecV([wf_sector(E2, E2.ctx.fresh_name('old_sector'))], 'Vec<SectorOnChainInfo>'), c.dest_ty)

        def cut_extend(E2, c):
            if E2.ctx.branch(E2.ctx.fresh_bool('extension_allowed')):
                return ok(wf_sector(E2, E2.ctx.fresh_name('new_sector')), c.dest_ty)
            return err(models_fvm.actor_error(E2, 16), c.dest_ty)
        E.cuts['extend_sector_committment'] = cut_extend
        stored = env.setdefault('stored', [])

        def cut_store(E2, c):
            stored.append(len(E2.deref(c.args[1]).items))
            return ok(UNIT, c.dest_ty)
        E.cuts['Sectors::store'] = cut_store
        repl = env.setdefault('repl', [])

        def cut_replace(E2, c):
            k = len(repl)
            pd = (z3.Int('r%d.power.raw' % k), z3.Int('r%d.power.qa' % k))
            pl, fe = z3.Int('r%d.pledge' % k), z3.Int('r%d.fee' % k)
            repl.append(dict(power=pd, pledge=pl, fee=fe, after_loads=len(loaded)))
            return ok(StructV('tuple', {0: _pp(*pd), 1: BigV(pl), 2: BigV(fe)}), c.dest_ty)
        E.cuts['Partition::replace_sectors'] = cut_replace

        def cut_resched(E2, c):
            ps = [zv(E2.deref(x)) for x in E2.deref(c.args[3]).items]
            env['resched_pending'] = env.get('resched_pending', []) + [dict(epoch=zv(c.args[2]), parts=ps)]
            return ok(UNIT, c.dest_ty)
        E.cuts['Deadline::add_expiration_partitions'] = cut_resched
        install_bib_cut(E)
        rt.send_hook = lambda E2, rt2, rec, nm: ('ok', None)
        fn = find_fn(E, MINER, 'extend_sector_expiration_inner')
        return E.run_function(fn, [rtref, inner]), rt
    return run


def props_extend_inner(E, res):
    from .miner_money import classify_sends, pledge_delta_of
    from .miner_cron import POWER, UPDATE_CLAIMED_POWER
    env = res.ctx.env
    rt, pre = env['rt'], env['pre']
    ctx = res.ctx
    if res.kind != 'return':
        return [tagged('ALL', 'no panic (%s)' % str(res.info)[:60], False)]
    if is_err(res.value):
        return [bib_prop(res), tagged('C02,C10', 'a refused extension commits nothing and changes no power', z3.BoolVal(rt.commits == 0 and len(rt.sends) == 0))]
    shape = env['shape']
    n = sum(shape)
    repl, loaded, written = env.get('repl', []), env.get('loaded', []), env.get('written', [])
    P = [tagged('C02,C10', 'every declaration is applied to its partition exactly once', len(repl) == n),
         tagged('C02,C10', 'the extended sector infos of every declaration are written back', env.get('stored', []) == [1] * n),
         tagged('C02', 'every deadline with declarations is loaded and written once', len(loaded) == len(shape) and len(written) == len(shape))]
    tot = (sum(r['power'][0] for r in repl) if repl else 0, sum(r['power'][1] for r in repl) if repl else 0)
    ups = [s for s in rt.sends if implied(ctx, b_and(s.to.key == POWER, zv(s.method) == UPDATE_CLAIMED_POWER))]
    if ups:
        obj = ups[0].params.obj if isinstance(ups[0].params, BlockV) else None
        if obj is None:
            P.append(tagged('C02', 'the power update carries typed params', False))
        else:
            P.append(tagged('C02,C10', "the miner's claim moves by exactly the sum of the partitions' power deltas (power of dropped claims leaves the claim), in one update",
                            b_and(len(ups) == 1, big(E, fget(E, obj, 0, 'BigInt')) == tot[0], big(E, fget(E, obj, 1, 'BigInt')) == tot[1])))
    else:
        P.append(tagged('C02,C10', 'no power update is sent only when the extension changes no power', z3.And(tot[0] == 0, tot[1] == 0)))
    if len(loaded) == len(shape) and len(written) == len(shape):
        for i, cnt in enumerate(shape):
            mine = [r for r in repl if r['after_loads'] == i + 1]
            P.append(tagged('C02', "a deadline's live-power memo moves by exactly the power deltas of its own declarations",
                            z3.And(written[i]['live'][0] == loaded[i]['live'][0] + (sum(r['power'][0] for r in mine) if mine else 0),
                                   written[i]['live'][1] == loaded[i]['live'][1] + (sum(r['power'][1] for r in mine) if mine else 0))))
            P.append(tagged('C15', "a deadline's daily-fee memo moves by exactly the fee deltas of its own declarations",
                            written[i]['fee'] == loaded[i]['fee'] + (sum(r['fee'] for r in mine) if mine else 0)))
            # expiration schedule: every (new expiration, partition) of the deadline's declarations is entered in its expiration queue
            res_ = written[i]['resched']
            for ep, part in zip(env['decl_epochs'][i], env['decl_parts'][i]):
                hit = any_of([b_and(r['epoch'] == ep, any_of([p == part for p in r['parts']])) for r in res_]) if res_ else False
                P.append(tagged('C02,C10', "each extended partition is entered in its deadline's expiration queue at the new expiration epoch", hit))
    led = ledgers(E, rt.state)
    P.append(tagged('C03', 'an extension moves no collateral', z3.And(led['ip'] == pre['ip'], led['pcd'] == pre['pcd'], led['lf'] == pre['lf'], led['fd'] == pre['fd'], *[s.value == 0 for s in rt.sends])))
    return P


def build_extend_inner(pid, tier):
    wrap = lambda f: (lambda E, res: for_property(pid, f(E, res)))
    shapes = [[1], [2], [1, 1]] if tier == 'quick' else [[1], [2], [1, 1], [2, 1]]
    return [Obligation('miner.extend_sector_expiration_inner[declarations per deadline=%s]' % sh, run_extend_inner(sh), wrap(props_extend_inner),
                       descr="extension roll-up: every declaration applied once; the claim and each deadline's memos move by the sums of the partitions' deltas; every extended partition is entered in the expiration queue at its new epoch; no collateral moves",
                       bounds='%d deadline(s) (concrete indices) with %s declaration(s) of one sector each; CUTS: deadline / partition / sector loading, extend_sector_committment (arbitrary well-formed result or refusal), Partition::replace_sectors (arbitrary recorded deltas), add_expiration_partitions (recorded)' % (len(sh), sh),
                       max_paths=100000, wall_s=600) for sh in shapes]


# ---- validate_replica_updates: which sectors may take new data -----------------------------------------------------------------
# CUTS (declared): is_sealed_sector (cid prefix check: arbitrary verdict), deadline_is_mutable (arbitrary verdict),
# State::check_sector_active (arbitrary answer or failure), registered_update_proof (arbitrary proof type) and the comparison of proof types (arbitrary verdict).

def run_validate_updates(n, all_or_nothing):
    def run(E):
        rt, rtref = new_rt(E)
        env = E.ctx.env
        RU = Fields('actors/miner/src/lib.rs', 'ReplicaUpdateInner')
        SI = Fields('actors/miner/src/types.rs', 'SectorOnChainInfo')
        ups, secs = [], []
        for i in range(n):
            dl = E.materialize('u64', 'upd%d.deadline' % i)
            plen = E.materialize('usize', 'upd%d.proof_len' % i)
            u = StructV('ReplicaUpdateInner', {RU['sector_number']: E.materialize('u64', 'upd%d.sector' % i), RU['deadline']: dl, RU['partition']: E.materialize('u64', 'upd%d.partition' % i)}, lazy='upd%d' % i)
            ups.append(u)
            s = StructV('types::SectorOnChainInfo', {}, lazy='sec%d' % i)
            dw, vw = big(E, fget(E, s, SI['deal_weight'], 'BigInt')), big(E, fget(E, s, SI['verified_deal_weight'], 'BigInt'))
            E.ctx.assume(z3.And(dw >= 0, vw >= 0))          # sector invariant: weights are non-negative
            secs.append(dict(v=s, dw=dw, vw=vw))
        env['ups'], env['secs'] = ups, secs
        sealed, mutable, active = env.setdefault('sealed', []), env.setdefault('mutable', []), env.setdefault('active', [])
        mkb = lambda lst, nm: (lambda E2, c: (lst.append(E2.ctx.fresh_bool(nm)) or lst[-1]))
        E.cuts['is_sealed_sector'] = mkb(sealed, 'sealed_cid_ok')
        for pre_ in ('', 'deadlines::'):
            E.cuts[pre_ + 'deadline_is_mutable'] = mkb(mutable, 'deadline_mutable')
        E.cuts['State::current_proving_period_start'] = lambda E2, c: E2.materialize('i64', E2.ctx.fresh_name('period_start'))

        def cut_active(E2, c):
            if E2.ctx.branch(E2.ctx.fresh_bool('active_check_fails')):
                active.append(None)
                return err(models_fvm.actor_error(E2, 20), c.dest_ty)
            b = E2.ctx.fresh_bool('sector_active')
            active.append(b)
            return ok(b, c.dest_ty)
        E.cuts['State::check_sector_active'] = cut_active
        E.cuts['RegisteredSealProof::registered_update_proof'] = lambda E2, c: ok(LazyV(E2.ctx.fresh_name('expected_proof'), 'fvm_shared::sector::RegisteredUpdateProof'), c.dest_ty)
        E.cuts['<RegisteredUpdateProof as PartialEq>::ne'] = lambda E2, c: E2.ctx.fresh_bool('proof_type_differs')
        E.cuts['<RegisteredUpdateProof as PartialEq>::eq'] = lambda E2, c: E2.ctx.fresh_bool('proof_type_same')
        pol = E.do_call(None, '<Policy as Default>::default', [], 'Policy')
        st = Cell(LazyV('st', 'State'), 'st')
        env['aon'] = all_or_nothing
        fn = find_fn(E, MINER, 'validate_replica_updates')
        return E.run_function(fn, [RefV(Cell(VecV(ups, 'Vec<ReplicaUpdateInner>'), 'ups'), ()), RefV(Cell(VecV([s['v'] for s in secs], 'Vec<SectorOnChainInfo>'), 'secs'), ()),
                                   RefV(st, ()), RefV(Cell(pol, 'policy'), ()), E.materialize('i64', 'epoch'), OpaqueV('store', 'bs'), all_or_nothing]), rt
    return run


def props_validate_updates(E, res):
    env = res.ctx.env
    ctx = res.ctx
    if res.kind != 'return':
        return [tagged('ALL', 'no panic (%s)' % str(res.info)[:60], False)]
    if is_err(res.value):
        return []
    RU = Fields('actors/miner/src/lib.rs', 'ReplicaUpdateInner')
    tup = E.deref(res.value.fields[('Ok', 0)])
    br = E.deref(fget(E, tup, 0, 'BatchReturn'))
    fails = E.deref(fget(E, br, 1, 'Vec<FailCode>')).items
    failed = set()
    for f in fails:
        i = zv(E.deref(E.deref(f).fields[0]))
        if is_sym(i):
            raise Inconclusive('symbolic fail index')
        failed.add(int(i))
    ups, secs = env['ups'], env['secs']
    accepted = [i for i in range(len(ups)) if i not in failed]
    P = [tagged('C10,C02', 'the result accounts for every update', implied(ctx, zv(E.deref(fget(E, br, 0, 'u32'))) == len(accepted)))]
    for i in accepted:
        P.append(tagged('C10', "only a sector that holds no data at all - neither plain nor verified - takes a replica update (verified weight stays backed by the sector's own claims)",
                        z3.And(secs[i]['dw'] == 0, secs[i]['vw'] == 0)))
        P.append(tagged('C02,C10', 'an accepted update names a deadline of the proving period', zv(fget(E, ups[i], RU['deadline'], 'u64')) < 48))
        for j in accepted:
            if j < i:
                P.append(tagged('C10,C02', 'no sector is updated twice in one message', zv(fget(E, ups[i], RU['sector_number'], 'u64')) != zv(fget(E, ups[j], RU['sector_number'], 'u64'))))
    return P


def build_validate_updates(pid, tier):
    wrap = lambda f: (lambda E, res: for_property(pid, f(E, res)))
    O = []
    for n in ([1, 2] if tier == 'quick' else [1, 2, 3]):
        for aon in (False, True):
            if n == 3 and not aon:
                continue        # best effort with three updates is 47^3 paths: outside the bound
            O.append(Obligation('miner.validate_replica_updates[updates=%d, %s]' % (n, 'all or nothing' if aon else 'best effort'), run_validate_updates(n, aon), wrap(props_validate_updates),
                                descr='replica-update admission: only sectors without any data (plain or verified), each at most once per message, in a deadline of the proving period',
                                bounds='%d update(s); CUTS: sealed-cid prefix check, deadline_is_mutable, check_sector_active, registered_update_proof (arbitrary verdicts)' % n, max_paths=50000, wall_s=300))
    return O
