"""activate_new_sector_infos (the ledger step of ProveCommit): executed whole from MIR for n pre-commitments.
CUTS (declared): initial_pledge_for_power, daily_proof_fee -> arbitrary amounts >= 0 (recorded per sector);
State::put_sectors (captures the new sector infos), State::assign_sectors_to_deadlines -> Ok (sector tables: C04 area).
Clauses tagged C03 (pledge and deposit ledgers, pledge notification), C10 (weights = space x duration), C02 (no power
is credited at activation), C01 (solvency)."""
from .common import *
from .miner_common import *
from .miner_common import CRATES
from .miner_money import tagged, for_property, classify_sends, pledge_delta_of, install_bib_cut, bib_prop

MIN_SECTOR_EXPIRATION = 180 * 2880


def run_activate(n):
    def run(E):
        rt, rtref = new_rt(E)
        pre = mk_miner_state(E, 0)
        rt.state = pre['st']
        E.ctx.assume(rt.balance >= pre['pcd'] + pre['lf'] + pre['ip'])
        E.ctx.assume(z3.And(rt.epoch >= 0, rt.epoch < 2**40))
        env = E.ctx.env
        PC = Fields('actors/miner/src/types.rs', 'SectorPreCommitOnChainInfo')
        PI = Fields('actors/miner/src/types.rs', 'SectorPreCommitInfo')
        pcs, acts = [], []
        deps = []
        for i in range(n):
            info = StructV('types::SectorPreCommitInfo', {PI['sector_number']: E.materialize('u64', 'pc%d.number' % i), PI['expiration']: E.materialize('i64', 'pc%d.expiration' % i)}, lazy='pc%d.info' % i)
            E.ctx.assume(z3.And(info.fields[PI['expiration']].v >= 0, info.fields[PI['expiration']].v < 2**41))
            dep = z3.Int('pc%d.deposit' % i)
            E.ctx.assume(dep >= 0)
            deps.append(dep)
            pc = StructV('types::SectorPreCommitOnChainInfo', {PC['info']: info, PC['pre_commit_deposit']: BigV(dep), PC['pre_commit_epoch']: E.materialize('i64', 'pc%d.epoch' % i)})
            pcs.append(pc)
            us, vs = z3.Int('act%d.unverified_space' % i), z3.Int('act%d.verified_space' % i)
            E.ctx.assume(z3.And(us >= 0, vs >= 0, us + vs <= 64 << 30))
            acts.append((us, vs))
        # C03 invariant: the deposit total covers the deposits of the pre-commitments being proven
        E.ctx.assume(pre['pcd'] >= sum(deps))
        data = VecV([StructV('DataActivationOutput', {0: BigV(us), 1: BigV(vs), 2: VecV([], 'Vec<(Cid, u64)>')}) for (us, vs) in acts], 'Vec<DataActivationOutput>')
        pledges = env.setdefault('pledges', [])
        captured = env.setdefault('new_sectors', [])

        def cut_pledge(E2, c):
            v = z3.Int('initial_pledge%d' % len(pledges))
            E2.ctx.assume(v >= 0)
            pledges.append(v)
            return BigV(v)

        def cut_fee(E2, c):
            v = z3.Int(E2.ctx.fresh_name('daily_fee'))
            E2.ctx.assume(v >= 0)
            return BigV(v)

        def cut_put(E2, c):
            v = E2.deref(c.args[2])
            captured.extend([E2.deref(x) for x in v.items])
            return ok(UNIT, c.dest_ty)
        for pre_ in ('', 'monies::', 'policy::'):
            E.cuts[pre_ + 'initial_pledge_for_power'] = cut_pledge
            E.cuts[pre_ + 'daily_proof_fee'] = cut_fee
            # the sector's QA power only feeds the two cut formulas above (its own formula is decided in C02/C10)
            E.cuts[pre_ + 'qa_power_for_weight'] = lambda E2, c: BigV(z3.Int(E2.ctx.fresh_name('qa_power')))
        E.cuts['State::put_sectors'] = cut_put
        E.cuts['State::assign_sectors_to_deadlines'] = lambda E2, c: ok(UNIT, c.dest_ty)
        install_bib_cut(E)
        rt.send_hook = lambda E2, rt2, rec, nm: ('ok', None)
        env.update(dict(pcs=pcs, acts=acts, deps=deps, n=n))
        info = pre['info']
        pin = LazyV('pledge_inputs', 'NetworkPledgeInputs')
        fn = find_fn(E, MINER, 'activate_new_sector_infos')
        return E.run_function(fn, [rtref, VecV([RefV(Cell(p, 'pc'), ()) for p in pcs], 'Vec<&SectorPreCommitOnChainInfo>'), data, RefV(Cell(pin, 'pin'), ()), RefV(Cell(info, 'info'), ())]), rt
    return run


def props_activate(E, res):
    env = res.ctx.env
    rt, pre = env['rt'], env['pre']
    ctx = res.ctx
    if res.kind != 'return':
        return [tagged('ALL', 'no panic (%s)' % str(res.info)[:60], False)]
    if is_err(res.value):
        return [bib_prop(res), tagged('C03', 'a failed activation commits nothing', rt.commits == 0)]
    SO = Fields('actors/miner/src/types.rs', 'SectorOnChainInfo')
    PI = Fields('actors/miner/src/types.rs', 'SectorPreCommitInfo')
    led = ledgers(E, rt.state)
    pledges = env.get('pledges', [])
    total = sum(pledges) if pledges else 0
    deps = sum(env['deps']) if env['deps'] else 0
    new = env.get('new_sectors', [])
    P = [tagged('C03', 'one sector is recorded per proven pre-commitment', len(new) == env['n'] and len(pledges) == env['n'])]
    P.append(tagged('C03', "the initial-pledge total grows by exactly the sum of the new sectors' initial pledges", led['ip'] == pre['ip'] + total))
    P.append(tagged('C03', 'the pre-commit deposit total falls by exactly the deposits of the proven pre-commitments', led['pcd'] == pre['pcd'] - deps))
    rec = sum(big(E, fget(E, s, SO['initial_pledge'], TOKEN)) for s in new) if new else 0
    P.append(tagged('C03', "each sector records the pledge that was added for it", rec == total))
    burns, pledge, others = classify_sends(rt, ctx)
    sent = sum(pledge_delta_of(E, s) for s in pledge) if pledge else 0
    P.append(tagged('C03', 'the power actor is told exactly the new pledge', sent == total))
    P.append(tagged('C02', 'no power is credited at activation (power starts with the first Window PoSt)', all(implied(ctx, zv(s.method) != 3) for s in rt.sends)))
    P.append(tagged('C01', 'no value leaves the miner at activation', all(implied(ctx, s.value == 0) for s in rt.sends)))
    P.append(tagged('C01', 'miner stays solvent: balance covers deposits + vesting + pledge', solvency(rt, led)))
    for i, s in enumerate(new):
        exp = fget(E, env['pcs'][i], 0, 'SectorPreCommitInfo')
        expiration = fget(E, E.deref(exp), PI['expiration'], 'i64').v
        dur = expiration - rt.epoch
        us, vs = env['acts'][i]
        P.append(tagged('C10', 'verified weight = verified space x sector duration; unverified likewise',
                        z3.And(big(E, fget(E, s, SO['verified_deal_weight'], 'BigInt')) == vs * dur, big(E, fget(E, s, SO['deal_weight'], 'BigInt')) == us * dur)))
        P.append(tagged('C10,C02', 'the sector is activated now, for at least the minimum lifetime, with its power base at activation',
                        z3.And(fget(E, s, SO['activation'], 'i64').v == rt.epoch, fget(E, s, SO['power_base_epoch'], 'i64').v == rt.epoch,
                               fget(E, s, SO['expiration'], 'i64').v == expiration, dur >= MIN_SECTOR_EXPIRATION)))
    return P


def build_for(pid, tier):
    wrap = lambda f: (lambda E, res: for_property(pid, f(E, res)))
    return [Obligation('miner.activate_new_sector_infos[sectors=%d]' % n, run_activate(n), wrap(props_activate),
                       descr='prove-commit ledger step: pledge total += sum of the new sector pledges, deposits released exactly, power actor told exactly the new pledge, no power credited yet, weights = space x duration',
                       bounds='%d pre-commitment(s); CUTS: initial_pledge_for_power / daily_proof_fee / qa_power_for_weight (arbitrary amounts), put_sectors (captured), assign_sectors_to_deadlines' % n, max_paths=100000)
            for n in ([1, 2] if tier == 'quick' else [1, 2, 3])]


# ---- prove_commit_sectors_ni (non-interactive PoRep): the whole method ----------------------------------------------------------
# CUTS (declared): validate_seal_aggregate_proof / verify_aggregate_seal (proof checks: pass), deadline_is_mutable /
# consensus_fault_active / can_prove_commit_ni_seal_proof (arbitrary verdicts), the aggregate-proof-type comparison (arbitrary),
# validate_ni_sectors (all n sectors valid), raw_power_for_sector, initial_pledge_for_power, daily_proof_fee (arbitrary amounts >= 0),
# network queries (typed answers), allocate_sector_numbers / put_sectors (captured) / assign_sectors_to_deadline (sector tables),
# State::deadline_info (contract of the clock obligation).

def run_prove_ni(n):
    def run(E):
        from . import C13
        from .miner_cron import _pp
        rt, rtref = new_rt(E)
        pre = mk_miner_state(E, 0)
        rt.state = pre['st']
        E.ctx.assume(rt.balance >= pre['pcd'] + pre['lf'] + pre['ip'])
        E.ctx.assume(z3.And(rt.epoch >= 0, rt.epoch < 2**40))
        E.ctx.assume(z3.Not(C13.bz(C13.view(E, pre['info'])['pw_some'])))
        env = E.ctx.env
        env['balance0'] = rt.balance
        env['n'] = n
        ST = SF()
        env['cron_active0'] = fget(E, pre['st'], ST['deadline_cron_active'], 'bool')
        okc = lambda E2, c: ok(UNIT, c.dest_ty)
        E.cuts['validate_seal_aggregate_proof'] = okc
        E.cuts['verify_aggregate_seal'] = okc
        verdicts = env.setdefault('verdicts', {})

        def mkb(nm):
            def cut(E2, c):
                b = E2.ctx.fresh_bool(nm)
                verdicts[nm] = b
                return b
            return cut
        for pre_ in ('', 'deadlines::', 'policy::'):
            E.cuts[pre_ + 'deadline_is_mutable'] = mkb('deadline_mutable')
            E.cuts[pre_ + 'can_prove_commit_ni_seal_proof'] = mkb('ni_proof_type_allowed')
        E.cuts['consensus_fault_active'] = mkb('consensus_fault_active')
        E.cuts['State::current_proving_period_start'] = lambda E2, c: E2.materialize('i64', E2.ctx.fresh_name('period_start'))
        E.cuts['<RegisteredAggregateProof as PartialEq>::ne'] = mkb('aggregate_type_wrong')
        NI = Fields('actors/miner/src/types.rs', 'SectorNIActivationInfo')
        secs = [StructV('types::SectorNIActivationInfo', {}, lazy='ni%d' % i) for i in range(n)]

        def cut_validate(E2, c):
            br = StructV('BatchReturn', {0: IntV(n, 'u32'), 1: VecV([], 'Vec<FailCode>')})
            return ok(StructV('tuple', {0: br, 1: VecV([], 'Vec<SectorSealProofInput>'), 2: models_fvm.BitFieldV('ni_sector_numbers')}), c.dest_ty)
        E.cuts['validate_ni_sectors'] = cut_validate
        PW = Fields('actors/miner/src/ext.rs', 'CurrentTotalPowerReturn')

        def cut_pow(E2, c):
            rs = E2.materialize('i64', E2.ctx.fresh_name('pow.ramp_start_epoch'))
            E2.ctx.assume(z3.And(rs.v > -2**40, rs.v < 2**40))       # environment contract: epochs reported by the power actor are chain epochs
            return ok(StructV('ext::power::CurrentTotalPowerReturn', {PW['ramp_start_epoch']: rs}, lazy=E2.ctx.fresh_name('pow')), c.dest_ty)
        E.cuts['request_current_total_power'] = cut_pow
        E.cuts['request_current_epoch_block_reward'] = lambda E2, c: ok(LazyV(E2.ctx.fresh_name('rew'), 'ext::reward::ThisEpochRewardReturn'), c.dest_ty)
        pledge = z3.Int('sector_initial_pledge')
        E.ctx.assume(pledge >= 0)
        env['pledge'] = pledge
        for pre_ in ('', 'monies::', 'policy::'):
            E.cuts[pre_ + 'initial_pledge_for_power'] = lambda E2, c: BigV(pledge)
            E.cuts[pre_ + 'daily_proof_fee'] = lambda E2, c: BigV(z3.Int('daily_fee'))
            E.cuts[pre_ + 'raw_power_for_sector'] = lambda E2, c: BigV(z3.Int('raw_power'))
        E.ctx.assume(z3.Int('daily_fee') >= 0)
        E.cuts['State::allocate_sector_numbers'] = okc
        captured = env.setdefault('new_sectors', [])

        def cut_put(E2, c):
            captured.extend([E2.deref(x) for x in E2.deref(c.args[2]).items])
            return ok(UNIT, c.dest_ty)
        E.cuts['State::put_sectors'] = cut_put
        E.cuts['State::assign_sectors_to_deadline'] = okc
        DI = Fields('actors/miner/src/deadline_info.rs', 'DeadlineInfo')

        def cut_di(E2, c):
            idx, op = z3.Int('clock.window'), z3.Int('clock.open')
            E2.ctx.assume(z3.And(idx >= 0, idx < 48, op <= rt.epoch, rt.epoch < op + 60, op > -2**41))
            I = lambda v, ty='i64': IntV(v, ty)
            env['di_open'] = op
            return StructV('deadline_info::DeadlineInfo', {DI['current_epoch']: I(rt.epoch), DI['period_start']: I(op - 60 * idx), DI['index']: I(idx, 'u64'), DI['open']: I(op),
                                                           DI['close']: I(op + 60), DI['challenge']: I(op - 20), DI['fault_cutoff']: I(op - 70),
                                                           DI['w_post_period_deadlines']: I(48, 'u64'), DI['w_post_proving_period']: I(2880), DI['w_post_challenge_window']: I(60),
                                                           DI['w_post_challenge_lookback']: I(20), DI['fault_declaration_cutoff']: I(70)})
        E.cuts['State::deadline_info'] = cut_di
        install_bib_cut(E)
        rt.send_hook = lambda E2, rt2, rec, nm: ('ok', None)
        PP = Fields('actors/miner/src/types.rs', 'ProveCommitSectorsNIParams')
        pdl = E.materialize('u64', 'params.proving_deadline')
        params = StructV('types::ProveCommitSectorsNIParams', {PP['sectors']: VecV(secs, 'Vec<SectorNIActivationInfo>'), PP['proving_deadline']: pdl}, lazy='params')
        env['pdl'] = pdl.v
        fn = find_fn(E, MINER, 'prove_commit_sectors_ni')
        return E.run_function(fn, [rtref, params]), rt
    return run


def props_prove_ni(E, res):
    from .miner_cron import POWER, ENROLL_CRON, UPDATE_CLAIMED_POWER
    env = res.ctx.env
    rt, pre = env['rt'], env['pre']
    ctx = res.ctx
    ST = SF()
    if res.kind != 'return':
        return [tagged('ALL', 'no panic (%s)' % str(res.info)[:60], False)]
    if is_err(res.value):
        return [bib_prop(res), tagged('C03', 'a refused NI prove-commit commits nothing', rt.commits == 0)]
    n, pledge = env['n'], env['pledge']
    SO = Fields('actors/miner/src/types.rs', 'SectorOnChainInfo')
    led = ledgers(E, rt.state)
    new = env.get('new_sectors', [])
    v = env.get('verdicts', {})
    P = [tagged('C03', 'one sector is recorded per valid activation', len(new) == n),
         tagged('C03,C01', "the initial-pledge total grows by exactly the sum of the new sectors' initial pledges", led['ip'] == pre['ip'] + n * pledge),
         tagged('C03', 'each sector records the pledge that was locked for it', z3.And(*[big(E, fget(E, s, SO['initial_pledge'], TOKEN)) == pledge for s in new]) if new else z3.BoolVal(False)),
         tagged('C03', 'deposits and vesting funds are untouched; the fee debt is repaid in full', z3.And(led['pcd'] == pre['pcd'], led['lf'] == pre['lf'], led['fd'] == 0)),
         tagged('C03,C01', 'the whole new pledge is covered by unlocked balance', env['balance0'] - pre['pcd'] - pre['lf'] - pre['ip'] >= n * pledge)]
    burns, pl, others = classify_sends(rt, ctx)
    sent = sum(pledge_delta_of(E, s) for s in pl) if pl else 0
    P.append(tagged('C03', 'the power actor is told exactly the new pledge', sent == n * pledge))
    P.append(tagged('C15,C01', 'the fee debt is burnt', (sum(s.value for s in burns) if burns else 0) == pre['fd']))
    P.append(tagged('C02', 'no power is credited at activation (power starts with the first Window PoSt)', all(implied(ctx, b_not(b_and(s.to.key == POWER, zv(s.method) == UPDATE_CLAIMED_POWER))) for s in rt.sends)))
    P.append(tagged('C01', 'miner stays solvent: balance covers deposits + vesting + pledge', solvency(rt, led)))
    P.append(tagged('C02,C05', 'sectors are committed only into a deadline of the proving period that is not being proven, outside a consensus-fault period, with an allowed NI proof type',
                    z3.And(env['pdl'] < 48, v.get('deadline_mutable', z3.BoolVal(False)), z3.Not(v.get('consensus_fault_active', z3.BoolVal(True))), v.get('ni_proof_type_allowed', z3.BoolVal(False)))))
    for s in new:
        P.append(tagged('C10,C02', 'a new NI sector carries no deal weight and is activated now', z3.And(big(E, fget(E, s, SO['deal_weight'], 'BigInt')) == 0, big(E, fget(E, s, SO['verified_deal_weight'], 'BigInt')) == 0,
                                                                                                         fget(E, s, SO['activation'], 'i64').v == rt.epoch, fget(E, s, SO['power_base_epoch'], 'i64').v == rt.epoch)))
    # C05: the proving-deadline cron is running afterwards: flag set, and enrolled now iff it was not running
    enrol = [s for s in rt.sends if implied(ctx, b_and(s.to.key == POWER, zv(s.method) == ENROLL_CRON))]
    a0 = env['cron_active0']
    a0 = a0 if is_sym(a0) else z3.BoolVal(bool(a0))
    a1 = fget(E, rt.state, ST['deadline_cron_active'], 'bool')
    P.append(tagged('C05', 'the miner is on the cron schedule afterwards: flag set, callback enrolled exactly when none was running', z3.And(a1 if is_sym(a1) else z3.BoolVal(bool(a1)), a0 == z3.BoolVal(len(enrol) == 0), z3.BoolVal(len(enrol) <= 1))))
    for s in enrol:
        obj = s.params.obj if isinstance(s.params, BlockV) else None
        if obj is not None and 'di_open' in env:
            P.append(tagged('C05', 'the first callback is for the last epoch of the current deadline', fget(E, obj, 0, 'i64').v == env['di_open'] + 59))
    return P


def build_prove_ni(pid, tier):
    wrap = lambda f: (lambda E, res: for_property(pid, f(E, res)))
    return [Obligation('miner.prove_commit_sectors_ni[sectors=%d]' % n, run_prove_ni(n), wrap(props_prove_ni),
                       descr='NI prove-commit: pledge total += n x sector pledge (each sector records it, the power actor is told it, unlocked balance covers it), fee debt repaid and burnt, no power credited, cron enrolled iff not running',
                       bounds='%d valid sector(s); CUTS: proof checks, admission verdicts, validate_ni_sectors (all valid), pledge / fee / power formulas (arbitrary amounts), sector tables, deadline clock; sends succeed' % n, max_paths=100000, wall_s=300)
            for n in ([1, 2] if tier == 'quick' else [1, 2, 3])]
