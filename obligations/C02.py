"""C02 — power is credited exactly ... (POWER-ACTOR CLAUSE ONLY, see DESIGN.md §2 C02 / §3).

Inductive step of 'network totals = sum of per-miner claims under the consensus-minimum rule': update_claimed_power
(whole method, state.add_to_claim) moves the totals by exactly the change of the caller's contribution
contrib(c) = (c.raw, c.qa) if c.raw >= consensus minimum else (0, 0); create_miner initialises an empty claim.
The miner-side half (which sectors count) lives in partition/deadline state and is outside reach (C04)."""
from .common import *
from .models_imports import mk_enum

PROPERTY = 'C02'
CRATES = ['fil_actors_runtime', 'fil_actor_power']
PW = 'fil_actor_power'
MINP = 10 << 40      # policy.minimum_consensus_power = 10 TiB


def setup_power(E, rt):
    PS = Fields('actors/power/src/state.rs', 'State')
    st = StructV('State', {}, lazy='st')
    g = lambda n, t='BigInt': fget(E, st, PS[n], t).v
    pre = dict(st=st, tot_raw=g('total_raw_byte_power'), tot_qa=g('total_quality_adj_power'),
               bytes=g('total_bytes_committed'), qabytes=g('total_qa_bytes_committed'),
               above=g('miner_above_min_power_count', 'i64'), mc=g('miner_count', 'i64'))
    E.ctx.assume(z3.And(pre['tot_raw'] >= 0, pre['tot_qa'] >= 0, pre['above'] >= 0, pre['above'] <= pre['mc'], pre['mc'] < 2**40))
    claims_base = 'map(st.%d)' % PS['claims']
    pre['claims_base'] = claims_base
    seen = []

    def hook(E2, m, kt, val):
        if m.base != claims_base:
            return None
        CL = Fields('actors/power/src/state.rs', 'Claim')
        raw = z3.Int('%s.raw' % val.name)
        qa = z3.Int('%s.qa' % val.name)
        E2.ctx.assume(z3.And(raw >= 0, qa >= 0))
        seen.append((raw, qa))
        E2.ctx.assume(z3.And(pre['tot_raw'] >= sum(z3.If(r >= MINP, r, 0) for r, q in seen),
                             pre['tot_qa'] >= sum(z3.If(r >= MINP, q, 0) for r, q in seen),
                             pre['above'] >= sum(z3.If(r >= MINP, 1, 0) for r, q in seen), pre['mc'] >= len(seen)))
        pre['claim0'] = (raw, qa)
        return StructV('state::Claim', {CL['window_post_proof_type']: mk_enum('RegisteredPoStProof', 'RegisteredPoStProof', 'StackedDRGWindow32GiBV1P1'),
                                        CL['raw_byte_power']: BigV(raw), CL['quality_adj_power']: BigV(qa)})
    E.ctx.env['map_value_hook'] = hook
    E.ctx.env['pre'] = pre
    rt.state = st
    return pre


def run_update(E):
    rt, rtref = new_rt(E)
    setup_power(E, rt)
    params = LazyV('params', 'types::UpdateClaimedPowerParams')
    E.ctx.env['params'] = params
    fn = find_fn(E, PW, 'update_claimed_power')
    return E.run_function(fn, [rtref, params]), rt


def props_update(E, res):
    env = res.ctx.env
    rt, pre = env['rt'], env['pre']
    ctx = res.ctx
    if res.kind != 'return':
        return [('no panic (%s)' % str(res.info)[:60], False)]
    if is_err(res.value):
        return [('rejected power update commits nothing', rt.commits == 0)]
    PS = Fields('actors/power/src/state.rs', 'State')
    CL = Fields('actors/power/src/state.rs', 'Claim')
    st1 = rt.state
    g = lambda n, t='BigInt': fget(E, st1, PS[n], t).v
    draw = fget(E, env['params'], 0, 'BigInt').v
    dqa = fget(E, env['params'], 1, 'BigInt').v
    P = [('only miner actors report power', rt.caller_type == ACTOR_TYPES['Miner']),
         ('the caller had a claim', 'claim0' in pre)]
    if 'claim0' not in pre:
        return P
    raw0, qa0 = pre['claim0']
    raw1, qa1 = raw0 + draw, qa0 + dqa
    c = lambda r, v: z3.If(r >= MINP, v, 0)
    P += [('claims never go negative', z3.And(raw1 >= 0, qa1 >= 0)),
          ('network raw power moves by the change of the contribution under the consensus-minimum rule', g('total_raw_byte_power') - pre['tot_raw'] == c(raw1, raw1) - c(raw0, raw0)),
          ('network QA power moves by the change of the contribution under the consensus-minimum rule', g('total_quality_adj_power') - pre['tot_qa'] == c(raw1, qa1) - c(raw0, qa0)),
          ('above-minimum miner count follows the threshold crossing', g('miner_above_min_power_count', 'i64') - pre['above'] == c(raw1, 1) - c(raw0, 1)),
          ('committed bytes move by the raw delta', g('total_bytes_committed') == pre['bytes'] + draw),
          ('committed QA bytes move by the QA delta', g('total_qa_bytes_committed') == pre['qabytes'] + dqa),
          ('miner count untouched', g('miner_count', 'i64') == pre['mc'])]
    ccid = fget(E, st1, PS['claims'], CID)
    cm = heap_get(E, ccid) if isinstance(ccid, CidV) else None
    P.append(('claims table written', isinstance(cm, MapM)))
    if isinstance(cm, MapM):
        kt = ('addr', rt.caller.proto, rt.caller.key)
        p, v = final_lookup(E, cm, kt)
        P.append(("the caller's claim is kept", p is True))
        if p:
            P.append(("the caller's claim = old claim + delta", z3.And(big(E, fget(E, v, CL['raw_byte_power'], 'BigInt')) == raw1,
                                                                     big(E, fget(E, v, CL['quality_adj_power'], 'BigInt')) == qa1)))
        for (k, pres, val, _) in cm.over:
            P.append(("only the caller's claim is written", key_eq(k, kt)))
    return P


def run_current_total(E):
    rt, rtref = new_rt(E)
    pre = setup_power(E, rt)
    fn = find_fn(E, PW, 'current_total_power', 'state.rs')
    r = E.run_function(fn, [RefV(Cell(pre['st'], 'st'), ())])
    return r, rt


def props_current_total(E, res):
    env = res.ctx.env
    pre = env['pre']
    if res.kind != 'return':
        return [('no panic (%s)' % str(res.info)[:60], False)]
    PS = Fields('actors/power/src/state.rs', 'State')
    raw, qa = big(E, res.value.fields[0]), big(E, res.value.fields[1])
    small = pre['above'] < 4        # policy.consensus_miner_min_miners
    return [('below the minimum number of large miners every byte counts, otherwise only miners above the consensus minimum',
             z3.And(raw == z3.If(small, pre['bytes'], pre['tot_raw']), qa == z3.If(small, pre['qabytes'], pre['tot_qa'])))]


def build(tier):
    return [Obligation('power.update_claimed_power', run_update, props_update,
                       descr='totals move by exactly the change of the caller\'s contribution under the consensus-minimum rule; only miners; only the caller\'s claim written',
                       bounds='one call; claims map symbolic under the power-state invariant; deltas unbounded (either sign)', max_paths=20000),
            Obligation('power.State::current_total_power', run_current_total, props_current_total,
                       descr='reported network power: all committed bytes while fewer than 4 miners are above the minimum, else the above-minimum totals',
                       bounds='all state symbolic', max_paths=100, expect_ok=False)]
