#!/usr/bin/env python3
"""Runner for the Kani harness crate /verif/kani.

    python3 /verif/kani/run.py --property C17 --tier quick|thorough [--jobs N] [--json out.json]
                               [--harness NAME ...] [--no-cex] [--list] [--mem-gb G]

What it does
 1. The shim modules (opcode table, EVM_* constants, scaled stack, cut-down Policy + deadline
    functions, the runtime-free helpers of instructions/memory.rs) are regenerated from the CURRENT /repo working tree by the crate's build.rs;
    cargo re-runs it whenever one of the /repo files it reads has changed.  The real sources
    are `#[path]`-included, so every run compiles against the current /repo files.
 2. ONE `cargo kani` invocation builds the crate (only the cargo feature(s) = module(s) of the
    selected properties, only the selected harnesses are code-generated) into
    /verif/.cache/kani_target and verifies the harnesses of harnesses.json registered for
    (property, tier) with `-j <jobs>`; results are taken from Kani's `--export-json`.
    If the crate does not compile against /repo: every harness -> "build_error", exit 2.
    Harnesses for which the batch produced no result (e.g. the driver aborted) are re-run one
    by one as separate `cargo kani --harness <path> --exact` processes.
    Everything runs under an address-space limit (default 12 GB per process) and a per-harness
    timeout (`--harness-timeout`, the largest timeout_s of the selected harnesses).
 3. Classification: success | failed | inconclusive(timeout|oom|unwinding|vacuous|error) |
    build_error.  success = Kani status Success AND every kani::cover! witness SATISFIED
    (an unsatisfiable / unreachable witness means the harness is vacuous -> inconclusive).
    A harness whose only failed checks are unwinding assertions is inconclusive(unwinding).
 4. Each `failed` harness is re-run with `-Z concrete-playback --concrete-playback=print`; the
    generated unit test is stored in /verif/.cache/kani_cex/<harness>.rs and replayed natively
    with `cargo kani playback` in a scratch copy of the crate under /verif/.cache
    (replay = reproduced | not_reproduced | printed).
 5. One JSON document is printed (and written to --json).

Exit code: 0 = all success; 1 = at least one `failed` harness whose counterexample was
produced; 2 = otherwise (any inconclusive / build_error, or failed without counterexample).
Only the python3 standard library is used.
"""
import argparse
import glob
import json
import os
import re
import resource
import shutil
import signal
import subprocess
import sys
import threading
import time

HERE = os.path.dirname(os.path.abspath(__file__))
CACHE = os.path.join(os.path.dirname(HERE), ".cache")
TARGET = os.path.join(CACHE, "kani_target")
LOGS = os.path.join(CACHE, "kani_logs")
CEX = os.path.join(CACHE, "kani_cex")
PLAYBACK = os.path.join(CACHE, "kani_playback")
PLAYBACK_TARGET = os.path.join(CACHE, "kani_playback_target")
REPO = "/repo"
MEM_LIMIT_GB_DEFAULT = 12

ENV = dict(os.environ)
ENV["CARGO_NET_OFFLINE"] = "true"  # the sandbox has no network; cargo kani rejects --offline
ENV.pop("CARGO_TARGET_DIR", None)

FEATURES = []  # set in main(): one cargo feature per selected property

# Kani adds, for every assertion, a second "reachability" property and CBMC decides every
# property with its own incremental SAT call; on the pointer-heavy stack harnesses this is
# the dominating cost (measured on c17_swap_13_16: 1534 s with, 43 s without).  Vacuity is
# instead guarded by the explicit kani::cover! witnesses every harness carries (all must be
# SATISFIED), therefore the reach checks are switched off for all harnesses.
DEFAULT_KANI_ARGS = ["-Z", "unstable-options", "--no-assertion-reach-checks"]


def sh(cmd, **kw):
    return subprocess.run(cmd, stdout=subprocess.PIPE, stderr=subprocess.STDOUT, text=True, env=ENV, **kw)


def versions():
    v = {}
    try:
        out = sh(["cargo", "kani", "--version"]).stdout.strip().splitlines()
        v["kani"] = out[0] if out else "unknown"
    except Exception as e:  # noqa
        v["kani"] = "unknown: %s" % e
    cbmc = shutil.which("cbmc")
    if not cbmc:
        c = sorted(glob.glob(os.path.expanduser("~/.kani/kani-*/bin/cbmc")))
        cbmc = c[-1] if c else None
    try:
        v["cbmc"] = sh([cbmc, "--version"]).stdout.strip() if cbmc else "not found"
    except Exception as e:  # noqa
        v["cbmc"] = "unknown: %s" % e
    try:
        v["repo_head"] = sh(["git", "-C", REPO, "rev-parse", "HEAD"]).stdout.strip()
        st = sh(["git", "-C", REPO, "status", "--porcelain", "--untracked-files=no"]).stdout.splitlines()
        v["repo_modified_files"] = [l[3:] for l in st][:50]
    except Exception:
        pass
    return v


def base_cmd():
    cmd = ["cargo", "kani", "--target-dir", TARGET]
    if FEATURES:
        cmd += ["--features", ",".join(FEATURES)]
    return cmd


def harness_cmd(h, extra=()):
    """Command line that verifies exactly one harness (also what a user would type)."""
    cmd = base_cmd() + ["--harness", h["path"], "--exact", "--output-format", "terse"]
    cmd += DEFAULT_KANI_ARGS + ["--harness-timeout", "%ds" % h.get("timeout_s", 300)]
    cmd += list(h.get("kani_args", []))
    cmd += list(extra)
    return cmd


def batch_cmd(hs, jobs, export):
    cmd = base_cmd()
    for h in hs:
        cmd += ["--harness", h["path"]]
    tmax = max(h.get("timeout_s", 300) for h in hs)
    cmd += ["--exact", "-j", str(jobs), "--output-format", "terse"]
    cmd += DEFAULT_KANI_ARGS + ["--harness-timeout", "%ds" % tmax, "--export-json", export]
    return cmd, tmax


class RssSampler(threading.Thread):
    """Peak resident set of the cbmc process of each harness, sampled from /proc once a second
    (the goto-binary named on cbmc's command line carries the mangled harness name)."""

    def __init__(self, names):
        super().__init__(daemon=True)
        self.pats = {n: re.compile(r"\d+%s\.(?:out|symtab)" % re.escape(n)) for n in names}
        self.peak = {}
        self.stop = threading.Event()

    def run(self):
        while not self.stop.wait(1.0):
            for d in os.listdir("/proc"):
                if not d.isdigit():
                    continue
                try:
                    with open("/proc/%s/comm" % d) as f:
                        if f.read().strip() != "cbmc":
                            continue
                    with open("/proc/%s/cmdline" % d, "rb") as f:
                        cl = f.read().replace(b"\0", b" ").decode(errors="replace")
                    if TARGET not in cl:
                        continue
                    hwm = 0
                    with open("/proc/%s/status" % d) as f:
                        for l in f:
                            if l.startswith("VmHWM:"):
                                hwm = int(l.split()[1]) / 1024.0
                    for n, p in self.pats.items():
                        if p.search(cl):
                            if hwm > self.peak.get(n, 0):
                                self.peak[n] = round(hwm, 1)
                            break
                except (OSError, ValueError):
                    continue


def run_limited(cmd, log_path, timeout_s, mem_gb, cwd=HERE, env=None):
    """Run cmd in its own process group under RLIMIT_AS; -> (rc | None on timeout, wall_s)."""
    def pre():
        os.setsid()
        if mem_gb:
            lim = int(mem_gb * (1 << 30))
            resource.setrlimit(resource.RLIMIT_AS, (lim, lim))
    t0 = time.time()
    with open(log_path, "w") as log:
        log.write("$ " + " ".join(cmd) + "\n")
        log.flush()
        p = subprocess.Popen(cmd, stdout=log, stderr=subprocess.STDOUT, cwd=cwd, env=env or ENV, preexec_fn=pre)
        timed_out = []

        def kill():
            timed_out.append(True)
            try:
                os.killpg(p.pid, signal.SIGKILL)
            except ProcessLookupError:
                pass
        timer = threading.Timer(timeout_s, kill)
        timer.start()
        try:
            rc = p.wait()
        finally:
            timer.cancel()
        try:  # nothing of the group may survive (cbmc children of a killed driver)
            os.killpg(p.pid, signal.SIGKILL)
        except (ProcessLookupError, PermissionError):
            pass
    return (None if timed_out else rc), time.time() - t0


OOM_RE = re.compile(r"bad_alloc|out of memory|memory exhausted|cannot allocate memory", re.I)
BUILD_ERR_RE = re.compile(
    r"error: could not compile|error: failed to run custom build command|Failed to compile"
    r"|error: failed to (?:select|load|parse|get)|error: no matching package", re.I)


def base_result(h):
    return {
        "name": h["name"], "property": h["property"], "status": None, "detail": "",
        "wall_s": None, "verification_s": None, "peak_rss_mb": None,
        "cover_satisfied": 0, "cover_total": 0, "cover_ok": False, "failed_checks": [],
        "command": " ".join(harness_cmd(h)), "log": None,
        "unwind": h.get("unwind"), "timeout_s": h.get("timeout_s"),
        "functions": h.get("functions"), "oracle": h.get("oracle"),
        "bounds": h.get("bounds"), "outside_claim": h.get("outside_claim"),
    }


def finish_classification(res, kstatus, exit_status, failed, cs, ct, text):
    """Common decision table.  kstatus: 'Success' | 'Failure'."""
    res["cover_satisfied"], res["cover_total"], res["cover_ok"] = cs, ct, (ct > 0 and cs == ct)
    res["failed_checks"] = failed
    real = [f for f in failed if "unwinding assertion" not in f]
    if kstatus == "Success":
        if ct == 0:
            res["status"], res["detail"] = "inconclusive", "vacuous (no cover witness reported)"
        elif cs < ct:
            res["status"], res["detail"] = "inconclusive", "vacuous (%d of %d cover witnesses not satisfied)" % (ct - cs, ct)
        else:
            res["status"] = "success"
    elif real:
        res["status"] = "failed"
    elif failed:
        res["status"], res["detail"] = "inconclusive", "unwinding"
    elif exit_status == "timeout":
        res["status"], res["detail"] = "inconclusive", "timeout"
    elif OOM_RE.search(text or ""):
        res["status"], res["detail"] = "inconclusive", "oom"
    else:
        res["status"], res["detail"] = "inconclusive", "error" + (" (%s)" % exit_status if exit_status else "")
    return res


def thread_sections(text):
    """Terse -j output: 'Thread N: Checking harness <path>...' then later 'Thread N: \\n<result>'.
    -> {harness path: result text}."""
    cur, out = {}, {}
    blocks = re.split(r"^Thread (\d+): ?", text, flags=re.M)
    # blocks = [prefix, tid, body, tid, body, ...]
    for i in range(1, len(blocks) - 1, 2):
        tid, body = blocks[i], blocks[i + 1]
        m = re.match(r"Checking harness (\S+?)\.\.\.", body)
        if m:
            cur[tid] = m.group(1)
            body = body[m.end():]
        if tid in cur and body.strip():
            out[cur[tid]] = out.get(cur[tid], "") + body
    return out


def results_from_export(export, hs, text):
    """-> {name: result} for every harness that has an entry in Kani's JSON export."""
    out = {}
    try:
        d = json.load(open(export))
    except (OSError, ValueError):
        return out
    bypath = {h["path"]: h for h in hs}
    errs = {e.get("harness_id"): e for e in d.get("error_details", [])}
    stats = {e.get("harness_id"): e.get("cbmc_stats") for e in d.get("cbmc", [])}
    sections = thread_sections(text)
    for r in d.get("verification_results", {}).get("results", []):
        hid = r.get("harness_id")
        h = bypath.get(hid)
        if not h:
            continue
        res = base_result(h)
        res["verification_s"] = round(r.get("duration_ms", 0) / 1000.0, 1)
        failed, cs, ct = [], 0, 0
        for c in r.get("checks", []):
            st, cat = c.get("status"), c.get("category")
            loc = c.get("location", {})
            where = "%s:%s in %s" % (loc.get("file"), loc.get("line"), c.get("function"))
            if cat == "cover":
                ct += 1
                if st == "Satisfied":
                    cs += 1
                else:
                    res.setdefault("cover_unsatisfied", []).append("%s [%s] (%s)" % (c.get("description"), st, where))
            elif st == "Failure":
                d2 = c.get("description", "")
                if cat == "unwind" and "unwinding assertion" not in d2:
                    d2 = "unwinding assertion " + d2
                failed.append("%s  [%s]" % (d2, where))
        e = errs.get(hid, {})
        res["cbmc_stats"] = stats.get(hid)
        finish_classification(res, r.get("status"), e.get("exit_status") if e.get("has_errors") else None,
                              failed, cs, ct, sections.get(hid, ""))
        out[h["name"]] = res
    return out


FAILED_RE = re.compile(r"^Failed Checks: (.*)$")
COVER_RE = re.compile(r"\*\* (\d+) of (\d+) cover properties satisfied")


def result_from_text(h, text, rc):
    """Fallback classification from the terse text output of a single-harness run."""
    res = base_result(h)
    failed = []
    lines = text.splitlines()
    for i, l in enumerate(lines):
        m = FAILED_RE.match(l.strip())
        if m:
            loc = lines[i + 1].strip() if i + 1 < len(lines) and lines[i + 1].strip().startswith("File:") else ""
            failed.append((m.group(1) + ("  [" + loc + "]" if loc else "")).strip())
    cov = COVER_RE.search(text)
    cs, ct = (int(cov.group(1)), int(cov.group(2))) if cov else (0, 0)
    m = re.search(r"Verification Time: ([0-9.]+)s", text)
    if m:
        res["verification_s"] = round(float(m.group(1)), 1)
    if rc is None or "CBMC timed out" in text:
        return finish_classification(res, "Failure", "timeout", [], cs, ct, text)
    if "VERIFICATION:- SUCCESSFUL" in text:
        return finish_classification(res, "Success", None, failed, cs, ct, text)
    if "VERIFICATION:- FAILED" in text:
        return finish_classification(res, "Failure", None, failed, cs, ct, text)
    if BUILD_ERR_RE.search(text):
        res["status"], res["detail"] = "build_error", "crate does not compile"
        return res
    return finish_classification(res, "Failure", "no verification result", [], cs, ct, text)


def run_single(h, mem_gb):
    cmd = harness_cmd(h)
    log = os.path.join(LOGS, h["name"] + ".log")
    sampler = RssSampler([h["name"]])
    sampler.start()
    rc, wall = run_limited(cmd, log, h.get("timeout_s", 300) + 900, mem_gb)
    sampler.stop.set()
    text = open(log, errors="replace").read()
    res = result_from_text(h, text, rc)
    res["wall_s"] = round(wall, 1)
    res["peak_rss_mb"] = sampler.peak.get(h["name"])
    res["log"] = log
    res["mode"] = "single"
    return res


def extract_playback_test(text):
    """The unit test Kani prints between ``` fences after 'Concrete playback unit test for'."""
    m = re.search(r"Concrete playback unit test for `[^`]*`:\s*```\s*\n(.*?)```", text, re.S)
    if not m:
        return None
    ls = m.group(1).splitlines()
    margin = min((len(l) - len(l.lstrip()) for l in ls if l.strip()), default=0)
    return "\n".join(l[margin:] for l in ls) + "\n"


def produce_cex(h, mem_gb):
    """Re-run a failed harness with concrete playback; store + try to replay the unit test."""
    out = {"cex_file": None, "replay": "none"}
    os.makedirs(CEX, exist_ok=True)
    cmd = harness_cmd(h, ["-Z", "concrete-playback", "--concrete-playback=print"])
    out["cex_command"] = " ".join(cmd)
    log = os.path.join(LOGS, h["name"] + ".cex.log")
    run_limited(cmd, log, h.get("timeout_s", 300) * 2 + 900, mem_gb)
    text = open(log, errors="replace").read()
    test = extract_playback_test(text)
    if not test:
        out["replay"] = "no_counterexample_printed"
        out["cex_log"] = log
        return out
    path = os.path.join(CEX, h["name"] + ".rs")
    header = ("// Counterexample for Kani harness %s (property %s)\n// produced by: %s\n"
              "// To replay by hand: append to /verif/kani/src/%s and run\n"
              "//   cargo kani playback -Z concrete-playback --features %s -- <fn name below>\n"
              % (h["path"], h["property"], " ".join(cmd), h["file"], h["property"].lower()))
    with open(path, "w") as f:
        f.write(header + test)
    out["cex_file"] = path
    out["replay"] = "printed"
    # kani annotates every concrete byte vector with the value it encodes, in kani::any() order
    out["cex_values"] = [v.strip() for v in re.findall(r"^\s*//\s*(\S.*)\n\s*vec!\[", test, re.M)][:64]
    # ---- native replay in a scratch copy of the crate (cargo kani playback rejects --target-dir;
    #      the copy's .cargo/config.toml and CARGO_TARGET_DIR point the build at /verif/.cache)
    try:
        m = re.search(r"fn (kani_concrete_playback_\w+)", test)
        if not m:
            return out
        tname = m.group(1)
        dst = os.path.join(PLAYBACK, h["name"])
        shutil.rmtree(dst, ignore_errors=True)
        os.makedirs(PLAYBACK, exist_ok=True)
        shutil.copytree(HERE, dst, ignore=shutil.ignore_patterns("target", "__pycache__", "*.json", "*.md", "run.py"))
        with open(os.path.join(dst, ".cargo", "config.toml"), "w") as f:
            f.write('[net]\noffline = true\n\n[build]\ntarget-dir = "%s"\n' % PLAYBACK_TARGET)
        with open(os.path.join(dst, "src", h["file"]), "a") as f:
            f.write("\n// ---- appended by run.py for replay ----\n" + test)
        # playback is `cargo test`, i.e. cfg(test): the unit-test modules at the end of the
        # #[path]-included /repo files would be compiled too and need the whole EVM actor
        # (MockRuntime, Machine, tests/test_vectors.rs).  The scratch copy therefore includes
        # copies of those files cut at their trailing top-level `#[cfg(test)]` module.
        librs = os.path.join(dst, "src", "lib.rs")
        ltxt = open(librs).read()
        os.makedirs(os.path.join(dst, "repo_src"), exist_ok=True)
        for i, pth in enumerate(sorted(set(re.findall(r'#\[path = "(/[^"]+)"\]', ltxt)))):
            if not os.path.isfile(pth):
                continue
            src_lines = open(pth).read().split("\n")
            cut = next((k for k, l in enumerate(src_lines) if l.rstrip() == "#[cfg(test)]"), len(src_lines))
            cp = os.path.join(dst, "repo_src", "%d_%s" % (i, os.path.basename(pth)))
            with open(cp, "w") as f:
                f.write("\n".join(src_lines[:cut]) + "\n")
            ltxt = ltxt.replace('"%s"' % pth, '"%s"' % cp)
        with open(librs, "w") as f:
            f.write(ltxt)
        pcmd = ["cargo", "kani", "playback", "-Z", "concrete-playback", "--features", h["property"].lower(), "--", tname]
        plog = os.path.join(LOGS, h["name"] + ".replay.log")
        env = dict(ENV)
        env["CARGO_TARGET_DIR"] = PLAYBACK_TARGET
        run_limited(pcmd, plog, 1800, None, cwd=dst, env=env)
        ptxt = open(plog, errors="replace").read()
        out["replay_command"] = "(cd %s && CARGO_TARGET_DIR=%s %s)" % (dst, PLAYBACK_TARGET, " ".join(pcmd))
        out["replay_log"] = plog
        if re.search(r"test \S*%s \.\.\. FAILED" % re.escape(tname), ptxt) or ("panicked at" in ptxt and "test result: FAILED" in ptxt):
            out["replay"] = "reproduced"
            pm = re.search(r"panicked at ([^\n]*)\n([^\n]*)", ptxt)
            if pm:
                out["replay_panic"] = (pm.group(1) + " " + pm.group(2)).strip()
        elif re.search(r"test \S*%s \.\.\. ok" % re.escape(tname), ptxt):
            out["replay"] = "not_reproduced"
        else:
            out["replay_note"] = "playback did not run the test (see replay_log); unit test kept in cex_file"
        # the scratch copy is kept so that replay_command can be re-run by hand
    except Exception as e:  # noqa
        out["replay_note"] = "replay attempt raised %r" % (e,)
    return out


def main():
    ap = argparse.ArgumentParser(description=__doc__, formatter_class=argparse.RawDescriptionHelpFormatter)
    ap.add_argument("--property", default="all", help="C05 | C17 | C18 | C20 | all")
    ap.add_argument("--tier", choices=["quick", "thorough"], default="quick")
    ap.add_argument("--jobs", type=int, default=max(1, min(14, (os.cpu_count() or 4) - 2)))
    ap.add_argument("--json", dest="json_out")
    ap.add_argument("--harness", action="append", help="restrict to these harness names (repeatable; ignores property/tier)")
    ap.add_argument("--mem-gb", type=float, default=MEM_LIMIT_GB_DEFAULT, help="address-space limit per process")
    ap.add_argument("--no-cex", action="store_true", help="do not re-run failed harnesses for counterexamples")
    ap.add_argument("--list", action="store_true", help="list the selected harnesses and exit")
    ap.add_argument("--manifest", default=os.path.join(HERE, "harnesses.json"))
    a = ap.parse_args()

    manifest = json.load(open(a.manifest))
    hs = [h for h in manifest["harnesses"]
          if (a.property.lower() == "all" or h["property"].lower() == a.property.lower()) and a.tier in h["tiers"]]
    if a.harness:
        hs = [h for h in manifest["harnesses"] if h["name"] in a.harness]
    if a.list:
        for h in hs:
            print("%-44s %-4s %-16s unwind=%-5s timeout=%ss" % (h["name"], h["property"], ",".join(h["tiers"]), h.get("unwind"), h.get("timeout_s")))
        return 0

    FEATURES[:] = sorted({h["property"].lower() for h in hs})
    t_start = time.time()
    doc = {"tool": "kani", "property": a.property, "tier": a.tier, "jobs": a.jobs,
           "mem_limit_gb": a.mem_gb, "versions": versions(), "harnesses": []}
    if not hs:
        doc["note"] = "no harness registered for this property/tier"
        return finish(doc, t_start, a)

    os.makedirs(TARGET, exist_ok=True)
    os.makedirs(LOGS, exist_ok=True)
    lock = os.path.join(HERE, "Cargo.lock")
    if not os.path.exists(lock):
        shutil.copy(os.path.join(REPO, "Cargo.lock"), lock)

    # ---- batch: build + verify in one cargo kani invocation
    tag = "%s_%s" % (a.property.lower(), a.tier) if not a.harness else "selection"
    export = os.path.join(LOGS, "_batch_%s.export.json" % tag)
    blog = os.path.join(LOGS, "_batch_%s.log" % tag)
    if os.path.exists(export):
        os.remove(export)
    cmd, tmax = batch_cmd(hs, a.jobs, export)
    rounds = (len(hs) + a.jobs - 1) // a.jobs
    sampler = RssSampler([h["name"] for h in hs])
    sampler.start()
    rc, bwall = run_limited(cmd, blog, 1800 + tmax * rounds + 600, a.mem_gb)
    sampler.stop.set()
    text = open(blog, errors="replace").read()
    m = re.search(r"Finished `\w+` profile[^\n]* in (?:(\d+)m )?([0-9.]+)s", text)
    build_s = (int(m.group(1) or 0) * 60 + float(m.group(2))) if m else None
    compiled = m is not None
    doc["batch"] = {"command": " ".join(cmd), "wall_s": round(bwall, 1), "exit": rc, "log": blog,
                    "export_json": export if os.path.exists(export) else None,
                    "cargo_build_s": build_s, "compiled": compiled}
    if not compiled:
        errs = [l for l in text.splitlines() if l.startswith("error") or "verif build.rs" in l][:40]
        doc["batch"]["errors"] = errs
        for h in hs:
            r = base_result(h)
            r.update({"status": "build_error", "log": blog,
                      "detail": "crate does not compile against the current /repo tree (see batch.errors)"})
            doc["harnesses"].append(r)
        return finish(doc, t_start, a)

    results = results_from_export(export, hs, text)
    for n, r in results.items():
        r["peak_rss_mb"] = sampler.peak.get(n)
        r["wall_s"] = r["verification_s"]
        r["log"] = blog
        r["mode"] = "batch"
    # ---- anything without a result: one process per harness
    missing = [h for h in hs if h["name"] not in results]
    if missing:
        doc["batch"]["rerun_individually"] = [h["name"] for h in missing]
        from concurrent.futures import ThreadPoolExecutor
        with ThreadPoolExecutor(max_workers=a.jobs) as ex:
            for r in ex.map(lambda h: run_single(h, a.mem_gb), missing):
                results[r["name"]] = r
    # ---- counterexamples
    if not a.no_cex:
        for h in hs:
            r = results[h["name"]]
            if r["status"] == "failed":
                r.update(produce_cex(h, a.mem_gb))
    doc["harnesses"] = [results[h["name"]] for h in hs]
    return finish(doc, t_start, a)


def finish(doc, t_start, a):
    hs = doc["harnesses"]
    doc["total_wall_s"] = round(time.time() - t_start, 1)
    counts = {}
    for r in hs:
        counts[r["status"]] = counts.get(r["status"], 0) + 1
    doc["summary"] = counts
    with_cex = [r for r in hs if r["status"] == "failed" and r.get("cex_file")]
    if hs and all(r["status"] == "success" for r in hs):
        code = 0
    elif with_cex:
        code = 1
    else:
        code = 2
    doc["exit_code"] = code
    s = json.dumps(doc, indent=1)
    if a.json_out:
        with open(a.json_out, "w") as f:
            f.write(s + "\n")
    print(s)
    return code


if __name__ == "__main__":
    sys.exit(main())
