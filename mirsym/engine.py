"""mirsym: path-wise symbolic executor for rustc MIR, z3 as decision procedure.

Control flow, container shapes and enum tags are concrete per path; scalars are symbolic.
Exploration is replay-based DFS: a path is identified by its list of branch decisions and is
re-executed from the start when an alternative is taken (no state copying, so model objects may
be ordinary mutable python objects).
"""
import re
import sys
import time
import z3

from . import parser as P
from . import srcindex
from .values import *

sys.setrecursionlimit(20000)


# ---------------------------------------------------------------------------------------
# callee references

class CalleeRef:
    __slots__ = ('raw', 'qself', 'trait', 'trait_full', 'idents', 'generics', 'canon', 'implty')

    def __repr__(self):
        return 'Callee(%s)' % self.canon


_callee_cache = {}


def parse_callee(text):
    c = _callee_cache.get(text)
    if c is not None:
        return c
    c = CalleeRef()
    c.raw = text
    c.qself = c.trait = c.trait_full = c.implty = None
    segs = P.split_path(text)
    idents = []
    gens = []
    first = True
    nseg = len(segs)
    for si, s in enumerate(segs):
        s = s.strip()
        if first and s.startswith('<') and (not s.startswith('<impl ') or _top_as(s[1:P.match_bracket(s, 0)]) >= 0):
            inner = s[1:P.match_bracket(s, 0)]
            k = _top_as(inner)
            if k >= 0:
                c.qself = inner[:k].strip()
                c.trait_full = inner[k + 4:].strip()
                c.trait = type_head(c.trait_full)
            else:
                c.qself = inner.strip()
            first = False
            continue
        first = False
        if s.startswith('<impl ') and si < nseg - 1:
            c.implty = s[6:-1]
            continue
        if s.startswith('<'):
            if gens:
                gens[-1] = P.split_top(s[1:-1])
            continue
        idents.append(s)
        gens.append([])
    c.idents = idents
    c.generics = gens
    m = idents[-1] if idents else ''
    if c.qself is not None:
        h = type_head(c.qself)
        if c.qself.startswith('impl ') or re.fullmatch(r'[A-Z][A-Z0-9]{0,3}', c.qself or ''):
            h = c.qself if not c.qself.startswith('impl ') else h
        if c.trait:
            c.canon = '<%s as %s>::%s' % (h, c.trait, '::'.join(idents))
        else:
            c.canon = '<%s>::%s' % (h, '::'.join(idents))
    elif c.implty is not None:
        c.canon = '<%s>::%s' % (c.implty, m)
    elif len(idents) >= 2:
        c.canon = idents[-2] + '::' + m
    else:
        c.canon = m
    _callee_cache[text] = c
    return c


def _top_as(s):
    depth = 0
    i = 0
    n = len(s)
    while i < n:
        ch = s[i]
        if ch in '<([{':
            depth += 1
        elif ch in ')]}':
            depth -= 1
        elif ch == '>' and not (i > 0 and s[i - 1] in '-='):
            depth -= 1
        if depth == 0 and s.startswith(' as ', i):
            return i
        i += 1
    return -1


# ---------------------------------------------------------------------------------------
# program = set of parsed crates

class Program:
    def __init__(self):
        self.funcs = []
        self.by_last = {}
        self.closures = {}
        self.closure_caps = {}
        self.crates = []
        self.load_s = 0.0

    SMIR_CLOSURE = re.compile(r'^\s*(?:_\d+|\(.*\)) = \{closure@([^}]+)\}\((.*)\);$')

    def load_smir_closures(self, path):
        """rustc's classic MIR printer truncates the capture list of closures with disjoint field captures;
        the stable-mir printer lists every capture operand, so the operands are taken from there."""
        with open(path, errors='replace') as f:
            for line in f:
                if '{closure@' not in line:
                    continue
                m = self.SMIR_CLOSURE.match(line.rstrip('\n'))
                if not m:
                    continue
                ops = []
                for o in P.split_top(m.group(2)):
                    if not o:
                        continue
                    if o.startswith('move '):
                        ops.append(('move', P.parse_place(o[5:])))
                    else:
                        try:
                            ops.append(('copy', P.parse_place(o)))
                        except Exception:
                            ops.append(('const', o))
                self.closure_caps[m.group(1)] = ops

    def load(self, path, crate, smir=None):
        t = time.time()
        if smir:
            self.load_smir_closures(smir)
        fs = P.parse_mir_file(path, crate)
        self.crates.append(crate)
        for f in fs:
            self.funcs.append(f)
            if f.kind == 'promoted':
                continue
            last = P.split_path(f.name)[-1]
            self.by_last.setdefault(last, []).append(f)
            if f.closure_loc:
                self.closures[f.closure_loc] = f
        self.load_s += time.time() - t
        return fs

    def find(self, suffix, crate=None):
        """functions whose name ends with the given '::'-suffix (exact segments)"""
        want = P.split_path(suffix)
        out = []
        for f in self.by_last.get(want[-1], []):
            if crate and f.crate != crate:
                continue
            segs = P.split_path(f.name)
            if len(segs) >= len(want) and _segs_match(segs[-len(want):], want):
                out.append(f)
        return out


def _segs_match(have, want):
    for h, w in zip(have, want):
        if w == '*':
            continue
        if h != w:
            if w.startswith('<impl') and h.startswith('<impl'):
                continue
            return False
    return True


# ---------------------------------------------------------------------------------------
# path context: solver, decisions, naming

class PathCtx:
    def __init__(self, prefix, stats, timeout_ms=8000):
        self.prefix = list(prefix)
        self.pos = 0
        self.decisions = []
        self.alternatives = []
        self.solver = z3.Solver()
        self.solver.set('timeout', timeout_ms)
        self.pc = []
        self.stats = stats
        self.counters = {}
        self.memo = {}
        self.steps = 0
        self.notes = []
        self.side = []       # declared assumptions (strings) for evidence
        self.env = {}

    # --- naming
    def fresh_name(self, base):
        n = self.counters.get(base, 0)
        self.counters[base] = n + 1
        return base if n == 0 else '%s!%d' % (base, n)

    def fresh_int(self, base):
        return z3.Int(self.fresh_name(base))

    def fresh_bool(self, base):
        return z3.Bool(self.fresh_name(base))

    # --- constraints
    def assume(self, c):
        if isinstance(c, bool):
            if not c:
                raise PathEnd('infeasible')
            return
        c = z3.simplify(c)
        if z3.is_true(c):
            return
        if z3.is_false(c):
            raise PathEnd('infeasible')
        self.pc.append(c)
        self.solver.add(c)

    def feasible(self, c=None):
        t = time.time()
        r = self.solver.check() if c is None else self.solver.check(c)
        self.stats['solver_s'] += time.time() - t
        self.stats['queries'] += 1
        if r == z3.unknown:
            # undecided feasibility: keep the side (over-approximation of the path set; a spurious path can only
            # yield a counterexample that the native replay then rejects, never hide a violation)
            self.stats['unknown'] += 1
            return True
        return r == z3.sat

    def branch(self, cond):
        """decide a boolean condition on this path (forks the exploration when both sides are feasible)"""
        if isinstance(cond, bool):
            return cond
        if isinstance(cond, int):
            return bool(cond)
        cond = z3.simplify(cond)
        if z3.is_true(cond):
            return True
        if z3.is_false(cond):
            return False
        if self.pos < len(self.prefix):
            d = self.prefix[self.pos]
            self.pos += 1
            self.decisions.append(d)
            c = cond if d else z3.Not(cond)
            self.pc.append(c)
            self.solver.add(c)
            return d
        t = self.feasible(cond)
        f = self.feasible(z3.Not(cond))
        if t and f:
            self.alternatives.append(self.decisions + [False])
            d = True
        elif t:
            d = True
        elif f:
            d = False
        else:
            raise PathEnd('infeasible')
        self.pos += 1
        self.decisions.append(d)
        c = cond if d else z3.Not(cond)
        self.pc.append(c)
        self.solver.add(c)
        self.stats['forks'] += 1 if (t and f) else 0
        return d

    def choose(self, n, label=''):
        """nondeterministic choice among n alternatives (all explored)"""
        for i in range(n - 1):
            b = z3.Bool(self.fresh_name('choice_%s_%d' % (label, i)))
            if self.branch(b):
                return i
        return n - 1


# ---------------------------------------------------------------------------------------
# engine

class Frame:
    __slots__ = ('fn', 'cells', 'env')

    def __init__(self, fn, env=None):
        self.fn = fn
        self.cells = {}
        self.env = env or {}


# ---------------------------------------------------------------------------------------
# generic type parameters: MIR is un-monomorphised, so type arguments are propagated along calls by
# unifying the callee's declared signature with the (already substituted) types at the call site.

GENERIC_RE = re.compile(r'^(?:[A-Z][A-Z0-9]?|Rt|impl [A-Za-z:]+(?:<.*>)?)$')
_IDENT_RE = re.compile(r"(?<![A-Za-z0-9_:'])([A-Z][A-Z0-9]?|Rt)(?![A-Za-z0-9_])(?!::<)")


def subst_type(env, t):
    if not env or t is None:
        return t
    def rep(m):
        v = env.get(m.group(1))
        return v if v is not None else m.group(0)
    out = _IDENT_RE.sub(rep, t)
    for k, v in env.items():
        if k.startswith('impl ') and k in out:
            out = out.replace(k, v)
    return out


def _tparse(t):
    t = t.strip()
    if t.startswith('&'):
        u = t[1:].lstrip()
        if u.startswith("'"):
            u = u.split(' ', 1)[1] if ' ' in u else u
        if u.startswith('mut '):
            u = u[4:]
        return ('ref', [_tparse(u)])
    if t.startswith('*const ') or t.startswith('*mut '):
        return ('ref', [_tparse(t.split(' ', 1)[1])])
    if t.startswith('('):
        return ('tuple', [_tparse(x) for x in P.split_top(t[1:-1]) if x])
    if t.startswith('['):
        inner = P.split_top(t[1:-1], ';')[0]
        return ('array', [_tparse(inner)])
    if t.startswith('<') or t.startswith('dyn ') or t.startswith('{') or t.startswith('fn(') or t.startswith('for<'):
        return ('opaque:' + t, [])
    if t.startswith('impl '):
        return ('var:' + t, [])
    i = t.find('<')
    if i < 0:
        name = t.split('::')[-1]
        if GENERIC_RE.match(t):
            return ('var:' + t, [])
        return (name, [])
    j = P.match_bracket(t, i)
    head = t[:i].rstrip(':').split('::')[-1]
    rest = t[j + 1:]
    if rest.startswith('::'):
        return ('opaque:' + t, [])
    return (head, [_tparse(x) for x in P.split_top(t[i + 1:j]) if not x.startswith("'")])


def _tstr(t):
    return t


def unify(pat, act, env):
    """bind generic params occurring in `pat` (callee signature type) from `act` (call-site type)"""
    if pat is None or act is None:
        return
    try:
        _unify(_tparse(pat), pat, _tparse(act), act, env)
    except Exception:
        pass


def _unify(p, ptxt, a, atxt, env):
    if p[0].startswith('var:'):
        name = p[0][4:]
        if name not in env and not a[0].startswith('var:') and atxt.strip() != '_':
            env[name] = atxt.strip()
        return
    if p[0] != a[0] or len(p[1]) != len(a[1]):
        return
    # need the text of sub-arguments: re-split
    psubs = _subtexts(ptxt)
    asubs = _subtexts(atxt)
    if len(psubs) != len(p[1]) or len(asubs) != len(a[1]):
        return
    for (pp, pt, aa, at) in zip(p[1], psubs, a[1], asubs):
        _unify(pp, pt, aa, at, env)


def _subtexts(t):
    t = t.strip()
    if t.startswith('&'):
        u = t[1:].lstrip()
        if u.startswith("'"):
            u = u.split(' ', 1)[1] if ' ' in u else u
        if u.startswith('mut '):
            u = u[4:]
        return [u]
    if t.startswith('*const ') or t.startswith('*mut '):
        return [t.split(' ', 1)[1]]
    if t.startswith('('):
        return [x for x in P.split_top(t[1:-1]) if x]
    if t.startswith('['):
        return [P.split_top(t[1:-1], ';')[0]]
    i = t.find('<')
    if i < 0:
        return []
    j = P.match_bracket(t, i)
    return [x for x in P.split_top(t[i + 1:j]) if not x.startswith("'")]


class Call:
    """what a model sees"""
    __slots__ = ('callee', 'args', 'dest_ty', 'frame', 'arg_tys')

    def __init__(self, callee, args, dest_ty, frame, arg_tys):
        self.callee = callee
        self.args = args
        self.dest_ty = dest_ty
        self.frame = frame
        self.arg_tys = arg_tys

    @property
    def generics(self):
        g = self.callee.generics[-1] if self.callee.generics else []
        return [x for x in g if not x.startswith("'")]


MODELS_EXACT = {}
MODELS_RE = []
FALLBACK_RE = []


def fallback(*pats):
    def deco(f):
        for p in pats:
            FALLBACK_RE.append((re.compile(p), f))
        return f
    return deco


def model(*names):
    def deco(f):
        for n in names:
            if n.startswith('re:'):
                MODELS_RE.append((re.compile(n[3:]), f))
            else:
                MODELS_EXACT[n] = f
        return f
    return deco


class Engine:
    def __init__(self, program, max_steps=400000):
        self.prog = program
        self.ctx = None
        self.max_steps = max_steps
        self.resolve_cache = {}
        self.model_cache = {}
        self.cuts = {}            # canonical name or fn-name suffix -> python function(engine, call)
        self.trace = False
        self.encoded = {}         # fn name -> (lines, hash) of executed functions
        self.models_used = {}
        self.const_cache = {}
        self.depth = 0
        self.call_stack = []

    # ---------------------------------------------------------------- materialisation
    def materialize(self, ty, name):
        ctx = self.ctx
        key = ('mat', ty, name)
        v = ctx.memo.get(key)
        if v is None:
            v = self._materialize(ty, name)
            ctx.memo[key] = v
        return v

    def _materialize(self, ty, name):
        ctx = self.ctx
        ty = ty.strip()
        if ty in INT_TYPES:
            v = z3.Int(name)
            lo, hi = INT_TYPES[ty]
            key = ('range', name)
            if key not in ctx.memo:
                ctx.memo[key] = True
                ctx.assume(z3.And(v >= lo, v <= hi))
            return IntV(v, ty)
        if ty == 'bool':
            return z3.Bool(name)
        if ty == '()':
            return UNIT
        if ty == 'char':
            return IntV(z3.Int(name), 'u32')
        h = type_head(ty)
        if is_ref_type(ty):
            key = ('refcell', name)
            cell = ctx.memo.get(key)
            if cell is None:
                inner = strip_one_ref(ty)
                cell = Cell(self.materialize(inner, name + '*'), name)
                ctx.memo[key] = cell
            return RefV(cell, (), ty.startswith('&mut') or ty.startswith('*mut'))
        f = LAZY_TYPES.get(h)
        if f is not None:
            return f(self, ty, name)
        if ty.startswith('('):
            return StructV(ty, {}, lazy=name)
        inner = EXTERNAL_NEWTYPES.get(h)
        if inner is not None:
            return StructV(ty, {0: self.materialize(inner, name + '.0')})
        return LazyV(name, ty)

    # ---------------------------------------------------------------- places
    def resolve_place(self, frame, place):
        cell = frame.cells.get(place.local)
        if cell is None:
            cell = Cell(UNINIT, '_%d' % place.local)
            frame.cells[place.local] = cell
        path = []
        for el in place.proj:
            k = el[0]
            if k == 'deref':
                v = self.get_path(cell.value, path)
                if isinstance(v, LazyV):
                    v = self.materialize(v.ty, v.name)
                if isinstance(v, RefV):
                    cell, path = v.cell, list(v.path)
                elif isinstance(v, StructV) and type_head(v.ty) == 'Box':
                    r = v.fields[0]
                    cell, path = r.cell, list(r.path)
                else:
                    raise Inconclusive('deref of non-reference %r in %s' % (v, frame.fn.name))
            elif k == 'index':
                iv = self.read_local(frame, el[1])
                idx = iv.v if isinstance(iv, IntV) else iv
                if is_sym(idx):
                    idx = self.concretize_index(idx, self.get_path(cell.value, path))
                path.append(('index', idx))
            elif k == 'constindex':
                _, n, from_end, minlen = el
                if from_end:
                    v = self.get_path(cell.value, path)
                    n = len(v.items) - n
                path.append(('index', n))
            elif k == 'field' and frame.env:
                path.append(('field', el[1], subst_type(frame.env, el[2])))
            else:
                path.append(el)
        return cell, path

    def concretize_index(self, idx, vec):
        if not isinstance(vec, VecV):
            raise Inconclusive('symbolic index into %r' % (vec,))
        for i in range(len(vec.items)):
            if self.ctx.branch(idx == i):
                return i
        raise PathEnd('panic', 'index out of bounds')

    def read_local(self, frame, n):
        return frame.cells[n].value

    def read_place(self, frame, place):
        cell, path = self.resolve_place(frame, place)
        v = self.get_path(cell.value, path)
        if v is UNINIT:
            raise Inconclusive('read of uninitialised %r in %s' % (place, frame.fn.name))
        return v

    def write_place(self, frame, place, v):
        cell, path = self.resolve_place(frame, place)
        cell.value = self.set_path(cell.value, path, v)

    def get_path(self, v, path):
        for el in path:
            v = self.project(v, el)
        return v

    def project(self, v, el):
        k = el[0]
        if isinstance(v, LazyV):
            v = self.force(v, el)
        if k == 'field':
            idx, fty = el[1], el[2]
            if isinstance(v, StructV):
                if idx in v.fields:
                    return v.fields[idx]
                if v.lazy is not None:
                    return self.materialize(fty, '%s.%d' % (v.lazy, idx))
                raise Inconclusive('missing field %d of %r' % (idx, v))
            if isinstance(v, _Downcast):
                e = v.enum
                key = (v.vname, idx)
                if key in e.fields:
                    return e.fields[key]
                if e.lazy is not None:
                    return self.materialize(fty, '%s.%s.%d' % (e.lazy, v.vname, idx))
                raise Inconclusive('missing field %s of %r' % (key, e))
            if isinstance(v, _ObjDowncast):
                return v.obj
            if isinstance(v, ClosureV):
                return v.caps[idx]
            if isinstance(v, (BigV, IntV)) and idx == 0:
                return v  # newtype wrappers collapse onto their scalar
            if isinstance(v, RefV) and fty and ('NonNull<' in fty or 'Unique<' in fty or fty.lstrip().startswith('*')):
                return v  # pointer newtypes (Box -> Unique -> NonNull -> *const) collapse onto the reference
            h = SPECIAL_FIELD.get(type(v))
            if h:
                return h(self, v, idx, fty)
            raise Inconclusive('field %d of %r' % (idx, v))
        if k == 'downcast':
            if isinstance(v, EnumV):
                return _Downcast(v, el[1])
            if isinstance(v, ObjV) and type(v.obj) in SPECIAL_DISCR:
                # model objects that stand for a two-variant std enum (map Entry): the payload of either variant is the object
                return _ObjDowncast(v)
            raise Inconclusive('downcast of %r' % (v,))
        if k == 'index':
            if isinstance(v, VecV):
                i = el[1]
                if not (0 <= i < len(v.items)):
                    raise PathEnd('panic', 'index out of bounds')
                return v.items[i]
            raise Inconclusive('index into %r' % (v,))
        raise Inconclusive('projection %r' % (el,))

    def force(self, lz, el):
        """turn a LazyV into a struct or enum view depending on the first projection"""
        if el[0] == 'field':
            return StructV(lz.ty, {}, lazy=lz.name)
        if el[0] in ('downcast', 'discr'):
            return self.lazy_enum(lz)
        raise Inconclusive('projection %r of lazy %r' % (el, lz))

    def lazy_enum(self, lz):
        h = type_head(lz.ty)
        vs, d = srcindex.enum_variants(h)
        tag = z3.Int(lz.name + '#tag')
        key = ('tagrange', lz.name)
        if key not in self.ctx.memo:
            self.ctx.memo[key] = True
            if vs is not None:
                self.ctx.assume(z3.Or(*[tag == d[x] for x in vs]))
        return EnumV(lz.ty, tag, None, {}, lazy=lz.name)

    def set_path(self, v, path, new):
        if not path:
            return new
        el = path[0]
        k = el[0]
        if isinstance(v, LazyV):
            v = self.force(v, el)
        if k == 'field':
            idx = el[1]
            if isinstance(v, StructV):
                old = v.fields.get(idx)
                if old is None and len(path) > 1:
                    old = self.project(v, el)
                f = dict(v.fields)
                f[idx] = self.set_path(old, path[1:], new)
                return StructV(v.ty, f, v.lazy)
            if isinstance(v, ClosureV):
                caps = dict(v.caps)
                caps[idx] = self.set_path(caps.get(idx), path[1:], new)
                return ClosureV(v.loc, caps)
            if isinstance(v, (BigV, IntV)) and idx == 0 and len(path) == 1:
                return new
            if v is UNINIT or v is None:
                f = {idx: self.set_path(UNINIT, path[1:], new)}
                return StructV(None, f, None)
            raise Inconclusive('set field of %r' % (v,))
        if k == 'downcast':
            # ((_x as V).i: T) = val
            if len(path) < 2 or path[1][0] != 'field':
                raise Inconclusive('downcast write')
            vname = el[1]
            idx = path[1][1]
            if isinstance(v, EnumV):
                fields = dict(v.fields)
                old = fields.get((vname, idx))
                if old is None and len(path) > 2:
                    old = self.project(_Downcast(v, vname), path[1])
                fields[(vname, idx)] = self.set_path(old, path[2:], new)
                return EnumV(v.ty, v.tag, v.vname, fields, v.lazy)
            if v is UNINIT or v is None:
                return EnumV(None, None, vname, {(vname, idx): self.set_path(UNINIT, path[2:], new)})
            raise Inconclusive('downcast write into %r' % (v,))
        if k == 'index':
            if isinstance(v, VecV):
                items = list(v.items)
                items[el[1]] = self.set_path(items[el[1]], path[1:], new)
                return VecV(items, v.ty)
            raise Inconclusive('index write into %r' % (v,))
        raise Inconclusive('set_path %r' % (el,))

    # ---------------------------------------------------------------- operands / rvalues
    def eval_operand(self, frame, op):
        k = op[0]
        if k == 'copy' or k == 'move':
            return self.read_place(frame, op[1])
        if k == 'const':
            return self.eval_const(frame, op[1])
        if k == 'fn':
            return FnItemV(op[1])
        raise Inconclusive('operand %r' % (op,))

    INT_CONST = re.compile(r'^(-?[0-9_]+)_(u8|u16|u32|u64|u128|usize|i8|i16|i32|i64|i128|isize)$')

    def eval_const(self, frame, text):
        text = text.strip()
        m = self.INT_CONST.match(text)
        if m:
            return IntV(int(m.group(1).replace('_', '')), m.group(2))
        if text == 'true':
            return True
        if text == 'false':
            return False
        if text == '()':
            return UNIT
        if text.startswith('"'):
            return StrV(text[1:P.skip_string(text, 0) - 1])
        if text.startswith('b"'):
            return StrV(text[2:-1])
        if text.startswith("'"):
            body = text[1:text.rindex("'")]
            return IntV(ord(body) if len(body) == 1 else ord(bytes(body, 'utf8').decode('unicode_escape')), 'u32')
        m = re.search(r'::promoted\[(\d+)\]$', text)
        if m:
            pf = frame.fn.promoted.get(int(m.group(1)))
            if pf is None:
                raise Inconclusive('promoted %s not found for %s' % (text, frame.fn.name))
            return self.run_function(pf, [])
        if text.startswith('{') or ' as ' in text and text.startswith('<') is False and '(' in text:
            pass
        if text.startswith('ZeroSized: '):
            rest = text[11:].strip()
            if rest.startswith('{closure@'):
                return ClosureV(rest[9:P.match_bracket(rest, 0)], {})
            m = re.match(r'^fn\(.*\)(?: -> .*)? \{(.*)\}$', rest)
            if m:
                return FnItemV(m.group(1))
            return OpaqueV('zst', rest)
        if text.startswith('{alloc'):
            return OpaqueV('const', text)
        m = re.match(r'^(-?[0-9.eE+]+)(f32|f64)$', text)
        if m:
            return OpaqueV('float', float(m.group(1)))
        m = re.match(r'^RepeatWith::<.*> \{\{ repeater: (.*) \}\}$', text)
        if m:
            # iter::repeat_with(<zero-sized fn item>) const-folded by rustc
            from .models_core import iter_obj, RepeatWithIter
            return iter_obj(RepeatWithIter(FnItemV(m.group(1).strip())))
        return self.eval_named_const(text, frame.fn.crate if frame is not None else None)

    def eval_named_const(self, text, crate=None):
        if (text, crate) in self.const_cache:
            return self.const_cache[(text, crate)]
        ext = EXTERNAL_CONSTS.get(text)
        if ext is None:
            c = parse_callee(text)
            ext = EXTERNAL_CONSTS.get(c.canon)
        if ext is not None:
            v = ext(self) if callable(ext) else ext
            return v
        c = parse_callee(text)
        cands = self.lookup_functions(c, 0, const=True)
        if len(cands) > 1 and crate:
            same = [f for f in cands if f.crate == crate]
            if same:
                cands = same
        if len(cands) > 1:
            # identical definitions (re-exports / duplicates of the same literal) are interchangeable
            vals = set(f.const_value for f in cands)
            if len(vals) == 1 and None not in vals:
                cands = cands[:1]
        if len(cands) == 1:
            f = cands[0]
            if f.const_value is not None:
                cv = f.const_value
                v = self.eval_const(Frame(f), cv[6:] if cv.startswith('const ') else cv)
            else:
                v = self.run_function(f, [])
            self.const_cache[(text, crate)] = v
            return v
        raise Inconclusive('unknown constant %r (%d candidates)' % (text, len(cands)))

    def op_type(self, frame, op):
        if op[0] in ('copy', 'move'):
            return self.place_type(frame, op[1])
        if op[0] == 'const':
            m = self.INT_CONST.match(op[1].strip())
            if m:
                return m.group(2)
        return None

    def place_type(self, frame, place):
        return subst_type(frame.env, self._place_type(frame, place))

    def _place_type(self, frame, place):
        t = frame.fn.locals.get(place.local)
        for el in place.proj:
            if el[0] == 'field':
                t = el[2]
            elif el[0] == 'deref':
                t = strip_one_ref(t) if t else None
            elif el[0] == 'downcast':
                pass
            else:
                t = None
        return t

    def eval_rvalue(self, frame, rv, dest_ty):
        k = rv[0]
        if k == 'use':
            return self.eval_operand(frame, rv[1])
        if k == 'ref' or k == 'addr':
            cell, path = self.resolve_place(frame, rv[2])
            return RefV(cell, path, rv[1])
        if k == 'binop':
            a = self.eval_operand(frame, rv[2])
            b = self.eval_operand(frame, rv[3])
            return self.binop(rv[1], a, b)
        if k == 'unop':
            a = self.eval_operand(frame, rv[2])
            return self.unop(rv[1], a)
        if k == 'discr':
            v = self.read_place(frame, rv[1])
            if isinstance(v, LazyV):
                v = self.lazy_enum(v)
            if isinstance(v, EnumV):
                if v.tag is None:
                    raise Inconclusive('discriminant of enum with unknown tag %r' % (v,))
                return IntV(v.tag, 'isize')
            h = SPECIAL_DISCR.get(type(v))
            if h:
                return h(self, v)
            if isinstance(v, ObjV) and type(v.obj) in SPECIAL_DISCR:
                return SPECIAL_DISCR[type(v.obj)](self, v.obj)
            raise Inconclusive('discriminant of %r' % (v,))
        if k == 'len':
            v = self.read_place(frame, rv[1])
            if isinstance(v, VecV):
                return IntV(len(v.items), 'usize')
            raise Inconclusive('Len of %r' % (v,))
        if k == 'cast':
            return self.cast(self.eval_operand(frame, rv[1]), rv[2], rv[3])
        if k == 'tuple':
            return StructV(dest_ty or 'tuple', {i: self.eval_operand(frame, o) for i, o in enumerate(rv[1])})
        if k == 'array':
            return VecV([self.eval_operand(frame, o) for o in rv[1]], dest_ty)
        if k == 'repeat':
            n = rv[2].strip()
            m = re.match(r'^(?:const )?(\d+)(?:_usize)?$', n)
            if not m:
                nv = self.eval_const(frame, n[6:] if n.startswith('const ') else n)
                cnt = nv.v
            else:
                cnt = int(m.group(1))
            x = self.eval_operand(frame, rv[1])
            if cnt > 4096:
                return OpaqueV('bigarray', (x, cnt))
            return VecV([x] * cnt, dest_ty)
        if k == 'closure':
            loc = rv[1][8:] if rv[1].startswith('closure@') else rv[1]
            ops = self.prog.closure_caps.get(loc)
            if ops is None:
                if rv[2]:
                    raise Inconclusive('capture list of closure %s not available (stable-mir dump missing)' % loc)
                ops = []
            return ClosureV(loc, {i: self.eval_operand(frame, o) for i, o in enumerate(ops)})
        if k == 'adt':
            return self.build_adt(frame, rv, dest_ty)
        if k == 'other':
            if rv[1] in ('UbChecks', 'ContractChecks'):
                return False
            raise Inconclusive('rvalue %s' % rv[1])
        raise Inconclusive('rvalue %r' % (rv,))

    def build_adt(self, frame, rv, dest_ty):
        _, path, kind, fields = rv
        vals = [self.eval_operand(frame, o if kind != 'named' else o[1]) for o in fields]
        c = parse_callee(path)
        ids = c.idents
        ty = dest_ty or path
        last = ids[-1]
        h = ADT_BUILDERS.get(last if not (len(ids) >= 2 and ids[-2][:1].isupper()) else ids[-2])
        is_variant = len(ids) >= 2 and ids[-2][:1].isupper() and last[:1].isupper()
        if not is_variant and dest_ty and last[:1].isupper():
            # glob-imported variants print as a bare name: the destination type says which enum it is
            dh = type_head(dest_ty)
            if dh != last:
                vs0, d0 = srcindex.enum_variants(dh, last)
                if vs0 is not None and last in d0:
                    return EnumV(ty, d0[last], last, {(last, i): v for i, v in enumerate(vals)})
        if is_variant:
            enum_head = ids[-2]
            vs, d = srcindex.enum_variants(enum_head, last)
            if vs is None or last not in d:
                # enum of an external crate that is never matched on here: keep it by name only
                return EnumV(ty, None, last, {(last, i): v for i, v in enumerate(vals)})
            return EnumV(ty, d[last], last, {(last, i): v for i, v in enumerate(vals)})
        if h is not None:
            return h(self, ty, vals)
        return StructV(ty, {i: v for i, v in enumerate(vals)})

    # ---------------------------------------------------------------- arithmetic
    def binop(self, name, a, b):
        if isinstance(a, IntV) and isinstance(b, IntV):
            return self.int_binop(name, a, b)
        if name in ('Eq', 'Ne') and not isinstance(a, IntV) and not isinstance(b, IntV):
            # bools
            if isinstance(a, (bool, z3.BoolRef)) and isinstance(b, (bool, z3.BoolRef)):
                r = (a == b) if not (is_sym(a) or is_sym(b)) else (z3.BoolVal(a) if not is_sym(a) else a) == (z3.BoolVal(b) if not is_sym(b) else b)
                if name == 'Ne':
                    r = (not r) if isinstance(r, bool) else z3.Not(r)
                return r
        if name in ('BitAnd', 'BitOr', 'BitXor') and isinstance(a, (bool, z3.BoolRef)):
            return {'BitAnd': b_and, 'BitOr': b_or, 'BitXor': b_xor}[name](a, b)
        raise Inconclusive('binop %s on %r, %r' % (name, a, b))

    def int_binop(self, name, a, b):
        ty = a.ty
        x, y = a.v, b.v
        sym = is_sym(x) or is_sym(y)
        lo, hi = INT_TYPES[ty]
        if name in ('Eq', 'Ne', 'Lt', 'Le', 'Gt', 'Ge'):
            r = {'Eq': lambda: x == y, 'Ne': lambda: x != y, 'Lt': lambda: x < y, 'Le': lambda: x <= y,
                 'Gt': lambda: x > y, 'Ge': lambda: x >= y}[name]()
            return r
        if name in ('AddWithOverflow', 'SubWithOverflow', 'MulWithOverflow'):
            r = {'A': lambda: x + y, 'S': lambda: x - y, 'M': lambda: x * y}[name[0]]()
            if not sym:
                ov = not (lo <= r <= hi)
                return StructV('tuple', {0: IntV(wrap_int(r, ty), ty), 1: ov})
            inrange = z3.And(r >= lo, r <= hi)
            if self.ctx.branch(inrange):
                return StructV('tuple', {0: IntV(r, ty), 1: False})
            return StructV('tuple', {0: IntV(sym_wrap(r, ty), ty), 1: True})
        if name in ('Add', 'Sub', 'Mul', 'AddUnchecked', 'SubUnchecked', 'MulUnchecked'):
            r = {'A': lambda: x + y, 'S': lambda: x - y, 'M': lambda: x * y}[name[0]]()
            if not sym:
                return IntV(wrap_int(r, ty), ty)
            if name.endswith('Unchecked'):
                return IntV(r, ty)
            inrange = z3.And(r >= lo, r <= hi)
            if self.ctx.branch(inrange):
                return IntV(r, ty)
            return IntV(sym_wrap(r, ty), ty)
        if name in ('Div', 'Rem'):
            if not sym:
                if y == 0:
                    raise PathEnd('panic', 'division by zero')
                q = abs(x) // abs(y)
                if (x < 0) != (y < 0):
                    q = -q
                return IntV(q if name == 'Div' else x - q * y, ty)
            # truncating division; the MIR has its own zero / overflow asserts before this point
            q, r = self.trunc_divrem(x, y)
            return IntV(q if name == 'Div' else r, ty)
        if name in ('BitAnd', 'BitOr', 'BitXor', 'Shl', 'Shr', 'ShlUnchecked', 'ShrUnchecked'):
            if not sym:
                bits = INT_BITS[ty]
                if name in ('Shl', 'ShlUnchecked'):
                    return IntV(wrap_int(x << (y % bits), ty), ty)
                if name in ('Shr', 'ShrUnchecked'):
                    return IntV(x >> (y % bits), ty)
                ux, uy = x & (2**bits - 1), y & (2**bits - 1)
                r = {'BitAnd': ux & uy, 'BitOr': ux | uy, 'BitXor': ux ^ uy}[name]
                return IntV(wrap_int(r, ty), ty)
            return IntV(self.bv_binop(name, x, y, ty, b.ty), ty)
        if name == 'Cmp':
            lt = self.ctx.branch(x < y) if sym else x < y
            if lt:
                return EnumV('Ordering', -1, 'Less')
            eq = self.ctx.branch(x == y) if sym else x == y
            return EnumV('Ordering', 0, 'Equal') if eq else EnumV('Ordering', 1, 'Greater')
        raise Inconclusive('int binop %s' % name)

    def trunc_divrem(self, x, y):
        """fresh q, r with x = q*y + r, |r| < |y|, sign(r) = sign(x) (Rust semantics)"""
        ctx = self.ctx
        if not is_sym(y) and y != 0:
            ay = abs(y)
            xx = x if is_sym(x) else z3.IntVal(x)
            q = z3.If(xx >= 0, xx / ay, -((-xx) / ay))
            if y < 0:
                q = -q
            return q, x - q * y
        q = ctx.fresh_int('q')
        r = ctx.fresh_int('r')
        ay = z3.If(y >= 0, y, -y)
        ctx.assume(y != 0)
        ctx.assume(x == q * y + r)
        ctx.assume(z3.And(z3.If(x >= 0, r >= 0, r <= 0), z3.If(r >= 0, r, -r) < ay))
        return q, r

    def bv_binop(self, name, x, y, ty, ty2):
        bits = INT_BITS[ty]
        bx = z3.Int2BV(x if is_sym(x) else z3.IntVal(x), bits)
        by = z3.Int2BV(y if is_sym(y) else z3.IntVal(y), bits)
        signed = ty.startswith('i')
        if name == 'BitAnd':
            r = bx & by
        elif name == 'BitOr':
            r = bx | by
        elif name == 'BitXor':
            r = bx ^ by
        elif name.startswith('Shl'):
            r = bx << by
        else:
            r = (bx >> by) if signed else z3.LShR(bx, by)
        return z3.BV2Int(r, signed)

    def unop(self, name, a):
        if name == 'Not':
            if isinstance(a, bool):
                return not a
            if isinstance(a, z3.BoolRef):
                return z3.Not(a)
            if isinstance(a, IntV):
                bits = INT_BITS[a.ty]
                if not is_sym(a.v):
                    return IntV(wrap_int(~a.v, a.ty) if a.ty.startswith('i') else (2**bits - 1 - a.v), a.ty)
                if a.ty.startswith('u'):
                    return IntV(2**bits - 1 - a.v, a.ty)
                return IntV(-a.v - 1, a.ty)
        if name == 'Neg' and isinstance(a, IntV):
            return IntV(-a.v, a.ty)
        if name == 'PtrMetadata':
            v = a
            if isinstance(v, RefV):
                v = self.get_path(v.cell.value, v.path)
            if isinstance(v, LazyV):
                v = self.materialize(v.ty, v.name)
            if isinstance(v, VecV):
                return IntV(len(v.items), 'usize')
            if isinstance(v, StrV):
                return IntV(len(v.s), 'usize')
            h = SPECIAL_LEN.get(type(v))
            if h:
                return h(self, v)
        raise Inconclusive('unop %s on %r' % (name, a))

    def cast(self, v, ty, kind):
        if kind.startswith('IntToInt'):
            if isinstance(v, bool):
                return IntV(int(v), ty)
            if isinstance(v, z3.BoolRef):
                return IntV(z3.If(v, 1, 0), ty)
            if isinstance(v, EnumV):
                v = IntV(v.tag, 'isize')
            if not isinstance(v, IntV) or ty not in INT_TYPES:
                raise Inconclusive('IntToInt cast of %r to %s' % (v, ty))
            lo, hi = INT_TYPES[ty]
            if not is_sym(v.v):
                return IntV(wrap_int(v.v, ty), ty)
            slo, shi = INT_TYPES[v.ty]
            if slo >= lo and shi <= hi:
                return IntV(v.v, ty)
            if self.ctx.branch(z3.And(v.v >= lo, v.v <= hi)):
                return IntV(v.v, ty)
            return IntV(sym_wrap(v.v, ty), ty)
        if kind.startswith('PointerCoercion') or kind in ('PtrToPtr', 'Transmute', 'FnPtrToPtr', 'Subtype'):
            return v
        raise Inconclusive('cast kind %s of %r' % (kind, v))

    # ---------------------------------------------------------------- function resolution
    def lookup_functions(self, c, nargs, const=False):
        key = (c.raw, nargs, const)
        r = self.resolve_cache.get(key)
        if r is not None:
            return r
        name = c.idents[-1] if c.idents else None
        cands = [f for f in self.prog.by_last.get(name, [])
                 if (f.kind == 'const') == const and (const or len(f.args) == nargs)]
        out = []
        if c.qself is not None:
            sh = type_head(c.qself)
            generic_self = bool(re.fullmatch(r'[A-Z][A-Za-z0-9]{0,3}', c.qself.strip())) or c.qself.startswith('impl ')
            for f in cands:
                if f.impl_loc is not None and '{closure' not in f.name:
                    info = srcindex.impl_info(*f.impl_loc)
                    if not info:
                        continue
                    if c.trait and info['trait'] != c.trait and not info.get('macro'):
                        continue
                    if not c.trait and info['trait'] is not None:
                        continue
                    if info.get('macro_external'):
                        heads = set()
                        for t in [a[1] for a in f.args[:1]] + [f.ret or '']:
                            heads.add(type_head(strip_refs(t)))
                            for x in type_args(strip_refs(t)):
                                heads.add(type_head(strip_refs(x)))
                        if sh in heads:
                            out.append((0, f))
                        continue
                    if info['self'] == sh or info['generic_self']:
                        out.append((0 if info['self'] == sh else 1, f))
                elif c.trait and f.impl_loc is None:
                    # trait default method:  path::Trait::method
                    segs = P.split_path(f.name)
                    if len(segs) >= 2 and segs[-2] == c.trait:
                        out.append((2, f))
            out.sort(key=lambda t: t[0])
            if out:
                best = out[0][0]
                out = [f for (p, f) in out if p == best]
        else:
            ids = c.idents
            for f in cands:
                if '{closure' in f.name:
                    continue
                segs = P.split_path(f.name)
                if f.impl_loc is not None:
                    if len(ids) < 2:
                        continue
                    info = srcindex.impl_info(*f.impl_loc)
                    if not info:
                        continue
                    if info.get('macro_external'):
                        heads = set()
                        for t in [a[1] for a in f.args[:1]] + [f.ret or '']:
                            heads.add(type_head(strip_refs(t)))
                            for x in type_args(strip_refs(t)):
                                heads.add(type_head(strip_refs(x)))
                        if ids[-2] in heads:
                            out.append(f)
                        continue
                    if info['self'] == ids[-2] and (info['trait'] is None or True):
                        out.append(f)
                else:
                    want = list(ids)
                    plain = list(segs)
                    # trimmed paths: either side may be a suffix of the other
                    n = min(len(want), len(plain))
                    if plain[-n:] == want[-n:]:
                        out.append(f)
            if const and not out:
                # re-exported constants (`pub use module::*`): unique last segment
                plain = [f for f in cands if f.impl_loc is None and '{closure' not in f.name]
                if len(plain) == 1:
                    out = plain
            # prefer inherent impls over trait impls when both match
            inh = [f for f in out if f.impl_loc and (srcindex.impl_info(*f.impl_loc) or {}).get('trait') is None]
            if inh and len(out) > 1:
                out = inh
        seen_ids = set()
        # the dump can contain a const-eval and a runtime copy of a const fn under the same name: identical bodies
        out = [f for f in out if not ((f.name, f.crate, tuple(t for (_, t) in f.args), f.ret) in seen_ids or seen_ids.add((f.name, f.crate, tuple(t for (_, t) in f.args), f.ret)))]
        self.resolve_cache[key] = out
        return out

    def find_models(self, c):
        ms = self.model_cache.get(c.canon)
        if ms is None:
            ms = []
            f = MODELS_EXACT.get(c.canon)
            if f is not None:
                ms.append(f)
            for rx, g in MODELS_RE:
                if rx.search(c.canon) and g not in ms:
                    ms.append(g)
            self.model_cache[c.canon] = ms
        return ms

    # ---------------------------------------------------------------- calls
    def do_call(self, frame, callee_text, args, dest_ty, arg_tys=None):
        m_ind = re.match(r'^(copy|move) (_\d+)$', callee_text.strip())
        if m_ind and frame is not None:
            # indirect call through a local holding a fn item / fn pointer / closure
            f = self.eval_operand(frame, (m_ind.group(1), P.parse_place(m_ind.group(2))))
            return self.call_callable(f, list(args))
        if frame is not None and frame.env:
            callee_text = subst_type(frame.env, callee_text)
        c = parse_callee(callee_text)
        cut = self.cuts.get(c.canon)
        call = Call(c, args, dest_ty, frame, arg_tys or [])
        if cut is not None:
            self.models_used['cut:' + c.canon] = self.models_used.get('cut:' + c.canon, 0) + 1
            return cut(self, call)
        # closures called through Fn* traits
        if c.trait in ('FnOnce', 'FnMut', 'Fn') and c.idents and c.idents[-1] in ('call_once', 'call_mut', 'call'):
            return self.call_callable(args[0], self.untuple(args[1]))
        for m in self.find_models(c):
            r = m(self, call)
            if r is not NotImplemented:
                self.models_used[c.canon] = self.models_used.get(c.canon, 0) + 1
                return r
        fns = self.lookup_functions(c, len(args))
        if len(fns) > 1:
            fns = self.disambiguate(fns, call)
        if len(fns) == 1:
            return self.run_function(fns[0], args, call)
        if not fns:
            for rx, g in FALLBACK_RE:
                if rx.search(c.canon):
                    r = g(self, call)
                    if r is not NotImplemented:
                        self.models_used[c.canon] = self.models_used.get(c.canon, 0) + 1
                        return r
            raise Inconclusive('unmodelled callee %s  [canon %s] from %s' % (callee_text[:200], c.canon, frame.fn.name if frame else '?'))
        raise Inconclusive('ambiguous callee %s: %s' % (c.canon, [f.name[:80] for f in fns][:5]))

    def value_type(self, v):
        """best-effort runtime type of a value (generic code is executed un-monomorphised)"""
        v = self.deref(v)
        if isinstance(v, (StructV, EnumV, LazyV, IntV, VecV)):
            return v.ty
        f = VALUE_TYPES.get(type(v))
        if f:
            return f
        return None

    def disambiguate(self, fns, call):
        # generic self type: dispatch on the runtime type of the receiver
        if call.callee.qself and is_generic_param(call.callee.qself) and call.args:
            vt = self.value_type(call.args[0])
            if vt:
                h = type_head(vt)
                pick = [f for f in fns if f.impl_loc and (srcindex.impl_info(*f.impl_loc) or {}).get('self') == h]
                if pick:
                    fns = pick
        # conversion traits name their argument type: From<X>::from(x: X), TryFrom<X>::try_from(x: X), PartialEq<X>::eq(&self, &X)
        tf = getattr(call.callee, 'trait_full', None) or ''
        if len(fns) > 1 and '<' in tf:
            targ = type_args(tf)
            if targ:
                want = strip_refs(targ[0]).replace(' ', '')
                idx = 0 if call.callee.trait in ('From', 'TryFrom', 'Into') else 1
                def _same(f):
                    if len(f.args) <= idx:
                        return False
                    have = strip_refs(f.args[idx][1]).replace(' ', '')
                    return have == want or have.split('::')[-1] == want.split('::')[-1]
                pick = [f for f in fns if _same(f)]
                if pick:
                    fns = pick
        # by declared type head of the first argument
        if call.arg_tys and call.arg_tys[0]:
            h = type_head(call.arg_tys[0])
            pick = [f for f in fns if f.args and type_head(f.args[0][1]) == h]
            if pick:
                fns = pick
        if len(fns) > 1 and call.arg_tys and len(call.arg_tys) > 1 and call.arg_tys[1]:
            h = type_head(call.arg_tys[1])
            pick = [f for f in fns if len(f.args) > 1 and type_head(f.args[1][1]) == h]
            if pick:
                fns = pick
        if len(fns) > 1 and call.dest_ty:
            h = type_head(call.dest_ty)
            pick = [f for f in fns if type_head(f.ret) == h]
            if pick:
                fns = pick
        if len(fns) > 1 and call.callee.qself:
            # compare full self types
            def _norm(t):
                t = t.replace(' ', '')
                refs = ''
                while t.startswith('&'):
                    refs += '&'
                    t = t[1:]
                    if t.startswith('mut') and not t[3:4].isalnum():
                        t = t[3:]
                return refs + t.split('::')[-1]
            qs = _norm(call.callee.qself)
            pick = []
            for f in fns:
                info = srcindex.impl_info(*f.impl_loc) if f.impl_loc else None
                if info and _norm(info['self_full']) == qs:
                    pick.append(f)
            if pick:
                fns = pick
        if len(fns) > 1:
            # same crate as caller first
            fr = call.frame
            if fr is not None:
                pick = [f for f in fns if f.crate == fr.fn.crate]
                if len(pick) >= 1:
                    fns = pick
        return fns

    def untuple(self, v):
        if isinstance(v, StructV):
            return [v.fields[i] for i in sorted(v.fields)]
        if v is UNIT:
            return []
        raise Inconclusive('untuple %r' % (v,))

    def call_callable(self, f, args):
        """call a closure value / fn item with already-untupled args"""
        if isinstance(f, RefV):
            tgt = self.get_path(f.cell.value, f.path)
            if isinstance(tgt, ClosureV):
                fn = self.prog.closures.get(tgt.loc)
                if fn is None:
                    raise Inconclusive('closure body not found: %s' % tgt.loc)
                first = fn.args[0][1]
                return self.run_function(fn, [f if is_ref_type(first) else tgt] + list(args))
            return self.call_callable(tgt, args)
        if isinstance(f, ClosureV):
            fn = self.prog.closures.get(f.loc)
            if fn is None:
                raise Inconclusive('closure body not found: %s' % f.loc)
            first = fn.args[0][1]
            a0 = f
            if is_ref_type(first):
                a0 = RefV(Cell(f, 'closure'), (), True)
            return self.run_function(fn, [a0] + list(args))
        if isinstance(f, FnItemV):
            return self.do_call(None, f.path, list(args), None)
        raise Inconclusive('call of non-callable %r' % (f,))

    def run_function(self, fn, args, call=None):
        ctx = self.ctx
        if fn.name not in self.encoded:
            self.encoded[fn.name] = (fn.crate, fn.nlines, fn.text_hash)
        env = {}
        if call is not None:
            for (loc, ty), aty in zip(fn.args, call.arg_tys or []):
                unify(ty, aty, env)
            unify(fn.ret, call.dest_ty, env)
            # value-directed binding for params that are still free
            for (loc, ty), v in zip(fn.args, args):
                if GENERIC_RE.match(strip_one_ref(ty)) and strip_one_ref(ty) not in env:
                    vt = self.value_type(v)
                    if vt:
                        env[strip_one_ref(ty)] = vt
            # explicit generic arguments on the callee path, matched by order of first appearance in the signature
            gl = [g for g in (call.callee.generics[-1] if call.callee.generics else []) if not g.startswith("'")]
            if gl:
                vars_ = []
                for ty in [t for (_, t) in fn.args] + [fn.ret]:
                    for m in _IDENT_RE.finditer(ty or ''):
                        if m.group(1) not in vars_:
                            vars_.append(m.group(1))
                if len(vars_) == len(gl):
                    for k, v in zip(vars_, gl):
                        if k not in env and not GENERIC_RE.match(v.strip()) and v.strip() != '_':
                            env[k] = v.strip()
        frame = Frame(fn, env)
        if len(args) != len(fn.args):
            raise Inconclusive('arity mismatch calling %s: %d vs %d' % (fn.name, len(args), len(fn.args)))
        for (loc, ty), v in zip(fn.args, args):
            frame.cells[loc] = Cell(v, '_%d' % loc)
        self.depth += 1
        self.call_stack.append(fn.name)
        if self.depth > 200:
            raise Inconclusive('call depth exceeded in %s' % fn.name)
        try:
            bb = 0
            while True:
                blk = fn.blocks.get(bb)
                if blk is None:
                    raise Inconclusive('missing block bb%d in %s' % (bb, fn.name))
                for st in blk.stmts:
                    self.exec_stmt(frame, st)
                ctx.steps += len(blk.stmts) + 1
                if ctx.steps > self.max_steps:
                    raise Inconclusive('step budget exceeded in %s' % fn.name)
                t = blk.term
                if t is None:
                    raise Inconclusive('block without terminator (cleanup?) bb%d in %s' % (bb, fn.name))
                k = t[0]
                if k == 'goto':
                    bb = t[1]
                elif k == 'return':
                    c0 = frame.cells.get(0)
                    v = c0.value if c0 is not None else UNIT
                    if v is UNINIT:
                        v = UNIT
                    return v
                elif k == 'switch':
                    bb = self.exec_switch(frame, t)
                elif k == 'drop':
                    bb = t[2]
                elif k == 'call':
                    _, lhs, callee, argops, ret_bb = t
                    argv = [self.eval_operand(frame, o) for o in argops]
                    atys = [self.op_type(frame, o) for o in argops]
                    dty = self.place_type(frame, lhs) if lhs is not None else None
                    if self.trace:
                        print('  ' * self.depth + 'call', callee[:150])
                    r = self.do_call(frame, callee, argv, dty, atys)
                    if ret_bb is None:
                        raise PathEnd('panic', 'diverging call %s returned' % callee[:80])
                    if lhs is not None:
                        self.write_place(frame, lhs, r)
                    bb = ret_bb
                elif k == 'assert':
                    _, op, expected, msg, succ = t
                    c = self.eval_operand(frame, op)
                    ok = c if expected else (not c if isinstance(c, bool) else z3.Not(c))
                    if self.ctx.branch(ok):
                        bb = succ
                    else:
                        raise PathEnd('panic', 'assert failed: %s in %s' % (msg[:80], fn.name))
                elif k == 'unreachable':
                    raise PathEnd('infeasible', 'unreachable reached in %s' % fn.name)
                elif k == 'diverge':
                    raise PathEnd('panic', t[1])
                else:
                    raise Inconclusive('terminator %r' % (t,))
        except Inconclusive as e:
            if not getattr(e, 'stack_noted', False):
                e.stack_noted = True
                e.args = ((str(e.args[0]) if e.args else '') + ' @ ' + ' > '.join(x[-60:] for x in self.call_stack[-6:]),) + tuple(e.args[1:])
            raise
        finally:
            self.depth -= 1
            self.call_stack.pop()

    def exec_switch(self, frame, t):
        _, op, cases, other = t
        v = self.eval_operand(frame, op)
        if isinstance(v, IntV):
            x = v.v
        elif isinstance(v, bool):
            x = int(v)
        elif isinstance(v, z3.BoolRef):
            # bool switch: cases on 0 / 1
            for val, bb in cases:
                cond = z3.Not(v) if val == 0 else v
                if self.ctx.branch(cond):
                    return bb
            return other
        else:
            raise Inconclusive('switch on %r' % (v,))
        if not is_sym(x):
            for val, bb in cases:
                if x == val:
                    return bb
            if other is None:
                raise PathEnd('infeasible')
            return other
        for val, bb in cases:
            if self.ctx.branch(x == val):
                return bb
        if other is None:
            raise PathEnd('infeasible')
        return other

    def exec_stmt(self, frame, st):
        k = st[0]
        if k == 'assign':
            dty = self.place_type(frame, st[1])
            v = self.eval_rvalue(frame, st[2], dty)
            self.write_place(frame, st[1], v)
        elif k == 'nop':
            pass
        elif k == 'setdiscr':
            cell, path = self.resolve_place(frame, st[1])
            v = self.get_path(cell.value, path)
            ty = self.place_type(frame, st[1])
            if isinstance(v, EnumV):
                nv = EnumV(v.ty or ty, st[2], v.vname, v.fields, v.lazy)
            else:
                nv = EnumV(ty, st[2], None, {})
            cell.value = self.set_path(cell.value, path, nv)
        elif k == 'unparsed':
            raise Inconclusive('unparsed MIR statement: %s' % st[1][:200])
        else:
            raise Inconclusive('statement %r' % (st,))

    # ---------------------------------------------------------------- helpers for models
    def deref(self, v):
        """follow references until a non-reference value"""
        while isinstance(v, RefV):
            v = self.get_path(v.cell.value, v.path)
        if isinstance(v, LazyV) and is_ref_type(v.ty):
            return self.deref(self.materialize(v.ty, v.name))
        return v

    def store(self, ref, v):
        if not isinstance(ref, RefV):
            raise Inconclusive('store through %r' % (ref,))
        ref.cell.value = self.set_path(ref.cell.value, list(ref.path), v)

    def call_named(self, suffix, args, crate=None):
        fs = self.prog.find(suffix, crate)
        if len(fs) != 1:
            raise Inconclusive('call_named(%s): %d candidates %s' % (suffix, len(fs), [f.name for f in fs][:4]))
        return self.run_function(fs[0], args)


def is_generic_param(t):
    t = t.strip()
    return bool(re.fullmatch(r'[A-Z][A-Za-z0-9]{0,2}|Self|impl [A-Za-z]+', t))


VALUE_TYPES = {}
# single-field tuple structs of external crates whose payload type is needed to compare / key lazily created values
EXTERNAL_NEWTYPES = {'PaddedPieceSize': 'u64', 'UnpaddedPieceSize': 'u64', 'BigIntDe': 'BigInt', 'BigUintDe': 'BigUint'}


class _ObjDowncast:
    __slots__ = ('obj',)

    def __init__(self, obj):
        self.obj = obj


class _Downcast:
    __slots__ = ('enum', 'vname')

    def __init__(self, enum, vname):
        self.enum = enum
        self.vname = vname


def strip_one_ref(t):
    t = t.strip()
    if t.startswith('&'):
        t = t[1:].lstrip()
        if t.startswith("'"):
            t = t.split(' ', 1)[1] if ' ' in t else t
        if t.startswith('mut '):
            t = t[4:]
        return t.strip()
    if t.startswith('*const '):
        return t[7:].strip()
    if t.startswith('*mut '):
        return t[5:].strip()
    return t


def wrap_int(r, ty):
    lo, hi = INT_TYPES[ty]
    m = hi - lo + 1
    return (r - lo) % m + lo


def sym_wrap(r, ty):
    lo, hi = INT_TYPES[ty]
    m = hi - lo + 1
    return (r - lo) % m + lo


def b_and(*xs):
    out = []
    for x in xs:
        if isinstance(x, bool):
            if not x:
                return False
            continue
        out.append(x)
    if not out:
        return True
    return out[0] if len(out) == 1 else z3.And(*out)


def b_or(*xs):
    out = []
    for x in xs:
        if isinstance(x, bool):
            if x:
                return True
            continue
        out.append(x)
    if not out:
        return False
    return out[0] if len(out) == 1 else z3.Or(*out)


def b_xor(a, b):
    if isinstance(a, bool) and isinstance(b, bool):
        return a != b
    return z3.Xor(a if is_sym(a) else z3.BoolVal(a), b if is_sym(b) else z3.BoolVal(b))


def b_not(a):
    return (not a) if isinstance(a, bool) else z3.Not(a)


# registries filled by the model modules
LAZY_TYPES = {}        # type head -> f(engine, ty, name) -> value
ADT_BUILDERS = {}      # struct name -> f(engine, ty, vals) -> value
EXTERNAL_CONSTS = {}   # const path (as printed or canonical) -> value | f(engine)
SPECIAL_FIELD = {}     # python value class -> f(engine, v, idx, fty)
SPECIAL_DISCR = {}
SPECIAL_LEN = {}


# ---------------------------------------------------------------------------------------
# exploration driver

class PathResult:
    __slots__ = ('kind', 'value', 'info', 'pc', 'decisions', 'ctx', 'extra')

    def __init__(self, kind, value, info, ctx, extra=None):
        self.kind = kind      # 'return' | 'panic' | 'abort'
        self.value = value
        self.info = info
        self.pc = list(ctx.pc)
        self.decisions = list(ctx.decisions)
        self.ctx = ctx
        self.extra = extra


def new_stats():
    return {'solver_s': 0.0, 'queries': 0, 'unknown': 0, 'forks': 0, 'paths': 0, 'infeasible': 0}


def explore(engine, run, max_paths=2000, on_path=None, stats=None, deadline=None):
    """run(engine) executes one path using engine.ctx and returns (value, extra).
    Calls on_path(PathResult) for every completed path.  Raises Inconclusive on cap."""
    stats = stats if stats is not None else new_stats()
    work = [[]]
    results = []
    while work:
        if stats['paths'] >= max_paths:
            raise Inconclusive('path cap %d reached' % max_paths)
        if deadline and time.time() > deadline:
            raise Inconclusive('time cap reached after %d paths' % stats['paths'])
        prefix = work.pop()
        ctx = PathCtx(prefix, stats)
        engine.ctx = ctx
        engine.depth = 0
        engine.call_stack = []
        try:
            value, extra = run(engine)
            res = PathResult('return', value, None, ctx, extra)
        except PathEnd as e:
            if e.kind == 'infeasible':
                stats['infeasible'] += 1
                work.extend(ctx.alternatives)
                continue
            res = PathResult(e.kind, None, e.info, ctx, getattr(e, 'extra', None))
        work.extend(ctx.alternatives)
        stats['paths'] += 1
        if on_path is not None:
            on_path(res)
        else:
            results.append(res)
    return results


# ---------------------------------------------------------------------------------------
# fork-based exploration: a feasible two-sided branch forks the *process* (copy-on-write snapshot of the
# whole interpreter incl. the python call stack and the z3 context), so no prefix is ever re-executed and the
# subtrees run in parallel, bounded by a token pipe.  Each leaf evaluates on_path() itself and reports JSON.

import os
import json
import signal
import multiprocessing


class ForkCtl:
    def __init__(self, jobs, scratch, max_paths, deadline):
        self.jobs = jobs
        self.scratch = scratch
        self.max_paths = max_paths
        self.deadline = deadline
        self.paths = multiprocessing.Value('i', 0)
        self.abort = multiprocessing.Value('i', 0)
        self.tok_r, self.tok_w = os.pipe()
        os.set_blocking(self.tok_r, False)
        os.write(self.tok_w, b'x' * max(0, jobs - 1))
        self.own_token = True
        self.nleaf = 0

    def try_acquire(self):
        try:
            return len(os.read(self.tok_r, 1)) == 1
        except BlockingIOError:
            return False

    def release(self):
        os.write(self.tok_w, b'x')


_PAR = {}      # engine / run / on_path handed to forked pool workers


def _leaf(engine, ctx, run, on_path, stats):
    """execute one path on ctx; returns (leaf dict | None, alternatives)"""
    engine.ctx = ctx
    engine.depth = 0
    engine.call_stack = []
    try:
        value, extra = run(engine)
        res = PathResult('return', value, None, ctx, extra)
    except PathEnd as e:
        if e.kind == 'infeasible':
            stats['infeasible'] += 1
            return None, ctx.alternatives
        res = PathResult(e.kind, None, e.info, ctx, None)
    stats['paths'] += 1
    out = on_path(res) or {}
    return out, ctx.alternatives


def _subtree(args):
    prefix, cap, deadline, timeout_ms = args
    engine, run, on_path = _PAR['engine'], _PAR['run'], _PAR['on_path']
    engine.encoded = {}
    engine.models_used = {}
    stats = new_stats()
    leaves = []
    work = [prefix]
    problem = None
    try:
        while work:
            if stats['paths'] >= cap:
                problem = 'path cap reached in a subtree (%d)' % cap
                break
            if deadline and time.time() > deadline:
                problem = 'time cap reached'
                break
            p = work.pop()
            ctx = PathCtx(p, stats, timeout_ms)
            out, alts = _leaf(engine, ctx, run, on_path, stats)
            work.extend(alts)
            if out is not None:
                leaves.append(out)
    except Inconclusive as e:
        problem = str(e)[:2000]
    except BaseException as e:
        import traceback
        problem = 'engine error: %r %s' % (e, traceback.format_exc()[-2500:])
    return leaves, stats, problem, {k: list(v) for k, v in engine.encoded.items()}, dict(engine.models_used)


class _WallTimeout(Exception):
    pass


def _alarm_handler(signum, frame):
    raise _WallTimeout()


def explore_parallel(engine, run, on_path, jobs=16, max_paths=20000, deadline=None, timeout_ms=20000, frontier=None,
                     wall_s=None):
    frontier = frontier or jobs * 6
    if wall_s is None:
        wall_s = max(10, int(deadline - time.time())) if deadline else 3600
    t_end = time.time() + wall_s
    old_handler = signal.signal(signal.SIGALRM, _alarm_handler)
    signal.alarm(int(wall_s) + 1)
    try:
        return _explore_parallel(engine, run, on_path, jobs, max_paths, deadline, timeout_ms, frontier, t_end)
    except _WallTimeout:
        raise Inconclusive('wall-clock cap of %ds reached while executing a single path' % wall_s)
    finally:
        signal.alarm(0)
        signal.signal(signal.SIGALRM, old_handler)


def _explore_parallel(engine, run, on_path, jobs, max_paths, deadline, timeout_ms, frontier, t_end):
    stats = new_stats()
    leaves = []
    work = [[]]
    # breadth-first expansion by the master
    from collections import deque
    q = deque(work)
    while q and len(q) < frontier:
        if stats['paths'] >= max_paths:
            raise Inconclusive('path cap %d reached' % max_paths)
        if deadline and time.time() > deadline:
            raise Inconclusive('time cap reached')
        p = q.popleft()
        ctx = PathCtx(p, stats, timeout_ms)
        try:
            out, alts = _leaf(engine, ctx, run, on_path, stats)
        except Inconclusive as e:
            raise
        q.extend(alts)
        if out is not None:
            leaves.append(out)
    if not q:
        return leaves, stats
    _PAR['engine'], _PAR['run'], _PAR['on_path'] = engine, run, on_path
    saved_enc, saved_models = dict(engine.encoded), dict(engine.models_used)
    tasks = [(p, max(1, max_paths), deadline, timeout_ms) for p in q]
    problems = []
    sys.stdout.flush()
    ctxm = multiprocessing.get_context('fork')
    signal.alarm(0)
    with ctxm.Pool(min(jobs, len(tasks))) as pool:
        it = pool.imap_unordered(_subtree, tasks, chunksize=1)
        while True:
            try:
                (lv, st, problem, enc, models) = it.next(timeout=max(1.0, t_end - time.time()))
            except StopIteration:
                break
            except multiprocessing.TimeoutError:
                pool.terminate()
                problems.append('wall-clock cap reached; workers terminated')
                break
            leaves.extend(lv)
            for k, v in st.items():
                stats[k] = stats.get(k, 0) + v
            if problem:
                problems.append(problem)
            for k, v in enc.items():
                saved_enc[k] = tuple(v)
            for k, v in models.items():
                saved_models[k] = saved_models.get(k, 0) + v
    engine.encoded, engine.models_used = saved_enc, saved_models
    if stats['paths'] > max_paths:
        problems.append('path cap %d exceeded (%d)' % (max_paths, stats['paths']))
    if problems:
        e = Inconclusive('; '.join(sorted(set(problems))[:4]))
        e.leaves = leaves
        e.stats = stats
        raise e
    return leaves, stats
