"""activate_new_sector_infos (the ledger step of ProveCommit): executed whole from MIR for n pre-commitments.
CUTS (declared): initial_pledge_for_power, daily_proof_fee -> arbitrary amounts >= 0 (recorded per sector);
State::put_sectors (captures the new sector infos), State::assign_sectors_to_deadlines -> Ok (sector tables: C04 area).
Clauses tagged C03 (pledge and deposit ledgers, pledge notification), C10 (weights = space x duration), C02 (no power
is credited at activation), C01 (solvency)."""
from .common import *
from .miner_common import *
from .miner_common import CRATES
from .miner_money import tagged, for_property, classify_sends, pledge_delta_of, install_bib_cut, bib_prop

MIN_SECTOR_EXPIRATION = 180 * 2880


def run_activate(n):
    def run(E):
        rt, rtref = new_rt(E)
        pre = mk_miner_state(E, 0)
        rt.state = pre['st']
        E.ctx.assume(rt.balance >= pre['pcd'] + pre['lf'] + pre['ip'])
        E.ctx.assume(z3.And(rt.epoch >= 0, rt.epoch < 2**40))
        env = E.ctx.env
        PC = Fields('actors/miner/src/types.rs', 'SectorPreCommitOnChainInfo')
        PI = Fields('actors/miner/src/types.rs', 'SectorPreCommitInfo')
        pcs, acts = [], []
        deps = []
        for i in range(n):
            info = StructV('types::SectorPreCommitInfo', {PI['sector_number']: E.materialize('u64', 'pc%d.number' % i), PI['expiration']: E.materialize('i64', 'pc%d.expiration' % i)}, lazy='pc%d.info' % i)
            E.ctx.assume(z3.And(info.fields[PI['expiration']].v >= 0, info.fields[PI['expiration']].v < 2**41))
            dep = z3.Int('pc%d.deposit' % i)
            E.ctx.assume(dep >= 0)
            deps.append(dep)
            pc = StructV('types::SectorPreCommitOnChainInfo', {PC['info']: info, PC['pre_commit_deposit']: BigV(dep), PC['pre_commit_epoch']: E.materialize('i64', 'pc%d.epoch' % i)})
            pcs.append(pc)
            us, vs = z3.Int('act%d.unverified_space' % i), z3.Int('act%d.verified_space' % i)
            E.ctx.assume(z3.And(us >= 0, vs >= 0, us + vs <= 64 << 30))
            acts.append((us, vs))
        # C03 invariant: the deposit total covers the deposits of the pre-commitments being proven
        E.ctx.assume(pre['pcd'] >= sum(deps))
        data = VecV([StructV('DataActivationOutput', {0: BigV(us), 1: BigV(vs), 2: VecV([], 'Vec<(Cid, u64)>')}) for (us, vs) in acts], 'Vec<DataActivationOutput>')
        pledges = env.setdefault('pledges', [])
        captured = env.setdefault('new_sectors', [])

        def cut_pledge(E2, c):
            v = z3.Int('initial_pledge%d' % len(pledges))
            E2.ctx.assume(v >= 0)
            pledges.append(v)
            return BigV(v)

        def cut_fee(E2, c):
            v = z3.Int(E2.ctx.fresh_name('daily_fee'))
            E2.ctx.assume(v >= 0)
            return BigV(v)

        def cut_put(E2, c):
            v = E2.deref(c.args[2])
            captured.extend([E2.deref(x) for x in v.items])
            return ok(UNIT, c.dest_ty)
        for pre_ in ('', 'monies::', 'policy::'):
            E.cuts[pre_ + 'initial_pledge_for_power'] = cut_pledge
            E.cuts[pre_ + 'daily_proof_fee'] = cut_fee
            # the sector's QA power only feeds the two cut formulas above (its own formula is decided in C02/C10)
            E.cuts[pre_ + 'qa_power_for_weight'] = lambda E2, c: BigV(z3.Int(E2.ctx.fresh_name('qa_power')))
        E.cuts['State::put_sectors'] = cut_put
        E.cuts['State::assign_sectors_to_deadlines'] = lambda E2, c: ok(UNIT, c.dest_ty)
        install_bib_cut(E)
        rt.send_hook = lambda E2, rt2, rec, nm: ('ok', None)
        env.update(dict(pcs=pcs, acts=acts, deps=deps, n=n))
        info = pre['info']
        pin = LazyV('pledge_inputs', 'NetworkPledgeInputs')
        fn = find_fn(E, MINER, 'activate_new_sector_infos')
        return E.run_function(fn, [rtref, VecV([RefV(Cell(p, 'pc'), ()) for p in pcs], 'Vec<&SectorPreCommitOnChainInfo>'), data, RefV(Cell(pin, 'pin'), ()), RefV(Cell(info, 'info'), ())]), rt
    return run


def props_activate(E, res):
    env = res.ctx.env
    rt, pre = env['rt'], env['pre']
    ctx = res.ctx
    if res.kind != 'return':
        return [tagged('ALL', 'no panic (%s)' % str(res.info)[:60], False)]
    if is_err(res.value):
        return [bib_prop(res), tagged('C03', 'a failed activation commits nothing', rt.commits == 0)]
    SO = Fields('actors/miner/src/types.rs', 'SectorOnChainInfo')
    PI = Fields('actors/miner/src/types.rs', 'SectorPreCommitInfo')
    led = ledgers(E, rt.state)
    pledges = env.get('pledges', [])
    total = sum(pledges) if pledges else 0
    deps = sum(env['deps']) if env['deps'] else 0
    new = env.get('new_sectors', [])
    P = [tagged('C03', 'one sector is recorded per proven pre-commitment', len(new) == env['n'] and len(pledges) == env['n'])]
    P.append(tagged('C03', "the initial-pledge total grows by exactly the sum of the new sectors' initial pledges", led['ip'] == pre['ip'] + total))
    P.append(tagged('C03', 'the pre-commit deposit total falls by exactly the deposits of the proven pre-commitments', led['pcd'] == pre['pcd'] - deps))
    rec = sum(big(E, fget(E, s, SO['initial_pledge'], TOKEN)) for s in new) if new else 0
    P.append(tagged('C03', "each sector records the pledge that was added for it", rec == total))
    burns, pledge, others = classify_sends(rt, ctx)
    sent = sum(pledge_delta_of(E, s) for s in pledge) if pledge else 0
    P.append(tagged('C03', 'the power actor is told exactly the new pledge', sent == total))
    P.append(tagged('C02', 'no power is credited at activation (power starts with the first Window PoSt)', all(implied(ctx, zv(s.method) != 3) for s in rt.sends)))
    P.append(tagged('C01', 'no value leaves the miner at activation', all(implied(ctx, s.value == 0) for s in rt.sends)))
    P.append(tagged('C01', 'miner stays solvent: balance covers deposits + vesting + pledge', solvency(rt, led)))
    for i, s in enumerate(new):
        exp = fget(E, env['pcs'][i], 0, 'SectorPreCommitInfo')
        expiration = fget(E, E.deref(exp), PI['expiration'], 'i64').v
        dur = expiration - rt.epoch
        us, vs = env['acts'][i]
        P.append(tagged('C10', 'verified weight = verified space x sector duration; unverified likewise',
                        z3.And(big(E, fget(E, s, SO['verified_deal_weight'], 'BigInt')) == vs * dur, big(E, fget(E, s, SO['deal_weight'], 'BigInt')) == us * dur)))
        P.append(tagged('C10,C02', 'the sector is activated now, for at least the minimum lifetime, with its power base at activation',
                        z3.And(fget(E, s, SO['activation'], 'i64').v == rt.epoch, fget(E, s, SO['power_base_epoch'], 'i64').v == rt.epoch,
                               fget(E, s, SO['expiration'], 'i64').v == expiration, dur >= MIN_SECTOR_EXPIRATION)))
    return P


def build_for(pid, tier):
    wrap = lambda f: (lambda E, res: for_property(pid, f(E, res)))
    return [Obligation('miner.activate_new_sector_infos[sectors=%d]' % n, run_activate(n), wrap(props_activate),
                       descr='prove-commit ledger step: pledge total += sum of the new sector pledges, deposits released exactly, power actor told exactly the new pledge, no power credited yet, weights = space x duration',
                       bounds='%d pre-commitment(s); CUTS: initial_pledge_for_power / daily_proof_fee / qa_power_for_weight (arbitrary amounts), put_sectors (captured), assign_sectors_to_deadlines' % n, max_paths=100000)
            for n in ([1, 2] if tier == 'quick' else [1, 2, 3])]
