"""Models of the FVM support libraries (external crates; their code is not in the repo):
num-bigint / TokenAmount as mathematical integers, Address, Cid + a typed object heap for the
blockstore, HAMT/AMT/KAMT as key->value maps with forking on key aliasing, CBOR blocks as typed
objects, and the Runtime trait as a nondeterministic environment with its documented contract."""
import re
import z3

from .engine import (model, fallback, LAZY_TYPES, ADT_BUILDERS, EXTERNAL_CONSTS, SPECIAL_FIELD, SPECIAL_DISCR,
                     SPECIAL_LEN, b_and, b_or, b_not, parse_callee, strip_one_ref)
from .values import *
from . import srcindex
from .models_core import (some, none, ok, err, variant, payload, deep_eq, DEEP_EQ, DEFAULTS, FROM_MODELS, int_cmp,
                          as_iter, iter_obj, ListIter, AS_ITER, vec_of, VEC_LEN, COLLECTORS, BIG_HEADS, mk_enum, Iter)

# =======================================================================================
# BigInt / TokenAmount

BIG_RE = '(TokenAmount|BigInt|BigUint)'


def big(E, v):
    v = E.deref(v)
    if isinstance(v, BigV):
        return v.v
    if isinstance(v, IntV):
        return v.v
    if isinstance(v, LazyV) and type_head(v.ty) in BIG_HEADS:
        return E.materialize(v.ty, v.name).v
    if isinstance(v, StructV) and 0 in v.fields and isinstance(v.fields[0], BigV):
        return v.fields[0].v
    raise Inconclusive('expected big integer, got %r' % (v,))


def _lazy_big(E, ty, name):
    v = z3.Int(name)
    if type_head(ty) == 'BigUint':
        key = ('range', name)
        if key not in E.ctx.memo:
            E.ctx.memo[key] = True
            E.ctx.assume(v >= 0)
    return BigV(v)


for _h in BIG_HEADS:
    LAZY_TYPES[_h] = _lazy_big
    DEFAULTS[_h] = lambda E, ty: BigV(0)
    ADT_BUILDERS[_h] = lambda E, ty, vals: vals[0] if isinstance(vals[0], BigV) else BigV(big(E, vals[0]))


def zdiv_floor(E, a, b):
    """floor division on Ints via fresh q,r (division lemma); exact"""
    if not is_sym(b):
        if b == 0:
            raise PathEnd('panic', 'bigint division by zero')
        aa = a if is_sym(a) else z3.IntVal(a)
        if not is_sym(a):
            return a // b, a % b
        if b > 0:
            return aa / b, aa % b          # z3 Int div is floor for positive divisor
        q = -((-aa) / (-b)) if False else None
        # negative constant divisor: floor(a/b) = floor(-a / -b)
        na = -aa
        return na / (-b), -(na % (-b))
    if E.ctx.branch(b == 0):
        raise PathEnd('panic', 'bigint division by zero')
    q = E.ctx.fresh_int('q')
    r = E.ctx.fresh_int('r')
    E.ctx.assume(a == q * b + r)
    E.ctx.assume(z3.If(b > 0, z3.And(r >= 0, r < b), z3.And(r <= 0, r > b)))
    return q, r


def zdiv_trunc(E, a, b):
    q, r = E.trunc_divrem(a if is_sym(a) or is_sym(b) else a, b) if (is_sym(a) or is_sym(b)) else (None, None)
    if q is None:
        if b == 0:
            raise PathEnd('panic', 'bigint division by zero')
        q = abs(a) // abs(b)
        if (a < 0) != (b < 0):
            q = -q
        return q, a - q * b
    return q, r


def _big_binop(E, m, x, y):
    if m in ('add', 'add_assign'):
        return x + y
    if m in ('sub', 'sub_assign'):
        return x - y
    if m in ('mul', 'mul_assign'):
        return x * y
    if m in ('div', 'div_assign'):
        if is_sym(y) and E.ctx.branch(y == 0):
            raise PathEnd('panic', 'bigint division by zero')
        return zdiv_trunc(E, x, y)[0]
    if m in ('rem', 'rem_assign'):
        if is_sym(y) and E.ctx.branch(y == 0):
            raise PathEnd('panic', 'bigint division by zero')
        return zdiv_trunc(E, x, y)[1]
    if m in ('shl', 'shl_assign'):
        if is_sym(y):
            raise Inconclusive('bigint << symbolic')
        return x * (2 ** y)
    if m in ('shr', 'shr_assign'):
        if is_sym(y):
            raise Inconclusive('bigint >> symbolic')
        return zdiv_floor(E, x, 2 ** y)[0]     # BigInt >> rounds toward -inf
    return None


@model('re:^<' + BIG_RE + ' as (Add|Sub|Mul|Div|Rem|Shl|Shr)>::(add|sub|mul|div|rem|shl|shr)$')
def _(E, c):
    r = _big_binop(E, c.callee.idents[-1], big(E, c.args[0]), big(E, c.args[1]))
    return BigV(r)


@model('re:^<' + BIG_RE + ' as (AddAssign|SubAssign|MulAssign|DivAssign|RemAssign|ShlAssign|ShrAssign)>::\\w+$')
def _(E, c):
    r = _big_binop(E, c.callee.idents[-1], big(E, c.args[0]), big(E, c.args[1]))
    E.store(c.args[0], BigV(r))
    return UNIT


@model('re:^<(i64|u64|i32|u32|i128|u128|usize) as Mul>::mul$')
def _(E, c):
    b = E.deref(c.args[1])
    if isinstance(b, BigV) or (isinstance(b, LazyV) and type_head(b.ty) in BIG_HEADS):
        return BigV(big(E, c.args[0]) * big(E, c.args[1]))
    return NotImplemented


@model('re:^<' + BIG_RE + ' as Neg>::neg$')
def _(E, c):
    return BigV(-big(E, c.args[0]))


@model('re:^<' + BIG_RE + ' as (Zero|ConstZero)>::(zero|is_zero|set_zero)$', 're:^<' + BIG_RE + ' as One>::(one|is_one)$',
       're:^' + BIG_RE + '::(zero|is_zero|one)$')
def _(E, c):
    m = c.callee.idents[-1]
    if m == 'zero':
        return BigV(0)
    if m == 'one':
        return BigV(1)
    if m == 'is_zero':
        return big(E, c.args[0]) == 0
    if m == 'is_one':
        return big(E, c.args[0]) == 1
    if m == 'set_zero':
        E.store(c.args[0], BigV(0))
        return UNIT


@model('re:^' + BIG_RE + '::(is_positive|is_negative|is_zero|atto|from_atto|from_nano|from_whole|abs|signum|magnitude|'
       'div_floor|div_ceil|div_rem|mod_floor|pow|bits|sign|to_u64|to_i64|to_u128|to_i128|into_parts|from_biguint|'
       'to_biguint|to_bigint|sqrt|is_even|is_odd|from_signed_bytes_be|to_signed_bytes_be|to_bytes_be|from_bytes_be|min|max|'
       'clone|new|checked_sub|checked_add|checked_div|checked_mul|to_usize|to_u32|to_i32)$',
       're:^<' + BIG_RE + ' as (Signed|Integer|ToPrimitive|Pow|CheckedSub|CheckedAdd|CheckedDiv|CheckedMul|Roots)>::\\w+$')
def _(E, c):
    m = c.callee.idents[-1]
    a = c.args
    if m == 'is_positive':
        return big(E, a[0]) > 0
    if m == 'is_negative':
        return big(E, a[0]) < 0
    if m == 'is_zero':
        return big(E, a[0]) == 0
    if m in ('atto', 'magnitude') and m == 'atto':
        return a[0] if isinstance(a[0], RefV) else RefV(Cell(a[0], 'atto'), ())
    if m in ('from_atto', 'to_bigint', 'from_biguint', 'clone'):
        if m == 'from_biguint':
            # (sign, magnitude)
            return NotImplemented
        return BigV(big(E, a[0]))
    if m == 'to_biguint':
        x = big(E, a[0])
        if E.ctx.branch(x >= 0):
            return some(BigV(x, True), c.dest_ty)
        return none(c.dest_ty)
    if m == 'from_nano':
        return BigV(big(E, a[0]) * 10**9)
    if m == 'from_whole':
        return BigV(big(E, a[0]) * 10**18)
    if m in ('abs', 'magnitude'):
        x = big(E, a[0])
        if E.ctx.branch(x >= 0):
            return BigV(x)
        return BigV(-x)
    if m == 'signum':
        x = big(E, a[0])
        if E.ctx.branch(x > 0):
            return BigV(1)
        if E.ctx.branch(x == 0):
            return BigV(0)
        return BigV(-1)
    if m == 'div_floor':
        return BigV(zdiv_floor(E, big(E, a[0]), big(E, a[1]))[0])
    if m == 'mod_floor':
        return BigV(zdiv_floor(E, big(E, a[0]), big(E, a[1]))[1])
    if m == 'div_ceil':
        x, y = big(E, a[0]), big(E, a[1])
        q, r = zdiv_floor(E, x, y)
        if is_sym(r):
            return BigV(z3.If(r == 0, q, q + 1))
        return BigV(q if r == 0 else q + 1)
    if m == 'div_rem':
        q, r = zdiv_trunc(E, big(E, a[0]), big(E, a[1]))
        return StructV('tuple', {0: BigV(q), 1: BigV(r)})
    if m == 'div_mod_floor':
        q, r = zdiv_floor(E, big(E, a[0]), big(E, a[1]))
        return StructV('tuple', {0: BigV(q), 1: BigV(r)})
    if m == 'pow':
        x, y = big(E, a[0]), big(E, a[1])
        if is_sym(y):
            raise Inconclusive('bigint pow with symbolic exponent')
        r = 1
        for _ in range(y):
            r = r * x
        return BigV(r)
    if m in ('to_u64', 'to_i64', 'to_u128', 'to_i128', 'to_usize', 'to_u32', 'to_i32'):
        ty = m[3:]
        lo, hi = INT_TYPES[ty]
        x = big(E, a[0])
        if E.ctx.branch(b_and(x >= lo, x <= hi)):
            return some(IntV(x, ty), c.dest_ty)
        return none(c.dest_ty)
    if m in ('checked_sub', 'checked_add', 'checked_mul'):
        x, y = big(E, a[0]), big(E, a[1])
        return some(BigV({'s': x - y, 'a': x + y, 'm': x * y}[m[8]]), c.dest_ty)
    if m in ('is_even', 'is_odd'):
        x = big(E, a[0])
        r = (x % 2 == 0)
        return r if m == 'is_even' else b_not(r)
    if m in ('min', 'max'):
        x, y = big(E, a[0]), big(E, a[1])
        r = int_cmp(E, c, x, y)
        return a[0] if (isinstance(r, str) and r == 'a') else a[1]
    if m == 'sign':
        x = big(E, a[0])
        if E.ctx.branch(x > 0):
            return mk_enum('Sign', 'Sign', 'Plus')
        if E.ctx.branch(x == 0):
            return mk_enum('Sign', 'Sign', 'NoSign')
        return mk_enum('Sign', 'Sign', 'Minus')
    if m == 'bits':
        x = big(E, a[0])
        if not is_sym(x):
            return IntV(abs(x).bit_length(), 'u64')
        raise Inconclusive('bits() of symbolic bigint')
    return NotImplemented


@model('re:^<&?' + BIG_RE + ' as (PartialOrd|PartialEq|Ord|Eq)>::(lt|le|gt|ge|eq|ne|cmp|partial_cmp|max|min)$')
def _(E, c):
    if c.callee.idents[-1] in ('max', 'min'):
        a, b = big(E, c.args[0]), big(E, c.args[1])
        if is_sym(a) or is_sym(b):
            v = BigV(z3.If(b >= a, b, a) if c.callee.idents[-1] == 'max' else z3.If(a <= b, a, b))
            return RefV(Cell(v, 'minmax'), ()) if isinstance(c.args[0], RefV) else v
    r = int_cmp(E, c, big(E, c.args[0]), big(E, c.args[1]))
    if isinstance(r, str) and r == 'a':
        return c.args[0]
    if isinstance(r, str) and r == 'b':
        return c.args[1]
    return r


@model('re:^<' + BIG_RE + ' as Ord>::clamp$')
def _(E, c):
    x, lo, hi = (big(E, a) for a in c.args)
    if E.ctx.branch(x < lo):
        return c.args[1]
    if E.ctx.branch(x > hi):
        return c.args[2]
    return c.args[0]


@model('re:^<' + BIG_RE + ' as (Sum|Product)>::(sum|product)$')
def _(E, c):
    it = as_iter(E, c.args[0])
    acc = 0 if c.callee.idents[-1] == 'sum' else 1
    while True:
        x = it.next(E)
        if x is None:
            return BigV(acc)
        acc = acc + big(E, x) if c.callee.idents[-1] == 'sum' else acc * big(E, x)


def _from_big(E, v, src, dst):
    v = E.deref(v)
    if isinstance(v, (IntV, BigV)):
        return BigV(v.v)
    return None


for _h in BIG_HEADS:
    FROM_MODELS[_h] = _from_big
DEEP_EQ[BigV] = lambda E, a, b: a.v == b.v


@model('re:^<' + BIG_RE + ' as (FromPrimitive)>::from_(u64|i64|u128|i128|usize|u32|i32)$', 're:^BigInt::from_(u64|i64|u128|i128|usize)$')
def _(E, c):
    return some(BigV(big(E, c.args[0])), c.dest_ty)


# max/min free functions over big values
@model('re:^(cmp::)?(max|min)$')
def _(E, c):
    a, b = E.deref(c.args[0]), E.deref(c.args[1])
    if isinstance(a, BigV) and isinstance(b, BigV) and (is_sym(a.v) or is_sym(b.v)):
        # big integers are plain values: merge instead of forking
        mx = c.callee.idents[-1] == 'max'
        v = BigV(z3.If(b.v >= a.v, b.v, a.v) if mx else z3.If(a.v <= b.v, a.v, b.v))
        return RefV(Cell(v, 'minmax'), ()) if isinstance(c.args[0], RefV) else v
    if isinstance(a, (BigV, IntV)) and isinstance(b, (BigV, IntV)):
        r = int_cmp(E, c, a.v, b.v)
        return c.args[0] if (isinstance(r, str) and r == 'a') else c.args[1]
    return NotImplemented


# =======================================================================================
# Address

class AddrV:
    """fvm_shared Address: protocol tag + an injective integer key (the id for ID addresses)"""
    __slots__ = ('proto', 'key')

    def __init__(self, proto, key):
        self.proto = proto
        self.key = key

    def __repr__(self):
        return 'Addr(p=%s,k=%s)' % (self.proto, self.key)


def addr_eq(a, b):
    return b_and(a.proto == b.proto, a.key == b.key)


def _lazy_addr(E, ty, name):
    p = z3.Int(name + '.proto')
    k = z3.Int(name + '.key')
    key = ('range', name)
    if key not in E.ctx.memo:
        E.ctx.memo[key] = True
        E.ctx.assume(z3.And(p >= 0, p <= 4, k >= 0))
        E.ctx.assume(z3.Implies(p == 0, k < 2**63))   # ID addresses carry a u64 id (< 2^63 by Address::new_id's check)
    return AddrV(p, k)


LAZY_TYPES['Address'] = _lazy_addr
DEEP_EQ[AddrV] = lambda E, a, b: addr_eq(a, b)


def addr(E, v):
    v = E.deref(v)
    if isinstance(v, LazyV):
        v = E.materialize(v.ty, v.name)
    if not isinstance(v, AddrV):
        raise Inconclusive('expected Address, got %r' % (v,))
    return v


@model('Address::new_id')
def _(E, c):
    return AddrV(0, big(E, c.args[0]))


@model('Address::protocol')
def _(E, c):
    a = addr(E, c.args[0])
    vs, d = srcindex.enum_variants('Protocol', 'Delegated')
    name = None
    if not is_sym(a.proto):
        name = [n for n in vs if d[n] == a.proto][0]
    return EnumV('Protocol', a.proto, name)


@model('Address::id')
def _(E, c):
    a = addr(E, c.args[0])
    if E.ctx.branch(a.proto == 0):
        return ok(IntV(a.key, 'u64'), c.dest_ty)
    return err(OpaqueV('AddressError'), c.dest_ty)


@model('re:^<Address as (PartialEq|Eq)>::(eq|ne)$')
def _(E, c):
    r = addr_eq(addr(E, c.args[0]), addr(E, c.args[1]))
    return r if c.callee.idents[-1] == 'eq' else b_not(r)


@model('re:^<Protocol as (PartialEq|Eq)>::(eq|ne)$', 're:^<Type as (PartialEq|Eq)>::(eq|ne)$',
       're:^<ErrorNumber as (PartialEq|Eq)>::(eq|ne)$', 're:^<RegisteredSealProof as (PartialEq|Eq)>::(eq|ne)$',
       're:^<RegisteredPoStProof as (PartialEq|Eq)>::(eq|ne)$', 're:^<SignatureType as (PartialEq|Eq)>::(eq|ne)$')
def _(E, c):
    a, b = E.deref(c.args[0]), E.deref(c.args[1])
    if isinstance(a, LazyV):
        a = E.lazy_enum(a)
    if isinstance(b, LazyV):
        b = E.lazy_enum(b)
    if a.fields or b.fields:
        r = deep_eq(E, a, b)
    else:
        r = a.tag == b.tag
    return r if c.callee.idents[-1] == 'eq' else b_not(r)


@model('Address::to_bytes', 'Address::payload_bytes', 'Address::payload')
def _(E, c):
    return OpaqueV('bytes', addr(E, c.args[0]))


@model('Address::from_bytes')
def _(E, c):
    v = E.deref(c.args[0])
    if isinstance(v, OpaqueV) and isinstance(v.payload, AddrV):
        return ok(v.payload, c.dest_ty)
    n = E.ctx.fresh_name('addr_from_bytes')
    if E.ctx.branch(z3.Bool(n + '.ok')):
        return ok(_lazy_addr(E, 'Address', n), c.dest_ty)
    return err(OpaqueV('AddressError'), c.dest_ty)


@model('Address::new_delegated', 'Address::new_actor', 'Address::new_secp256k1', 'Address::new_bls')
def _(E, c):
    m = c.callee.idents[-1]
    proto = {'new_delegated': 4, 'new_actor': 2, 'new_secp256k1': 1, 'new_bls': 3}[m]
    # injective key derived from the argument identity: fresh symbol memoised per argument repr
    keyrepr = repr([E.deref(a) for a in c.args])
    mk = ('addrctor', m, keyrepr)
    k = E.ctx.memo.get(mk)
    if k is None:
        k = E.ctx.fresh_int('addrkey')
        E.ctx.assume(k >= 0)
        E.ctx.memo[mk] = k
    a = AddrV(proto, k)
    if m in ('new_actor',):
        return a
    return ok(a, c.dest_ty)


@model('re:^<Address as Hash>::hash$', 're:^<Address as (Display|Debug)>::fmt$')
def _(E, c):
    return UNIT if c.callee.idents[-1] == 'hash' else ok(UNIT)


@model('re:^<Address as (PartialOrd|Ord)>::(cmp|partial_cmp|lt|le|gt|ge)$')
def _(E, c):
    a, b = addr(E, c.args[0]), addr(E, c.args[1])
    # total order: by protocol, then key (a fixed total order consistent with equality)
    x = a.proto * (2**70) + a.key
    y = b.proto * (2**70) + b.key
    return int_cmp(E, c, x, y)


# =======================================================================================
# Cid + typed object heap

class CidV:
    __slots__ = ('term', 'hkey')

    def __init__(self, term, hkey):
        self.term = term    # z3 Int (identity for equality)
        self.hkey = hkey    # python key into the object heap

    def __repr__(self):
        return 'Cid(%s)' % (self.hkey,)


def _lazy_cid(E, ty, name):
    return CidV(z3.Int(name + '#cid'), ('sym', name))


LAZY_TYPES['CidGeneric'] = _lazy_cid
LAZY_TYPES['Cid'] = _lazy_cid
DEEP_EQ[CidV] = lambda E, a, b: a.term == b.term
DEFAULTS['CidGeneric'] = lambda E, ty: CidV(z3.IntVal(0), ('default',))
DEFAULTS['Cid'] = DEFAULTS['CidGeneric']


def cid_of(E, v):
    v = E.deref(v)
    if isinstance(v, LazyV):
        v = E.materialize(v.ty, v.name)
    if not isinstance(v, CidV):
        raise Inconclusive('expected Cid, got %r' % (v,))
    return v


def new_cid(E, obj, label='cid'):
    n = E.ctx.fresh_name(label)
    c = CidV(z3.Int(n + '#cid'), ('new', n))
    E.ctx.memo[('heap', c.hkey)] = obj
    return c


def heap_get(E, cid):
    return E.ctx.memo.get(('heap', cid.hkey))


@model('re:^<CidGeneric as (PartialEq|Eq)>::(eq|ne)$', 're:^<Cid as (PartialEq|Eq)>::(eq|ne)$')
def _(E, c):
    r = cid_of(E, c.args[0]).term == cid_of(E, c.args[1]).term
    return r if c.callee.idents[-1] == 'eq' else b_not(r)


@model('re:^<CidGeneric as Hash>::hash$', 'CidGeneric::to_bytes', 'Cid::to_bytes')
def _(E, c):
    if c.callee.idents[-1] == 'hash':
        return UNIT
    return OpaqueV('bytes', cid_of(E, c.args[0]))


# blockstore (CborStore / Blockstore on rt.store())
@model('re:^<.* as CborStore>::put_cbor$', 're:^CborStore::put_cbor$')
def _(E, c):
    obj = E.deref(c.args[1])
    return ok(new_cid(E, obj, 'put'), c.dest_ty)


@model('re:^<.* as CborStore>::get_cbor$', 're:^CborStore::get_cbor$')
def _(E, c):
    cid = cid_of(E, c.args[1])
    obj = heap_get(E, cid)
    if obj is None:
        T = c.generics[0] if c.generics else (type_args(type_args(c.dest_ty)[0])[0] if c.dest_ty else None)
        if T is None:
            raise Inconclusive('get_cbor target type unknown')
        obj = E.materialize(T, 'obj(%s)' % (cid.hkey[1] if len(cid.hkey) > 1 else 'default'))
        E.ctx.memo[('heap', cid.hkey)] = obj
    return ok(some(obj), c.dest_ty)


# =======================================================================================
# ExitCode / ActorError support

def exit_code(n):
    return StructV('ExitCode', {0: IntV(n, 'u32')})


EXIT_CODES = {'OK': 0, 'SYS_SENDER_INVALID': 1, 'SYS_SENDER_STATE_INVALID': 2, 'SYS_ILLEGAL_INSTRUCTION': 4,
              'SYS_INVALID_RECEIVER': 5, 'SYS_INSUFFICIENT_FUNDS': 6, 'SYS_OUT_OF_GAS': 7, 'SYS_ILLEGAL_EXIT_CODE': 9,
              'SYS_ASSERTION_FAILED': 10, 'SYS_MISSING_RETURN': 11, 'FIRST_USER_EXIT_CODE': 16,
              'USR_ILLEGAL_ARGUMENT': 16, 'USR_NOT_FOUND': 17, 'USR_FORBIDDEN': 18, 'USR_INSUFFICIENT_FUNDS': 19,
              'USR_ILLEGAL_STATE': 20, 'USR_SERIALIZATION': 21, 'USR_UNHANDLED_MESSAGE': 22, 'USR_UNSPECIFIED': 23,
              'USR_ASSERTION_FAILED': 24, 'USR_READ_ONLY': 25, 'USR_NOT_PAYABLE': 26, 'FIRST_ACTOR_ERROR_CODE': 32}
for _k, _v in EXIT_CODES.items():
    if _k.startswith('FIRST'):
        EXTERNAL_CONSTS['ExitCode::' + _k] = IntV(_v, 'u32')
    else:
        EXTERNAL_CONSTS['ExitCode::' + _k] = exit_code(_v)


def _lazy_exitcode(E, ty, name):
    return StructV('ExitCode', {0: E.materialize('u32', name + '.value')})


LAZY_TYPES['ExitCode'] = _lazy_exitcode


@model('ExitCode::new')
def _(E, c):
    return StructV('ExitCode', {0: E.deref(c.args[0])})


@model('ExitCode::value')
def _(E, c):
    return E.deref(c.args[0]).fields[0]


@model('ExitCode::is_success')
def _(E, c):
    return E.deref(c.args[0]).fields[0].v == 0


@model('ExitCode::is_system_error')
def _(E, c):
    return E.deref(c.args[0]).fields[0].v < 16


@model('re:^<ExitCode as (PartialEq|Eq)>::(eq|ne)$')
def _(E, c):
    r = E.deref(c.args[0]).fields[0].v == E.deref(c.args[1]).fields[0].v
    return r if c.callee.idents[-1] == 'eq' else b_not(r)


@model('re:^<ExitCode as From>::from$')
def _(E, c):
    v = E.deref(c.args[0])
    if isinstance(v, IntV):
        return StructV('ExitCode', {0: IntV(v.v, 'u32')})
    return v


EXTERNAL_CONSTS.update({
    'fvm_shared::METHOD_SEND': IntV(0, 'u64'), 'METHOD_SEND': IntV(0, 'u64'),
    'fvm_shared::METHOD_CONSTRUCTOR': IntV(1, 'u64'), 'METHOD_CONSTRUCTOR': IntV(1, 'u64'),
    'EPOCH_UNDEFINED': IntV(-1, 'i64'), 'fvm_shared::clock::EPOCH_UNDEFINED': IntV(-1, 'i64'),
    'clock::EPOCH_UNDEFINED': IntV(-1, 'i64'),
    'SendFlags::READ_ONLY': StructV('SendFlags', {0: IntV(1, 'u64')}),
    'i64::MAX': IntV(2**63 - 1, 'i64'), 'i64::MIN': IntV(-2**63, 'i64'), 'u64::MAX': IntV(2**64 - 1, 'u64'),
    'u32::MAX': IntV(2**32 - 1, 'u32'), 'usize::MAX': IntV(2**64 - 1, 'usize'), 'u8::MAX': IntV(255, 'u8'),
    'u16::MAX': IntV(2**16 - 1, 'u16'), 'i32::MAX': IntV(2**31 - 1, 'i32'), 'i32::MIN': IntV(-2**31, 'i32'),
    'u128::MAX': IntV(2**128 - 1, 'u128'), 'i128::MAX': IntV(2**127 - 1, 'i128'),
    'core::num::<impl i64>::MAX': IntV(2**63 - 1, 'i64'), 'core::num::<impl u64>::MAX': IntV(2**64 - 1, 'u64'),
    'core::num::<impl i64>::MIN': IntV(-2**63, 'i64'), 'core::num::<impl u32>::MAX': IntV(2**32 - 1, 'u32'),
    'core::num::<impl usize>::MAX': IntV(2**64 - 1, 'usize'),
    'FIRST_EXPORTED_METHOD_NUMBER': IntV(1 << 24, 'u64'),
    'fvm_shared::CHAIN_ID': IntV(0, 'u64'),
    'BLOCKS_PER_EPOCH': IntV(5, 'u64'), 'fvm_shared::BLOCKS_PER_EPOCH': IntV(5, 'u64'),
    'MAX_SECTOR_NUMBER': IntV(2**63 - 1, 'u64'), 'fvm_shared::sector::MAX_SECTOR_NUMBER': IntV(2**63 - 1, 'u64'),
    'DAG_CBOR': IntV(0x71, 'u64'), 'CBOR': IntV(0x51, 'u64'), 'IPLD_RAW': IntV(0x55, 'u64'),
    'fvm_ipld_encoding::DAG_CBOR': IntV(0x71, 'u64'), 'fvm_ipld_encoding::CBOR': IntV(0x51, 'u64'),
    'fvm_ipld_encoding::IPLD_RAW': IntV(0x55, 'u64'),
    'fvm_shared::econ::TokenAmount::PRECISION': IntV(10**18, 'u64'), 'TokenAmount::PRECISION': IntV(10**18, 'u64'),
    'TokenAmount::DECIMALS': IntV(18, 'usize'),
    'NO_ALLOCATION_ID': IntV(0, 'u64'),
    'frc46_token::token::TOKEN_PRECISION': IntV(10**18, 'u64'), 'TOKEN_PRECISION': IntV(10**18, 'u64'), 'token::TOKEN_PRECISION': IntV(10**18, 'u64'),
    'fvm_shared::randomness::RANDOMNESS_LENGTH': IntV(32, 'usize'), 'RANDOMNESS_LENGTH': IntV(32, 'usize'),
    'fvm_shared::event::Flags::FLAG_INDEXED_ALL': StructV('Flags', {0: IntV(3, 'u64')}), 'Flags::FLAG_INDEXED_ALL': StructV('Flags', {0: IntV(3, 'u64')}),
    'Flags::FLAG_INDEXED_KEY': StructV('Flags', {0: IntV(1, 'u64')}), 'Flags::FLAG_INDEXED_VALUE': StructV('Flags', {0: IntV(2, 'u64')}),
    'fvm_shared::crypto::hash::SupportedHashes::Blake2b256::{constant#0}': IntV(0xb220, 'isize'),
    'frc46_token::receiver::FRC46_TOKEN_TYPE': IntV(2233613279, 'u32'), 'FRC46_TOKEN_TYPE': IntV(2233613279, 'u32'),
    'log::STATIC_MAX_LEVEL': EnumV('LevelFilter', 0, 'Off'), 'STATIC_MAX_LEVEL': EnumV('LevelFilter', 0, 'Off'),
})


@model('SendFlags::read_only', '<SendFlags>::read_only')
def _(E, c):
    v = E.deref(c.args[0])
    bits = v.fields[0].v
    if is_sym(bits):
        return bits % 2 == 1
    return bits & 1 == 1


@model('re:^<SendFlags as Default>::default$', 'SendFlags::empty', 'SendFlags::default', '<SendFlags>::empty')
def _(E, c):
    return StructV('SendFlags', {0: IntV(0, 'u64')})


def _lazy_sendflags(E, ty, name):
    return StructV('SendFlags', {0: E.materialize('u64', name + '.bits')})


LAZY_TYPES['SendFlags'] = _lazy_sendflags


# =======================================================================================
# CBOR blocks: typed objects

class BlockV:
    """IpldBlock / RawBytes / serialized bytes: carries the value it encodes (typed object heap)"""
    __slots__ = ('obj', 'name', 'codec')

    def __init__(self, obj=None, name=None, codec=0x71):
        self.obj = obj      # the encoded value, when produced by serialisation in this run
        self.name = name    # symbolic base name when it came from outside
        self.codec = codec

    def __repr__(self):
        return 'Block(%r)' % (self.obj if self.obj is not None else self.name,)


def _lazy_block(E, ty, name):
    return BlockV(None, name)


for _h in ('IpldBlock', 'RawBytes'):
    LAZY_TYPES[_h] = _lazy_block
DEFAULTS['RawBytes'] = lambda E, ty: BlockV(UNIT, None)


def _block_field(E, v, idx, fty):
    if idx == 0 and type_head(fty) in INT_TYPES:
        return IntV(v.codec, 'u64')
    return v


SPECIAL_FIELD[BlockV] = _block_field
ADT_BUILDERS['IpldBlock'] = lambda E, ty, vals: vals[1] if isinstance(vals[1], BlockV) else BlockV(E.deref(vals[1]), None, vals[0].v if isinstance(vals[0], IntV) else 0x71)


def block_of(E, v):
    v = E.deref(v)
    if isinstance(v, LazyV):
        v = E.materialize(v.ty, v.name)
    if isinstance(v, BlockV):
        return v
    if isinstance(v, VecV):
        return BlockV(v, None)
    if isinstance(v, OpaqueV) and v.kind == 'bytes':
        return BlockV(v.payload, None)
    raise Inconclusive('expected block/bytes, got %r' % (v,))


def deserialize_as(E, blk, T, dest_ty):
    """typed read of a block: a block written in this run returns the value written; an external block
    either fails to decode or yields an arbitrary value of type T"""
    if blk.obj is not None:
        return ok(blk.obj, dest_ty)
    key = ('deser', blk.name, T)
    if E.ctx.env.get('decode_always_ok') or E.ctx.branch(z3.Bool('%s.decodes<%s>' % (blk.name, short_ty(T)))):
        return ok(E.materialize(T, '%s.as<%s>' % (blk.name, short_ty(T))), dest_ty)
    return err(OpaqueV('EncodingError'), dest_ty)


@model('IpldBlock::serialize_cbor', 'IpldBlock::serialize_dag_cbor', 'IpldBlock::serialize', 'RawBytes::serialize',
       'to_vec', 'fvm_ipld_encoding::to_vec', 'serialize', 'serialize_vec', 'RawBytes::new', 'RawBytes::from',
       'cbor::serialize', 'cbor::serialize_vec')
def _(E, c):
    m = c.callee.idents[-1]
    if m in ('serialize', 'serialize_vec') and (len(c.callee.idents) == 1 or c.callee.idents[-2] == 'cbor') and len(c.args) == 2:
        # fil_actors_runtime::cbor::serialize(value, desc)
        return ok(BlockV(E.deref(c.args[0])), c.dest_ty)
    if m in ('new', 'from'):
        return block_of(E, c.args[0])
    v = E.deref(c.args[-1] if m == 'serialize' and len(c.args) == 2 else c.args[0])
    b = BlockV(v)
    if m in ('serialize_cbor', 'serialize_dag_cbor') or (m == 'serialize' and c.callee.idents[-2:] == ['IpldBlock', 'serialize']):
        return ok(some(b), c.dest_ty) if type_head(type_args(c.dest_ty)[0] if c.dest_ty else '') == 'Option' else ok(b, c.dest_ty)
    return ok(b, c.dest_ty)


@model('IpldBlock::deserialize', 'RawBytes::deserialize', 'from_slice', 'fvm_ipld_encoding::from_slice', 'deserialize',
       'deserialize_params', 'cbor::deserialize', 'cbor::deserialize_params')
def _(E, c):
    T = c.generics[0] if c.generics else None
    if T is None or T == '_':
        T = type_args(c.dest_ty)[0]
    blk = block_of(E, c.args[0])
    return deserialize_as(E, blk, T, c.dest_ty)


@model('RawBytes::bytes', 'RawBytes::to_vec', 'RawBytes::into', 're:^<RawBytes as (Into|From)>::', 'RawBytes::is_empty',
       'RawBytes::len', 're:^<RawBytes as Deref>::deref$', 're:^<RawBytes as (PartialEq|Eq)>::(eq|ne)$')
def _(E, c):
    m = c.callee.idents[-1]
    if m in ('eq', 'ne'):
        a, b = block_of(E, c.args[0]), block_of(E, c.args[1])
        if a.obj is not None and b.obj is not None:
            r = deep_eq(E, a.obj, b.obj)
        elif a.name is not None and a.name == b.name:
            r = True
        else:
            r = E.ctx.fresh_bool('bytes_eq')
        return r if m == 'eq' else b_not(r)
    if m in ('is_empty', 'len'):
        b = block_of(E, c.args[0])
        if b.obj is UNIT:
            return True if m == 'is_empty' else IntV(0, 'usize')
        n = E.ctx.memo.get(('blocklen', id(b)))
        if n is None:
            n = E.ctx.fresh_int('blocklen')
            E.ctx.assume(b_and(n >= 0, n < 2**32))
            E.ctx.memo[('blocklen', id(b))] = n
        return n == 0 if m == 'is_empty' else IntV(n, 'usize')
    return c.args[0]


VEC_LEN[BlockV] = lambda E, b: IntV(E.ctx.fresh_int('blocklen'), 'usize')
DEEP_EQ[BlockV] = lambda E, a, b: (deep_eq(E, a.obj, b.obj) if (a.obj is not None and b.obj is not None)
                                   else (True if (a.name is not None and a.name == b.name) else E.ctx.fresh_bool('block_eq')))


# =======================================================================================
# key-value maps (HAMT / AMT / KAMT)

ALIASES = {'ChainEpoch': 'i64', 'ActorID': 'u64', 'MethodNum': 'u64', 'SectorNumber': 'u64', 'DealID': 'u64',
           'AllocationID': 'u64', 'ClaimID': 'u64'}


def key_term(E, v):
    v = E.deref(v)
    if isinstance(v, LazyV):
        v = E.materialize(v.ty, v.name)
    if isinstance(v, LazyV):
        inner = srcindex.newtype_table().get(type_head(v.ty))
        if inner is not None:
            inner = ALIASES.get(inner, inner)
            v = E.materialize(inner, v.name + '.0')
    if isinstance(v, AddrV):
        return ('addr', v.proto, v.key)
    if isinstance(v, IntV):
        return ('int', v.v)
    if isinstance(v, BigV):
        return ('int', v.v)
    if isinstance(v, CidV):
        return ('cid', v.term)
    if isinstance(v, StrV):
        return ('str', v.s)
    if isinstance(v, OpaqueV) and v.kind == 'bytes':
        return key_term(E, v.payload) if v.payload is not None else ('opaque', id(v))
    if isinstance(v, BlockV):
        if v.obj is not None:
            return key_term(E, v.obj)
        return ('block', z3.Int(v.name + '#key'))
    if isinstance(v, StructV) and len(v.fields) == 1 and not v.lazy:
        return key_term(E, v.fields[0])       # BytesKey(Vec<u8>) and similar newtypes
    if isinstance(v, StructV) and not v.lazy:
        out = ('tuple',)
        for k in sorted(v.fields):
            out = out + key_term(E, v.fields[k])
        return out
    if isinstance(v, VecV):
        if all(isinstance(x, IntV) and not is_sym(x.v) for x in v.items):
            return ('bytes', tuple(x.v for x in v.items))
        out = ('vec', len(v.items))
        for x in v.items:
            out = out + key_term(E, x)
        return out
    if isinstance(v, EnumV) and not v.fields:
        return ('enum', v.tag)
    raise Inconclusive('map key of unsupported shape %r' % (v,))


def key_eq(a, b):
    if len(a) != len(b) or a[0] != b[0]:
        return False
    r = True
    for x, y in zip(a[1:], b[1:]):
        if is_sym(x) or is_sym(y):
            r = b_and(r, x == y)
        elif x != y:
            return False
    return r


class MapM:
    """immutable map value: overlay of writes over a lazily discovered symbolic base.
    base entries live in ctx.memo[('mapbase', base)] (shared by all copies)."""
    __slots__ = ('base', 'over', 'vty', 'kind', 'kty')

    def __init__(self, base, over=(), vty=None, kind='hamt', kty=None):
        self.base = base        # base name or None (empty map)
        self.over = tuple(over)  # ((keyterm, present(bool), value, keyval), ...) most recent last
        self.vty = vty
        self.kind = kind
        self.kty = kty

    def __repr__(self):
        return 'Map<%s base=%s over=%d>' % (self.kind, self.base, len(self.over))


class BaseInfo:
    def __init__(self, closed=False):
        self.entries = []     # [keyterm, present(bool|BoolRef), value, keyval]
        self.closed = closed


def base_info(E, name):
    k = ('mapbase', name)
    b = E.ctx.memo.get(k)
    if b is None:
        b = BaseInfo()
        E.ctx.memo[k] = b
    return b


def map_lookup(E, m, kt, keyval=None):
    """returns (present: python bool, value) deciding aliasing by forking"""
    for (k, pres, val, _) in reversed(m.over):
        if E.ctx.branch(key_eq(k, kt)):
            return pres, val
    if m.base is None:
        return False, None
    b = base_info(E, m.base)
    for ent in b.entries:
        if E.ctx.branch(key_eq(ent[0], kt)):
            p = ent[1]
            if not isinstance(p, bool):
                p = E.ctx.branch(p)
                ent[1] = p
            return p, ent[2]
    if b.closed:
        return False, None
    n = len(b.entries)
    pres = E.ctx.branch(z3.Bool('%s.has[%d]' % (m.base, n)))
    val = None
    if pres:
        if m.vty is None:
            raise Inconclusive('map %s has no value type' % m.base)
        val = E.materialize(m.vty, '%s[%d]' % (m.base, n))
        hook = E.ctx.env.get('map_value_hook')
        if hook is not None:
            r = hook(E, m, kt, val)
            if r is not None:
                val = r
    b.entries.append([kt, pres, val, keyval])
    return pres, val


def map_set(m, kt, present, val, keyval=None):
    return MapM(m.base, m.over + ((kt, present, val, keyval),), m.vty, m.kind, m.kty)


def map_entries(E, m):
    """all present (keyterm, value, keyval) of a closed map, resolving aliasing by forking"""
    out = []
    seen = []
    for (k, pres, val, kv) in reversed(m.over):
        dup = False
        for s in seen:
            if E.ctx.branch(key_eq(s, k)):
                dup = True
                break
        if dup:
            continue
        seen.append(k)
        if pres:
            out.append((k, val, kv))
    if m.base is not None:
        b = base_info(E, m.base)
        if not b.closed:
            raise Inconclusive('iteration over open symbolic map %s (the obligation must close it)' % m.base)
        for ent in b.entries:
            k = ent[0]
            dup = False
            for s in seen:
                if E.ctx.branch(key_eq(s, k)):
                    dup = True
                    break
            if dup:
                continue
            seen.append(k)
            p = ent[1]
            if not isinstance(p, bool):
                p = E.ctx.branch(p)
                ent[1] = p
            if p:
                out.append((k, ent[2], ent[3]))
    out.reverse()
    return out


def map_of(E, v):
    t = E.deref(v)
    if isinstance(t, StructV) and type_head(t.ty or '') == 'Box':
        t = E.deref(t.fields[0])
    if not isinstance(t, MapM):
        raise Inconclusive('expected map, got %r' % (t,))
    return t


def load_map(E, cid, vty, kind):
    obj = heap_get(E, cid)
    if isinstance(obj, MapM):
        return MapM(obj.base, obj.over, obj.vty or vty, kind, obj.kty)
    if obj is not None:
        raise Inconclusive('cid %r holds %r, not a map' % (cid, obj))
    name = cid.hkey[1] if cid.hkey[0] == 'sym' else 'm' + str(cid.hkey)
    if cid.hkey == ('default',):
        return MapM(None, (), vty, kind)
    return MapM('map(%s)' % name, (), vty, kind)


def hamt_value_type(c):
    """value type V from 'Hamt<BS, V, K, H>' / 'AmtImpl<V, BS, Ver>' in the callee path generics"""
    gens = c.callee.generics
    ids = c.callee.idents
    for i, name in enumerate(ids):
        if name in ('Kamt', 'KamtImpl') and gens[i]:
            return gens[i][2] if len(gens[i]) > 2 else None      # Kamt<BS, K, V, H>
        if name in ('Hamt', 'HamtImpl') and gens[i]:
            return gens[i][1] if len(gens[i]) > 1 else None
        if name in ('AmtImpl', 'Amt') and gens[i]:
            return gens[i][0]
    q = c.callee.qself
    if q:
        a = type_args(q)
        h = type_head(q)
        if h in ('Kamt', 'KamtImpl') and len(a) > 2:
            return a[2]
        if h in ('Hamt', 'HamtImpl') and len(a) > 1:
            return a[1]
        if h in ('AmtImpl', 'Amt') and a:
            return a[0]
    return None


# --- HAMT
@model('Hamt::new', 'Hamt::new_with_bit_width', 'Hamt::new_with_config', 'Kamt::new_with_config', 'Kamt::new', 'HamtImpl::new', 'HamtImpl::new_with_bit_width', 'HamtImpl::new_with_config')
def _(E, c):
    return MapM(None, (), hamt_value_type(c), 'hamt')


@model('Hamt::load', 'Hamt::load_with_bit_width', 'Hamt::load_with_config', 'Kamt::load_with_config', 'Kamt::load', 'HamtImpl::load', 'HamtImpl::load_with_bit_width', 'HamtImpl::load_with_config')
def _(E, c):
    cid = cid_of(E, c.args[0])
    return ok(load_map(E, cid, hamt_value_type(c), 'hamt'), c.dest_ty)


@model('Hamt::get', 'Kamt::get', 'HamtImpl::get')
def _(E, c):
    m = map_of(E, c.args[0])
    pres, val = map_lookup(E, m, key_term(E, c.args[1]), E.deref(c.args[1]))
    if pres:
        return ok(some(RefV(Cell(val, 'mapval'), ())), c.dest_ty)
    return ok(none(), c.dest_ty)


@model('Hamt::contains_key', 'Kamt::contains_key', 'HamtImpl::contains_key')
def _(E, c):
    m = map_of(E, c.args[0])
    pres, val = map_lookup(E, m, key_term(E, c.args[1]), E.deref(c.args[1]))
    return ok(pres, c.dest_ty)


@model('Hamt::set', 'Kamt::set', 'HamtImpl::set')
def _(E, c):
    m = map_of(E, c.args[0])
    kv = E.deref(c.args[1])
    kt = key_term(E, kv)
    pres, old = map_lookup(E, m, kt, kv)
    E.store(c.args[0], map_set(m, kt, True, c.args[2], kv))
    return ok(some(old) if pres else none(), c.dest_ty)


@model('Hamt::set_if_absent', 'Kamt::set_if_absent', 'HamtImpl::set_if_absent')
def _(E, c):
    m = map_of(E, c.args[0])
    kv = E.deref(c.args[1])
    kt = key_term(E, kv)
    pres, old = map_lookup(E, m, kt, kv)
    if pres:
        return ok(False, c.dest_ty)
    E.store(c.args[0], map_set(m, kt, True, c.args[2], kv))
    return ok(True, c.dest_ty)


@model('Hamt::delete', 'Kamt::delete', 'HamtImpl::delete')
def _(E, c):
    m = map_of(E, c.args[0])
    kv = E.deref(c.args[1])
    kt = key_term(E, kv)
    pres, old = map_lookup(E, m, kt, kv)
    if not pres:
        return ok(none(), c.dest_ty)
    E.store(c.args[0], map_set(m, kt, False, None, kv))
    return ok(some(StructV('tuple', {0: kv, 1: old})), c.dest_ty)


@model('Hamt::flush', 'Kamt::flush', 'AmtImpl::flush', 'Amt::flush', 'HamtImpl::flush')
def _(E, c):
    m = map_of(E, c.args[0])
    return ok(new_cid(E, m, 'root'), c.dest_ty)


@model('Hamt::is_empty', 'Kamt::is_empty', 'HamtImpl::is_empty')
def _(E, c):
    m = map_of(E, c.args[0])
    # the most recent write decides without looking at the (possibly open) base when it stored an entry
    if m.over and m.over[-1][1] is True:
        return False
    if m.base is not None and not base_info(E, m.base).closed:
        b = base_info(E, m.base)
        if any(e[1] is True for e in b.entries) and not m.over:
            return False
        # open stored map: either it holds a key this path has not touched (then it is not empty whatever the overlay
        # did to the touched keys: deletes look their key up first), or the touched keys are all there is
        if not E.ctx.branch(z3.Bool('%s.no_other_keys' % m.base)):
            return False
        b.closed = True
    return len(map_entries(E, m)) == 0


@model('Hamt::store', 'Kamt::store', 'Hamt::into_store', 'Kamt::into_store', 'HamtImpl::store', 'HamtImpl::into_store')
def _(E, c):
    if c.callee.idents[-1] == 'store':
        return RefV(Cell(OpaqueV('store'), 'store'), ())
    return OpaqueV('store')


@model('Hamt::for_each', 'Kamt::for_each', 'Hamt::for_each_cacheless', 'HamtImpl::for_each', 'HamtImpl::for_each_cacheless')
def _(E, c):
    m = map_of(E, c.args[0])
    for (kt, val, kv) in map_entries(E, m):
        if kv is None:
            raise Inconclusive('for_each over a map entry without a key value')
        r = E.call_callable(c.args[1], [RefV(Cell(kv, 'k'), ()), RefV(Cell(val, 'v'), ())])
        n, rv = variant(E, r)
        if n == 'Err':
            return err(payload(E, rv, 'Err'), c.dest_ty)
    return ok(UNIT, c.dest_ty)


@model('BytesKey::from', 're:^<BytesKey as From>::from$', 'u64_key', 'i64_key', 'BytesKey::new')
def _(E, c):
    v = E.deref(c.args[0])
    if isinstance(v, IntV):
        return OpaqueV('bytes', v)
    return v if isinstance(v, OpaqueV) else OpaqueV('bytes', v)


@model('re:^<.* as VarInt>::encode_var_vec$', 'VarInt::encode_var_vec', 're:^<.* as VarInt>::encode_var$')
def _(E, c):
    return OpaqueV('bytes', E.deref(c.args[0]))


@model('re:^<.* as VarInt>::decode_var$', 'VarInt::decode_var', 'parse_uint_key')
def _(E, c):
    v = E.deref(c.args[0])
    if isinstance(v, OpaqueV) and isinstance(v.payload, IntV):
        if c.callee.idents[-1] == 'parse_uint_key':
            return ok(v.payload, c.dest_ty)
        return some(StructV('tuple', {0: v.payload, 1: IntV(1, 'usize')}), c.dest_ty)
    raise Inconclusive('decode_var of %r' % (v,))


# --- AMT
@model('AmtImpl::new', 'AmtImpl::new_with_bit_width', 'Amt::new', 'Amt::new_with_bit_width')
def _(E, c):
    return MapM(None, (), hamt_value_type(c), 'amt')


@model('AmtImpl::load', 'Amt::load')
def _(E, c):
    cid = cid_of(E, c.args[0])
    return ok(load_map(E, cid, hamt_value_type(c), 'amt'), c.dest_ty)


@model('AmtImpl::get', 'Amt::get')
def _(E, c):
    m = map_of(E, c.args[0])
    kv = E.deref(c.args[1])
    if isinstance(kv.v, int) or is_sym(kv.v):
        pass
    pres, val = map_lookup(E, m, key_term(E, kv), kv)
    if pres:
        return ok(some(RefV(Cell(val, 'amtval'), ())), c.dest_ty)
    return ok(none(), c.dest_ty)


@model('AmtImpl::set', 'Amt::set')
def _(E, c):
    m = map_of(E, c.args[0])
    kv = E.deref(c.args[1])
    E.store(c.args[0], map_set(m, key_term(E, kv), True, c.args[2], kv))
    return ok(UNIT, c.dest_ty)


@model('AmtImpl::delete', 'Amt::delete')
def _(E, c):
    m = map_of(E, c.args[0])
    kv = E.deref(c.args[1])
    kt = key_term(E, kv)
    pres, old = map_lookup(E, m, kt, kv)
    if not pres:
        return ok(none(), c.dest_ty)
    E.store(c.args[0], map_set(m, kt, False, None, kv))
    return ok(some(old), c.dest_ty)


@model('AmtImpl::batch_delete', 'Amt::batch_delete')
def _(E, c):
    """batch_delete(keys, strict): deletes every key; strict => error when a key is absent.  returns Ok(modified)"""
    m = map_of(E, c.args[0])
    it = as_iter(E, c.args[1])
    strict = E.deref(c.args[2])
    modified = False
    while True:
        k = it.next(E)
        if k is None:
            break
        kv = E.deref(k)
        kt = key_term(E, kv)
        pres, old = map_lookup(E, m, kt, kv)
        if pres:
            m = map_set(m, kt, False, None, kv)
            modified = True
        elif (strict is True) or (not isinstance(strict, bool) and E.ctx.branch(strict)):
            E.store(c.args[0], m)
            return err(OpaqueV('AmtError'), c.dest_ty)
    E.store(c.args[0], m)
    return ok(modified, c.dest_ty)


@model('AmtImpl::count', 'Amt::count')
def _(E, c):
    m = map_of(E, c.args[0])
    return IntV(len(map_entries(E, m)), 'u64')


@model('AmtImpl::for_each', 'Amt::for_each', 'AmtImpl::for_each_while', 'AmtImpl::for_each_cacheless')
def _(E, c):
    m = map_of(E, c.args[0])
    ents = map_entries(E, m)
    ents = sort_by_int_key(E, ents)
    for (kt, val, kv) in ents:
        r = E.call_callable(c.args[1], [kv, RefV(Cell(val, 'v'), ())])
        n, rv = variant(E, r)
        if n == 'Err':
            return err(payload(E, rv, 'Err'), c.dest_ty)
        if c.callee.idents[-1] == 'for_each_while' and not E.ctx.branch(payload(E, rv, 'Ok')):
            break
    return ok(UNIT, c.dest_ty)


def sort_by_int_key(E, ents):
    out = []
    for e in ents:
        k = e[0][1]
        pos = len(out)
        while pos > 0:
            pk = out[pos - 1][0][1]
            lt = (k < pk) if not (is_sym(k) or is_sym(pk)) else E.ctx.branch(k < pk)
            if lt:
                pos -= 1
            else:
                break
        out.insert(pos, e)
    return out


# =======================================================================================
# Runtime

ACTOR_TYPES = {'System': 1, 'Init': 2, 'Cron': 3, 'Account': 4, 'Power': 5, 'Miner': 6, 'Market': 7, 'PaymentChannel': 8,
               'Multisig': 9, 'Reward': 10, 'VerifiedRegistry': 11, 'DataCap': 12, 'Placeholder': 13, 'EVM': 14,
               'EAM': 15, 'EthAccount': 16}


class SendRecord:
    __slots__ = ('to', 'method', 'params', 'value', 'flags', 'ok', 'exit_code', 'ret', 'gas_limit', 'state_before',
                 'balance_before', 'syscall_err')

    def __repr__(self):
        return 'Send(to=%r m=%r v=%r ok=%r)' % (self.to, self.method, self.value, self.ok)


class RuntimeM:
    """nondeterministic Runtime: every query returns an arbitrary value consistent with its contract."""

    def __init__(self, E, name='rt'):
        ctx = E.ctx
        self.name = name
        self.caller = _lazy_addr(E, 'Address', name + '.caller')
        ctx.assume(self.caller.proto == 0)      # the FVM always presents the immediate caller as an ID address
        self.receiver = _lazy_addr(E, 'Address', name + '.receiver')
        ctx.assume(self.receiver.proto == 0)
        self.origin = _lazy_addr(E, 'Address', name + '.origin')
        ctx.assume(self.origin.proto == 0)
        self.caller_type = z3.Int(name + '.caller_type')   # builtin actor Type of the caller, 0 = not a builtin
        ctx.assume(z3.And(self.caller_type >= 0, self.caller_type <= 16))
        self.value_received = z3.Int(name + '.value_received')
        ctx.assume(self.value_received >= 0)
        self.balance = z3.Int(name + '.balance')
        ctx.assume(self.balance >= self.value_received)     # the received value is already credited
        self.epoch = z3.Int(name + '.epoch')
        ctx.assume(z3.And(self.epoch >= 0, self.epoch < 2**62))
        self.nonce = z3.Int(name + '.nonce')
        self.state = None
        self.state_ty = None
        self.state_set = False
        self.sends = []
        self.validations = []
        self.events = []
        self.created = []
        self.deleted = False
        self.readonly = False
        self.in_tx = False
        self.commits = 0
        self.policy = None
        self.send_hook = None      # f(E, rt, rec) -> None | ('ok', retblock) | ('fail', code) | ('syserr', n)
        self.effects = []          # ordered log: ('validate',..) ('send', rec) ('commit',) ('create', ..) ('event',)
        self.funcs = {}
        self.prefix_mode = False   # C11: stop at the first externally visible effect
        self.rejected_by_validation = False

    def effect_point(self, what):
        # once the caller has been validated and accepted, nothing later can un-validate it: the C11 obligations stop
        # here.  An effect BEFORE validation (e.g. a query send that determines the allowed callers) is executed normally:
        # the VM reverts it if the call then aborts.
        if self.prefix_mode and self.validations and not self.rejected_by_validation:
            raise PathEnd('prefix', what)

    def ufunc(self, E, fname, kt, make):
        """uninterpreted, memoised environment function (forks on argument aliasing)"""
        tbl = self.funcs.setdefault(fname, [])
        for (k, v) in tbl:
            if E.ctx.branch(key_eq(k, kt)):
                return v
        v = make(len(tbl))
        tbl.append((kt, v))
        return v


def rt_of(E, v):
    t = E.deref(v)
    if isinstance(t, ObjV) and isinstance(t.obj, RuntimeM):
        return t.obj
    raise Inconclusive('expected Runtime, got %r' % (t,))


def actor_error(E, code, msg='model'):
    return StructV('ActorError', {0: exit_code(code), 1: OpaqueV('String', msg), 2: none()})


RT = 're:^<[^>]* as Runtime>::'


@model(RT + 'message$')
def _(E, c):
    return c.args[0]


@model('re:^<dyn MessageInfo as MessageInfo>::(caller|origin|receiver|value_received|nonce|gas_premium)$',
       're:^<.* as MessageInfo>::(caller|origin|receiver|value_received|nonce|gas_premium)$')
def _(E, c):
    rt = rt_of(E, c.args[0])
    m = c.callee.idents[-1]
    if m == 'caller':
        return rt.caller
    if m == 'origin':
        return rt.origin
    if m == 'receiver':
        return rt.receiver
    if m == 'value_received':
        return BigV(rt.value_received)
    if m == 'nonce':
        return IntV(rt.nonce, 'u64')
    return BigV(z3.Int(rt.name + '.gas_premium'))


@model(RT + 'curr_epoch$')
def _(E, c):
    return IntV(rt_of(E, c.args[0]).epoch, 'i64')


@model(RT + 'current_balance$')
def _(E, c):
    return BigV(rt_of(E, c.args[0]).balance)


@model(RT + 'network_version$')
def _(E, c):
    return OpaqueV('NetworkVersion')


@model(RT + 'chain_id$')
def _(E, c):
    return StructV('ChainID', {0: IntV(z3.Int('chain_id'), 'u64')})


@model(RT + 'read_only$')
def _(E, c):
    rt = rt_of(E, c.args[0])
    return rt.readonly


@model(RT + '(charge_gas)$')
def _(E, c):
    return UNIT


@model(RT + 'gas_available$')
def _(E, c):
    g = E.materialize('u64', 'rt.gas_available')
    # environment contract: the gas available to a message never exceeds the block gas limit (10^10 < 2^34);
    # the bound used here is 2^40
    if ('range', 'rt.gas_available.cap') not in E.ctx.memo:
        E.ctx.memo[('range', 'rt.gas_available.cap')] = True
        E.ctx.assume(g.v < 2**40)
    return g


@model(RT + '(base_fee|total_fil_circ_supply)$')
def _(E, c):
    n = 'rt.' + c.callee.idents[-1]
    v = z3.Int(n)
    E.ctx.assume(v >= 0)
    return BigV(v)


@model(RT + 'tipset_timestamp$')
def _(E, c):
    return E.materialize('u64', 'rt.tipset_timestamp')


@model(RT + 'store$')
def _(E, c):
    return RefV(Cell(OpaqueV('store'), 'store'), ())


@model(RT + 'policy$', 're:^<.* as RuntimePolicy>::policy$')
def _(E, c):
    rt = rt_of(E, c.args[0])
    if rt.policy is None:
        rt.policy = Cell(E.do_call(c.frame, '<Policy as Default>::default', [], 'Policy'), 'policy')
    return RefV(rt.policy, ())


def _validate(E, rt, accept, what):
    """common tail of validate_immediate_caller_*: one validation per invocation, then accept/forbid"""
    if rt.validations:
        rt.validations.append(('again', what))
        return err(actor_error(E, 24, 'caller already validated'))
    rt.validations.append((what, accept))
    rt.effects.append(('validate', what, accept))
    if E.ctx.branch(accept):
        if rt.prefix_mode:
            raise PathEnd('prefix', 'validated')     # C11: nothing later can un-validate the caller
        return ok(UNIT)
    rt.rejected_by_validation = True
    if rt.prefix_mode:
        raise PathEnd('prefix', 'rejected')
    return err(actor_error(E, 18, 'caller not allowed'))


@model(RT + 'validate_immediate_caller_accept_any$')
def _(E, c):
    return _validate(E, rt_of(E, c.args[0]), True, 'any')


@model(RT + 'validate_immediate_caller_is$')
def _(E, c):
    rt = rt_of(E, c.args[0])
    it = as_iter(E, c.args[1])
    acc = False
    addrs = []
    while True:
        x = it.next(E)
        if x is None:
            break
        a = addr(E, x)
        addrs.append(a)
        acc = b_or(acc, addr_eq(rt.caller, a))
    return _validate(E, rt, acc, ('is', addrs))


@model(RT + 'validate_immediate_caller_type$')
def _(E, c):
    rt = rt_of(E, c.args[0])
    it = as_iter(E, c.args[1])
    acc = False
    types = []
    while True:
        x = it.next(E)
        if x is None:
            break
        n, tv = variant(E, x)
        types.append(n)
        acc = b_or(acc, rt.caller_type == ACTOR_TYPES[n])
    return _validate(E, rt, acc, ('type', types))


@model(RT + 'validate_immediate_caller_namespace$')
def _(E, c):
    rt = rt_of(E, c.args[0])
    it = as_iter(E, c.args[1])
    acc = False
    ns = []
    cns = z3.Int(rt.name + '.caller_namespace')   # namespace (manager id) of the caller's delegated address, -1 = none
    while True:
        x = it.next(E)
        if x is None:
            break
        v = E.deref(x)
        ns.append(v)
        acc = b_or(acc, cns == v.v)
    return _validate(E, rt, acc, ('namespace', ns))


@model(RT + 'resolve_address$')
def _(E, c):
    rt = rt_of(E, c.args[0])
    a = addr(E, c.args[1])
    if E.ctx.branch(a.proto == 0):
        return some(IntV(a.key, 'u64'), c.dest_ty)

    def make(n):
        nm = '%s.resolve[%d]' % (rt.name, n)
        if E.ctx.branch(z3.Bool(nm + '.some')):
            return some(E.materialize('u64', nm + '.id'))
        return none()
    return rt.ufunc(E, 'resolve', ('addr', a.proto, a.key), make)


@model(RT + 'lookup_delegated_address$')
def _(E, c):
    rt = rt_of(E, c.args[0])
    i = E.deref(c.args[1])

    def make(n):
        nm = '%s.delegated[%d]' % (rt.name, n)
        if E.ctx.branch(z3.Bool(nm + '.some')):
            a = _lazy_addr(E, 'Address', nm)
            E.ctx.assume(a.proto == 4)
            return some(a)
        return none()
    return rt.ufunc(E, 'delegated', ('int', i.v), make)


@model(RT + 'get_actor_code_cid$')
def _(E, c):
    rt = rt_of(E, c.args[0])
    i = E.deref(c.args[1])

    def make(n):
        nm = '%s.code[%d]' % (rt.name, n)
        if E.ctx.branch(z3.Bool(nm + '.some')):
            return some(_lazy_cid(E, 'Cid', nm))
        return none()
    return rt.ufunc(E, 'code', ('int', i.v), make)


@model(RT + 'resolve_builtin_actor_type$')
def _(E, c):
    rt = rt_of(E, c.args[0])
    cid = cid_of(E, c.args[1])

    def make(n):
        nm = '%s.type[%d]' % (rt.name, n)
        if E.ctx.branch(z3.Bool(nm + '.some')):
            t = z3.Int(nm + '.t')
            E.ctx.assume(z3.And(t >= 1, t <= 16))
            return some(EnumV('Type', t, None))
        return none()
    return rt.ufunc(E, 'type', ('cid', cid.term), make)


@model(RT + 'get_code_cid_for_type$')
def _(E, c):
    rt = rt_of(E, c.args[0])
    n, tv = variant(E, c.args[1])
    return CidV(z3.IntVal(-ACTOR_TYPES[n]), ('code', n))


@model(RT + 'actor_balance$')
def _(E, c):
    rt = rt_of(E, c.args[0])
    i = E.deref(c.args[1])

    def make(n):
        nm = '%s.actor_balance[%d]' % (rt.name, n)
        if E.ctx.branch(z3.Bool(nm + '.some')):
            v = z3.Int(nm)
            E.ctx.assume(v >= 0)
            return some(BigV(v))
        return none()
    return rt.ufunc(E, 'actor_balance', ('int', i.v), make)


@model(RT + 'new_actor_address$')
def _(E, c):
    a = _lazy_addr(E, 'Address', E.ctx.fresh_name('rt.new_actor_address'))
    E.ctx.assume(a.proto == 2)
    return ok(a, c.dest_ty)


@model(RT + 'create_actor$')
def _(E, c):
    rt = rt_of(E, c.args[0])
    rt.effect_point('create_actor')
    rec = ('create_actor', cid_of(E, c.args[1]), E.deref(c.args[2]), E.deref(c.args[3]) if len(c.args) > 3 else None)
    rt.created.append(rec)
    rt.effects.append(rec)
    return ok(UNIT, c.dest_ty)


@model(RT + 'delete_actor$')
def _(E, c):
    rt = rt_of(E, c.args[0])
    rt.effect_point('delete_actor')
    rt.deleted = True
    rt.effects.append(('delete_actor',))
    return ok(UNIT, c.dest_ty)


@model(RT + 'emit_event$')
def _(E, c):
    rt = rt_of(E, c.args[0])
    rt.effect_point('emit_event')
    rt.events.append(E.deref(c.args[1]))
    rt.effects.append(('event',))
    return ok(UNIT, c.dest_ty)


@model(RT + '(get_randomness_from_tickets|get_randomness_from_beacon|get_beacon_randomness)$')
def _(E, c):
    nm = E.ctx.fresh_name('rt.randomness')
    return ok(VecV([E.materialize('u8', '%s[%d]' % (nm, i)) for i in range(32)], '[u8; 32]'), c.dest_ty)


@model(RT + 'tipset_cid$')
def _(E, c):
    return ok(_lazy_cid(E, 'Cid', E.ctx.fresh_name('rt.tipset_cid')), c.dest_ty)


# --- state
def state_lazy_name(rt):
    return 'st'


@model(RT + 'state$')
def _(E, c):
    rt = rt_of(E, c.args[0])
    T = c.generics[0] if c.generics else type_args(c.dest_ty)[0]
    if rt.state is None:
        rt.state = LazyV(state_lazy_name(rt), T)
        rt.state_ty = T
    return ok(rt.state, c.dest_ty)


@model(RT + 'create$')
def _(E, c):
    rt = rt_of(E, c.args[0])
    rt.effect_point('create_state')
    rt.state = E.deref(c.args[1])
    rt.state_set = True
    rt.commits += 1
    rt.effects.append(('create_state',))
    return ok(UNIT, c.dest_ty)


@model(RT + 'transaction$')
def _(E, c):
    rt = rt_of(E, c.args[0])
    g = c.generics
    S = g[0] if g else None
    if rt.in_tx:
        return err(actor_error(E, 24, 'nested transaction'), c.dest_ty)
    if rt.state is None:
        rt.state = LazyV(state_lazy_name(rt), S)
        rt.state_ty = S
    cell = Cell(rt.state, 'txstate')
    rt.in_tx = True
    try:
        r = E.call_callable(c.args[1], [RefV(cell, (), True), c.args[0]])
    finally:
        rt.in_tx = False
    n, rv = variant(E, r)
    if n == 'Ok':
        rt.effect_point('commit')
        rt.state = cell.value
        rt.commits += 1
        rt.effects.append(('commit',))
    return rv


@model(RT + 'get_state_root$')
def _(E, c):
    rt = rt_of(E, c.args[0])
    cid = rt.funcs.get('state_root')
    if cid is None:
        cid = _lazy_cid(E, 'Cid', rt.name + '.state_root')
        rt.funcs['state_root'] = cid
    return ok(cid, c.dest_ty)


@model(RT + 'set_state_root$')
def _(E, c):
    rt = rt_of(E, c.args[0])
    rt.effect_point('set_state_root')
    rt.funcs['state_root'] = cid_of(E, c.args[1])
    rt.commits += 1
    rt.effects.append(('set_state_root', rt.funcs['state_root']))
    return ok(UNIT, c.dest_ty)


# --- send
@model(RT + 'send$')
def _(E, c):
    rt = rt_of(E, c.args[0])
    rt.effect_point('send')
    rec = SendRecord()
    rec.to = addr(E, c.args[1])
    rec.method = E.deref(c.args[2])
    p = E.deref(c.args[3])
    pn, pv = variant(E, p)
    rec.params = payload(E, pv, 'Some') if pn == 'Some' else None
    rec.value = big(E, c.args[4])
    rec.gas_limit = E.deref(c.args[5])
    rec.flags = E.deref(c.args[6])
    rec.state_before = rt.state
    rec.balance_before = rt.balance
    rec.ok = False
    rec.exit_code = None
    rec.ret = None
    rec.syscall_err = None
    idx = len(rt.sends)
    rt.sends.append(rec)
    rt.effects.append(('send', rec))
    nm = '%s.send[%d]' % (rt.name, idx)
    if rt.in_tx:
        rec.syscall_err = 'in_tx'
        return err(StructV('SendError', {0: mk_enum('ErrorNumber', 'ErrorNumber', 'IllegalOperation')}), c.dest_ty)
    # value transfer needs funds
    if E.ctx.branch(rec.value > rt.balance):
        rec.syscall_err = 'InsufficientFunds'
        return err(StructV('SendError', {0: mk_enum('ErrorNumber', 'ErrorNumber', 'InsufficientFunds')}), c.dest_ty)
    if is_sym(rec.value) or rec.value != 0:
        if E.ctx.branch(rec.value < 0):
            rec.syscall_err = 'negative value'
            return err(StructV('SendError', {0: mk_enum('ErrorNumber', 'ErrorNumber', 'IllegalArgument')}), c.dest_ty)
    decided = None
    if rt.send_hook is not None:
        decided = rt.send_hook(E, rt, rec, nm)
    if decided is None:
        ch = E.ctx.choose(3, nm)
        decided = ('ok', None) if ch == 0 else (('fail', None) if ch == 1 else ('syserr', None))
    kind, arg = decided
    if kind == 'ok':
        rec.ok = True
        rec.exit_code = 0
        selfsend = addr_eq(rec.to, rt.receiver)
        if not E.ctx.branch(selfsend):
            rt.balance = rt.balance - rec.value
        ret = arg if arg is not None else LazyV(nm + '.ret', 'std::option::Option<IpldBlock>')
        rec.ret = ret
        return ok(StructV('Response', {0: exit_code(0), 1: ret}), c.dest_ty)
    if kind == 'fail':
        code = arg
        if code is None:
            code = z3.Int(nm + '.exit_code')
            E.ctx.assume(z3.And(code >= 1, code < 2**31))
        rec.exit_code = code
        ret = LazyV(nm + '.errret', 'std::option::Option<IpldBlock>')
        return ok(StructV('Response', {0: StructV('ExitCode', {0: IntV(code, 'u32')}), 1: ret}), c.dest_ty)
    rec.syscall_err = 'syserr'
    if E.ctx.env.get('errno_all'):
        en = LazyV(nm + '.errno', 'ErrorNumber')       # every syscall error number (forks once per variant)
    else:
        # one representative syscall error; InsufficientFunds is produced by the balance check above.  The mapping of the
        # other error numbers to exit codes (extract_send_result) does not influence any property clause.
        en = mk_enum('ErrorNumber', 'ErrorNumber', 'NotFound')
    return err(StructV('SendError', {0: en}), c.dest_ty)


def _lazy_type_enum(E, ty, name):
    t = z3.Int(name + '#tag')
    key = ('tagrange', name)
    if key not in E.ctx.memo:
        E.ctx.memo[key] = True
        E.ctx.assume(z3.And(t >= 1, t <= 16))
    return EnumV('Type', t, None, {}, lazy=name)


# hash functions: uninterpreted, deterministic per argument identity
@model('re:^<.* as Primitives>::(hash_blake2b|hash|hash_64)$', RT + '(hash_blake2b|hash|hash_64)$')
def _(E, c):
    rt = rt_of(E, c.args[0])
    data = E.deref(c.args[-1])
    key = ('hash', c.callee.idents[-1], repr(data))
    v = E.ctx.memo.get(key)
    if v is None:
        nm = E.ctx.fresh_name('hash')
        n = 32 if c.callee.idents[-1] != 'hash_64' else 64
        v = SymBytes(nm)
        E.ctx.assume(_symbytes_len(E, v).v == n)
        E.ctx.memo[key] = v
    return v


@model('re:^<.* as Primitives>::verify_', RT + 'verify_')
def _(E, c):
    nm = E.ctx.fresh_name('rt.' + c.callee.idents[-1])
    if c.callee.idents[-1] == 'verify_consensus_fault':
        ch = E.ctx.choose(3, nm)
        if ch == 0:
            cf = LazyV(nm + '.fault', 'fvm_shared::consensus::ConsensusFault')
            tgt = E.materialize('fvm_shared::address::Address', nm + '.fault.0')
            E.ctx.assume(tgt.proto == 0)       # documented: always an ID address
            fe = E.materialize('i64', nm + '.fault.1')
            E.ctx.assume(fe.v >= 0)            # the fault epoch is the height of a block
            return ok(some(cf), c.dest_ty)
        if ch == 1:
            return ok(none(), c.dest_ty)
        return err(OpaqueV('anyhow'), c.dest_ty)
    if E.ctx.branch(z3.Bool(nm)):
        return ok(UNIT, c.dest_ty) if type_head(c.dest_ty or '') == 'Result' else True
    return err(OpaqueV('anyhow'), c.dest_ty) if type_head(c.dest_ty or '') == 'Result' else False


@model('re:^anyhow::', 're:^<anyhow::Error as ', 're:^Error::msg$', 're:^<Error as From>::from$', 're:^anyhow$',
       're:^format_err$', 're:^__anyhow$', 're:^<anyhow::Error>::', 're:^<impl anyhow::Error>::', 're:^__private::format_err$',
       're:^<Error>::(downcast|downcast_ref|msg|new|context|is)$')
def _(E, c):
    """anyhow::Error = an opaque error that may wrap a typed error (the ActorError case matters: its exit code
    survives `.into()` / `downcast_default`)"""
    m = c.callee.idents[-1] if c.callee.idents else ''
    if m == 'from' and c.args:
        v = E.deref(c.args[0])
        return OpaqueV('anyhow', v if isinstance(v, (StructV, LazyV)) else None)
    if m in ('downcast', 'downcast_ref', 'downcast_mut'):
        v = E.deref(c.args[0])
        T = c.generics[0] if c.generics else ''
        inner = v.payload if isinstance(v, OpaqueV) else None
        if inner is not None and type_head(getattr(inner, 'ty', '') or '') == type_head(T):
            if m == 'downcast':
                return ok(inner, c.dest_ty)
            return some(RefV(Cell(inner, 'anyhow_inner'), ()), c.dest_ty)
        return err(v, c.dest_ty) if m == 'downcast' else none(c.dest_ty)
    if m == 'is':
        v = E.deref(c.args[0])
        T = c.generics[0] if c.generics else ''
        inner = v.payload if isinstance(v, OpaqueV) else None
        return inner is not None and type_head(getattr(inner, 'ty', '') or '') == type_head(T)
    if m in ('context', 'with_context'):
        return c.args[0]
    return OpaqueV('anyhow')


for _k in ('Trait', 'Adhoc', 'Boxed'):
    EXTERNAL_CONSTS['anyhow::kind::' + _k] = OpaqueV('anyhow_kind')
    EXTERNAL_CONSTS['kind::' + _k] = OpaqueV('anyhow_kind')


@model('re:^<.* as TraitKind>::anyhow_kind$', 're:^<.* as AdhocKind>::anyhow_kind$', 're:^<.* as BoxedKind>::anyhow_kind$')
def _(E, c):
    return OpaqueV('anyhow_kind')


@model('re:^(anyhow::)?kind::(Trait|Adhoc|Boxed)::new$', 're:^Trait::new$', 're:^Adhoc::new$', 're:^Boxed::new$')
def _(E, c):
    """anyhow!(err) on a typed error: an anyhow error wrapping it (downcast recovers it)"""
    v = E.deref(c.args[-1])
    return OpaqueV('anyhow', v if isinstance(v, (StructV, LazyV)) else None)


@model('re:^<(Option|Result) as Context>::(context|with_context)$')
def _(E, c):
    """anyhow::Context: Option -> Result<_, anyhow::Error>; Result keeps its value, the error becomes an anyhow error"""
    n, v = variant(E, c.args[0])
    if n in ('Some', 'Ok'):
        return ok(payload(E, v, n), c.dest_ty)
    if n == 'Err':
        inner = E.deref(payload(E, v, 'Err'))
        return err(inner if isinstance(inner, OpaqueV) and inner.kind == 'anyhow' else OpaqueV('anyhow', inner if isinstance(inner, (StructV, LazyV)) else None), c.dest_ty)
    return err(OpaqueV('anyhow'), c.dest_ty)


# =======================================================================================
# byte strings of unknown content / length (only measured, compared, hashed or forwarded)

class SymBytes:
    __slots__ = ('name',)

    def __init__(self, name):
        self.name = name

    def __repr__(self):
        return 'Bytes(%s)' % self.name


def _symbytes_len(E, b):
    n = z3.Int(b.name + '#len')
    key = ('range', b.name + '#len')
    if key not in E.ctx.memo:
        E.ctx.memo[key] = True
        E.ctx.assume(z3.And(n >= 0, n < 2**32))
    return IntV(n, 'usize')


def _lazy_vec(E, ty, name):
    a = type_args(ty)
    if a and a[0].strip() == 'u8':
        return SymBytes(name)
    lens = E.ctx.env.get('lazy_vec_lens')
    if lens and a:
        # obligation-declared bound: unknown vectors take one of the listed lengths (all explored)
        n = lens[E.ctx.choose(len(lens), 'len(%s)' % name)]
        return VecV([E.materialize(a[0].strip(), '%s[%d]' % (name, i)) for i in range(n)], ty)
    return LazyV(name, ty)


LAZY_TYPES['Vec'] = _lazy_vec
VEC_LEN[SymBytes] = _symbytes_len
SPECIAL_LEN[SymBytes] = _symbytes_len


def _symbytes_eq(E, a, b):
    if a.name == b.name:
        return True
    k = ('byteseq',) + tuple(sorted((a.name, b.name)))
    v = E.ctx.memo.get(k)
    if v is None:
        v = z3.Bool('eq(%s,%s)' % k[1:])
        E.ctx.memo[k] = v
        E.ctx.assume(z3.Implies(v, _symbytes_len(E, a).v == _symbytes_len(E, b).v))
    return v


DEEP_EQ[SymBytes] = _symbytes_eq
_old_key_term = key_term


def key_term(E, v):  # noqa: F811
    t = E.deref(v)
    if isinstance(t, SymBytes):
        return ('block', z3.Int(t.name + '#key'))
    return _old_key_term(E, v)


_old_block_of = block_of


def block_of(E, v):  # noqa: F811
    t = E.deref(v)
    if isinstance(t, SymBytes):
        return BlockV(None, t.name)
    return _old_block_of(E, v)

from .engine import VALUE_TYPES
VALUE_TYPES[BigV] = 'BigInt'
VALUE_TYPES[AddrV] = 'Address'
VALUE_TYPES[CidV] = 'Cid'
VALUE_TYPES[BlockV] = 'IpldBlock'
VALUE_TYPES[SymBytes] = 'Vec<u8>'
VALUE_TYPES[MapM] = 'Map'


def _from_rawbytes_option(E, v, src, dst):
    if src is None or type_head(src) != 'RawBytes':
        return None
    b = block_of(E, v)
    if b.obj is UNIT:
        return none(dst)
    if b.obj is not None:
        return some(b, dst)
    n = z3.Int((b.name or 'blk') + '#len')
    key = ('range', (b.name or 'blk') + '#len')
    if key not in E.ctx.memo:
        E.ctx.memo[key] = True
        E.ctx.assume(z3.And(n >= 0, n < 2**32))
    if E.ctx.branch(n == 0):
        return none(dst)
    return some(b, dst)


FROM_MODELS['Option'] = _from_rawbytes_option


# Map2 keys: MapKey::to_bytes / from_bytes are inverse encodings; the byte string carries the key value itself
@model('re:^<.* as MapKey>::to_bytes$')
def _(E, c):
    return ok(OpaqueV('bytes', E.deref(c.args[0])), c.dest_ty)


@model('re:^<.* as MapKey>::from_bytes$')
def _(E, c):
    v = E.deref(c.args[0])
    if isinstance(v, StructV) and len(v.fields) == 1:
        v = E.deref(v.fields[0])
    if isinstance(v, OpaqueV) and v.kind == 'bytes' and v.payload is not None:
        return ok(v.payload, c.dest_ty)
    raise Inconclusive('MapKey::from_bytes of %r' % (v,))


def _map_iter(E, m):
    out = []
    ents = map_entries(E, m)
    if m.kind == 'amt':
        ents = sort_by_int_key(E, ents)
    for (kt, val, kv) in ents:
        if kv is None:
            raise Inconclusive('iteration over a map entry without a key value')
        k = kv if m.kind == 'amt' else RefV(Cell(OpaqueV('bytes', kv), 'k'), ())
        out.append(ok(StructV('tuple', {0: k, 1: RefV(Cell(val, 'v'), ())})))
    return ListIter(out)


AS_ITER[MapM] = _map_iter


@model('Hamt::iter', 'HamtImpl::iter', 'Kamt::iter', 'AmtImpl::iter', 'Amt::iter')
def _(E, c):
    return iter_obj(_map_iter(E, map_of(E, c.args[0])))


# =======================================================================================
# RegisteredSealProof / RegisteredPoStProof <-> i64 (tables read from fvm_shared's i64_conversion! blocks)

import functools
import glob
import os


@functools.lru_cache(maxsize=None)
def _proof_tables():
    out = {}
    for p in glob.glob(os.path.expanduser('~/.cargo/registry/src/*/fvm_shared-4.8.2/src/sector/registered_proof.rs')):
        src = open(p).read()
        for m in re.finditer(r'i64_conversion!\s*\{\s*(\w+);(.*?)\n\}', src, re.S):
            tbl = {}
            for mm in re.finditer(r'(\w+)\s*=>\s*(\d+)\s*,', m.group(2)):
                tbl[mm.group(1)] = int(mm.group(2))
            out[m.group(1)] = tbl
    return out


@model('re:^<i64 as From>::from$')
def _(E, c):
    mm = re.search(r'From<(?:.*::)?(RegisteredSealProof|RegisteredPoStProof|RegisteredAggregateProof|RegisteredUpdateProof)>', c.callee.trait_full or '')
    if not mm:
        return NotImplemented
    tbl = _proof_tables().get(mm.group(1))
    if tbl is None:
        raise Inconclusive('no i64 table for %s' % mm.group(1))
    n, v = variant(E, c.args[0])
    if n == 'Invalid':
        return payload(E, v, 'Invalid', 0, 'i64')
    return IntV(tbl[n], 'i64')


@model('re:^<(RegisteredSealProof|RegisteredPoStProof|RegisteredAggregateProof|RegisteredUpdateProof) as From>::from$')
def _(E, c):
    h = type_head(c.callee.qself)
    tbl = _proof_tables().get(h)
    x = E.deref(c.args[0])
    if not isinstance(x, IntV) or tbl is None:
        return NotImplemented
    for name, val in tbl.items():
        if E.ctx.branch(x.v == val):
            return mk_enum(h, h, name)
    return mk_enum(h, h, 'Invalid', [x])


# =======================================================================================
# BitField: only emptiness / cardinality are observed by the money-moving code paths modelled here

class BitFieldV:
    __slots__ = ('name',)

    def __init__(self, name):
        self.name = name

    def __repr__(self):
        return 'BitField(%s)' % self.name


def bitfield_empty(E, v):
    v = E.deref(v)
    if isinstance(v, LazyV):
        v = E.materialize(v.ty, v.name)
    if isinstance(v, BitSetV):
        return len(v.bits) == 0
    if isinstance(v, BitFieldV):
        return z3.Int(v.name + '#card') == 0
    raise Inconclusive('expected BitField, got %r' % (v,))


def _lazy_bitfield(E, ty, name):
    n = z3.Int(name + '#card')
    key = ('range', name + '#card')
    if key not in E.ctx.memo:
        E.ctx.memo[key] = True
        E.ctx.assume(n >= 0)
    return BitFieldV(name)


LAZY_TYPES['BitField'] = _lazy_bitfield
VALUE_TYPES[BitFieldV] = 'BitField'


@model('BitField::is_empty')
def _(E, c):
    return bitfield_empty(E, c.args[0])


@model('BitField::len')
def _(E, c):
    v = E.deref(c.args[0])
    if isinstance(v, LazyV):
        v = E.materialize(v.ty, v.name)
    if isinstance(v, BitSetV):
        return IntV(len(v.bits), 'u64')
    return IntV(z3.Int(v.name + '#card'), 'u64')


def _bf(E, v):
    v = E.deref(v)
    if isinstance(v, LazyV):
        v = E.materialize(v.ty, v.name)
    return v


def _card(v):
    return z3.Int(v.name + '#card')


@model('BitField::slice')
def _(E, c):
    """cardinality model: the first `len` set bits after skipping `start`: a subset of the source with exactly len bits,
    an error when the source has fewer than start + len bits"""
    v = _bf(E, c.args[0])
    if not isinstance(v, BitFieldV):
        return NotImplemented
    start, ln = E.deref(c.args[1]).v, E.deref(c.args[2]).v
    if E.ctx.branch(start + ln > _card(v)):
        return err(OpaqueV('BitFieldError'), c.dest_ty)
    nm = E.ctx.fresh_name('bf_slice')
    E.ctx.assume(z3.Int(nm + '#card') == ln)
    E.ctx.memo[('subset', nm, v.name)] = True
    return ok(BitFieldV(nm), c.dest_ty)


@model('re:^<&?BitField as Sub(<&?BitField>)?>::sub$', 're:^<BitField as SubAssign(<&?BitField>)?>::sub_assign$')
def _(E, c):
    a, b = _bf(E, c.args[0]), _bf(E, c.args[1])
    if not (isinstance(a, BitFieldV) and isinstance(b, BitFieldV)):
        return NotImplemented
    nm = E.ctx.fresh_name('bf_sub')
    n = z3.Int(nm + '#card')
    if E.ctx.memo.get(('subset', b.name, a.name)):
        E.ctx.assume(n == _card(a) - _card(b))
    else:
        E.ctx.assume(z3.And(n >= 0, n <= _card(a), n >= _card(a) - _card(b)))
    E.ctx.memo[('subset', nm, a.name)] = True
    r = BitFieldV(nm)
    if c.callee.idents[-1] == 'sub_assign':
        E.store(c.args[0], r)
        return UNIT
    return r


@model('BitField::new_symbolic_unused')
def _(E, c):
    nm = E.ctx.fresh_name('bf_new')
    E.ctx.assume(z3.Int(nm + '#card') == 0)
    return BitFieldV(nm)


@model('<str>::parse', 'str::parse')
def _(E, c):
    """"literal".parse::<BigInt>() / parse::<integer>()"""
    T = (c.callee.generics[-1][0] if c.callee.generics and c.callee.generics[-1] else '').strip()
    v = E.deref(c.args[0])
    if not isinstance(v, StrV):
        return NotImplemented
    if type_head(T) in ('BigInt', 'BigUint') or T in INT_TYPES:
        try:
            n = int(v.s.replace('_', ''))
        except ValueError:
            return err(OpaqueV('ParseError'), c.dest_ty)
        return ok(BigV(n) if type_head(T) in ('BigInt', 'BigUint') else IntV(n, T), c.dest_ty)
    return NotImplemented


@model('re:^<(BigInt|BigUint) as FromStr>::from_str$', 'BigInt::parse_bytes', 're:^<(BigInt|BigUint) as Num>::from_str_radix$')
def _(E, c):
    v = E.deref(c.args[0])
    if isinstance(v, StrV):
        try:
            n = int(v.s.replace('_', ''), 10 if len(c.args) == 1 else E.deref(c.args[1]).v)
            return ok(BigV(n), c.dest_ty) if type_head(c.dest_ty or 'Result') == 'Result' else some(BigV(n), c.dest_ty)
        except ValueError:
            return err(OpaqueV('ParseBigIntError'), c.dest_ty)
    raise Inconclusive('BigInt::from_str of non-literal')


@model('re:^<&?BitField as Validate>::validate$', 're:^<UnvalidatedBitField as Validate>::validate$', 'UnvalidatedBitField::validate',
       're:^<.* as Validate>::validate$')
def _(E, c):
    nm = E.ctx.fresh_name('bf_validate')
    if E.ctx.branch(z3.Bool(nm + '.ok')):
        v = c.args[0]
        return ok(v if isinstance(v, RefV) else RefV(Cell(v, 'bf'), ()), c.dest_ty)
    return err(OpaqueV('BitFieldError'), c.dest_ty)


@model('BitField::get')
def _(E, c):
    v = E.deref(c.args[0])
    if isinstance(v, LazyV):
        v = E.materialize(v.ty, v.name)
    k = E.deref(c.args[1])
    if isinstance(v, BitSetV):
        return _bs_has(E, v, k.v)
    tbl = E.ctx.memo.setdefault(('bfbits', v.name), [])
    for (kt, b) in tbl:
        if E.ctx.branch(kt == k.v):
            return b
    b = z3.Bool('%s.bit[%d]' % (v.name, len(tbl)))
    tbl.append((k.v, b))
    E.ctx.assume(z3.Implies(b, z3.Int(v.name + '#card') >= 1))
    return b


def _opaque_field(E, v, idx, fty):
    if v.kind == 'bytes' and idx == 0:
        return v          # BytesKey(Vec<u8>) and similar byte newtypes collapse onto the byte string
    raise Inconclusive('field %d of %r' % (idx, v))


SPECIAL_FIELD[OpaqueV] = _opaque_field


# =======================================================================================
# MapMap<BS, V, K1, K2> (runtime/src/util/mapmap.rs, a two-level HAMT with an inner-map cache) modelled as ONE flat map
# keyed by the pair (k1, k2).  Declared cut: the wrapper's caching/flush logic is trusted; actor code above it is executed.

def _mm_vty(c):
    gens = c.callee.generics
    for i, name in enumerate(c.callee.idents):
        if name == 'MapMap' and gens[i]:
            g = [x for x in gens[i] if not x.startswith("'")]
            return g[1] if len(g) > 1 else None
    q = c.callee.qself
    if q and type_head(q) == 'MapMap':
        a = [x for x in type_args(q) if not x.startswith("'")]
        return a[1] if len(a) > 1 else None
    return None


def _mm_key(E, k1, k2):
    return ('pair',) + key_term(E, k1)[1:] + key_term(E, k2)[1:]


@model('MapMap::new')
def _(E, c):
    return MapM(None, (), _mm_vty(c), 'mapmap')


@model('MapMap::from_root')
def _(E, c):
    cid = cid_of(E, c.args[1])
    m = load_map(E, cid, _mm_vty(c), 'mapmap')
    return ok(m, c.dest_ty)


@model('MapMap::flush')
def _(E, c):
    return ok(new_cid(E, map_of(E, c.args[0]), 'mmroot'), c.dest_ty)


@model('MapMap::get')
def _(E, c):
    m = map_of(E, c.args[0])
    kv = StructV('tuple', {0: E.deref(c.args[1]), 1: E.deref(c.args[2])})
    pres, val = map_lookup(E, m, _mm_key(E, c.args[1], c.args[2]), kv)
    return ok(some(RefV(Cell(val, 'mmval'), ())) if pres else none(), c.dest_ty)


@model('MapMap::put', 'MapMap::put_if_absent')
def _(E, c):
    m = map_of(E, c.args[0])
    kv = StructV('tuple', {0: E.deref(c.args[1]), 1: E.deref(c.args[2])})
    kt = _mm_key(E, c.args[1], c.args[2])
    pres, old = map_lookup(E, m, kt, kv)
    if c.callee.idents[-1] == 'put_if_absent':
        if pres:
            return ok(False, c.dest_ty)
        E.store(c.args[0], map_set(m, kt, True, c.args[3], kv))
        return ok(True, c.dest_ty)
    E.store(c.args[0], map_set(m, kt, True, c.args[3], kv))
    return ok(some(old) if pres else none(), c.dest_ty)


@model('MapMap::put_many')
def _(E, c):
    m = map_of(E, c.args[0])
    it = as_iter(E, c.args[2])
    while True:
        x = it.next(E)
        if x is None:
            break
        x = E.deref(x)
        kv = StructV('tuple', {0: E.deref(c.args[1]), 1: E.deref(x.fields[0])})
        m = map_set(m, _mm_key(E, c.args[1], x.fields[0]), True, x.fields[1], kv)
    E.store(c.args[0], m)
    return ok(UNIT, c.dest_ty)


@model('MapMap::remove')
def _(E, c):
    m = map_of(E, c.args[0])
    kv = StructV('tuple', {0: E.deref(c.args[1]), 1: E.deref(c.args[2])})
    kt = _mm_key(E, c.args[1], c.args[2])
    pres, old = map_lookup(E, m, kt, kv)
    if not pres:
        return ok(none(), c.dest_ty)
    E.store(c.args[0], map_set(m, kt, False, None, kv))
    return ok(some(old), c.dest_ty)


@model('MapMap::for_each_in')
def _(E, c):
    m = map_of(E, c.args[0])
    k1 = key_term(E, c.args[1])[1:]
    for (kt, val, kv) in map_entries(E, m):
        if E.ctx.branch(key_eq(('x',) + tuple(kt[1:1 + len(k1)]), ('x',) + tuple(k1))):
            inner = E.deref(kv.fields[1]) if kv is not None else None
            r = E.call_callable(c.args[2], [RefV(Cell(OpaqueV('bytes', inner), 'k'), ()), RefV(Cell(val, 'v'), ())])
            n, rv = variant(E, r)
            if n == 'Err':
                return err(payload(E, rv, 'Err'), c.dest_ty)
    return ok(UNIT, c.dest_ty)


# content-addressed ids of serialised objects (market deal cid): a function of the object identity — the same object
# (same symbolic name) gets the same cid, different objects get different cids (collision resistance)
@model('serialized_deal_cid')
def _(E, c):
    b = block_of(E, c.args[1])
    obj = b.obj
    key = obj.name if isinstance(obj, LazyV) else (obj.lazy if isinstance(obj, StructV) and obj.lazy else repr(obj))
    tbl = E.ctx.memo.setdefault(('content_cids',), {})
    if key not in tbl:
        nm = E.ctx.fresh_name('contentcid')
        cid = CidV(z3.Int(nm + '#cid'), ('content', key))
        for other in tbl.values():
            E.ctx.assume(other.term != cid.term)
        tbl[key] = cid
    return ok(tbl[key], c.dest_ty)


# explicitly built bit fields (BitField::new() + set ...): finite sets of integers
class BitSetV:
    __slots__ = ('bits',)

    def __init__(self, bits=()):
        self.bits = tuple(bits)

    def __repr__(self):
        return 'BitSet%r' % (self.bits,)


VALUE_TYPES[BitSetV] = 'BitField'


def _bitset(E, v):
    t = E.deref(v)
    if isinstance(t, LazyV):
        t = E.materialize(t.ty, t.name)
    return t


def _bs_has(E, bs, x):
    for b in bs.bits:
        eq = (b == x)
        if (eq if isinstance(eq, bool) else E.ctx.branch(eq)):
            return True
    return False


@model('BitField::new', 're:^<BitField as Default>::default$')
def _(E, c):
    return BitSetV(())


@model('BitField::set', 'BitField::unset')
def _(E, c):
    bs = _bitset(E, c.args[0])
    x = E.deref(c.args[1]).v
    if not isinstance(bs, BitSetV):
        raise Inconclusive('BitField::set on a symbolic bit field')
    if c.callee.idents[-1] == 'set':
        if not _bs_has(E, bs, x):
            E.store(c.args[0], BitSetV(bs.bits + (x,)))
    else:
        keep = []
        for b in bs.bits:
            eq = (b == x)
            if not (eq if isinstance(eq, bool) else E.ctx.branch(eq)):
                keep.append(b)
        E.store(c.args[0], BitSetV(keep))
    return UNIT




def _bs_iter(E, bs):
    items = list(bs.bits)
    out = []
    for x in items:
        pos = len(out)
        while pos > 0:
            lt = (x < out[pos - 1])
            if (lt if isinstance(lt, bool) else E.ctx.branch(lt)):
                pos -= 1
            else:
                break
        out.insert(pos, x)
    return ListIter([IntV(x, 'u64') for x in out])


@model('re:^<&?BitField as BitOr(<&?BitField>)?>::bitor$', 're:^<BitField as BitOrAssign(<&?BitField>)?>::bitor_assign$')
def _(E, c):
    a, b = _bitset(E, c.args[0]), _bitset(E, c.args[1])
    if isinstance(a, BitSetV) and isinstance(b, BitSetV):
        bits = list(a.bits)
        cur = BitSetV(bits)
        for x in b.bits:
            if not _bs_has(E, cur, x):
                bits.append(x)
                cur = BitSetV(bits)
        r = cur
    elif isinstance(a, (BitFieldV, BitSetV)) and isinstance(b, (BitFieldV, BitSetV)):
        nm = E.ctx.fresh_name('bf_or')
        n = z3.Int(nm + '#card')
        card = lambda x: z3.Int(x.name + '#card') if isinstance(x, BitFieldV) else len(x.bits)
        ca, cb = card(a), card(b)
        E.ctx.assume(z3.And(n >= ca, n >= cb, n <= ca + cb))
        r = BitFieldV(nm)
    else:
        return NotImplemented
    if c.callee.idents[-1] == 'bitor_assign':
        E.store(c.args[0], r)
        return UNIT
    return r


@model('BitField::last', 'BitField::first')
def _(E, c):
    """largest / smallest set bit: an arbitrary number for a non-empty symbolic field, an error for an empty one"""
    v = _bitset(E, c.args[0])
    m = c.callee.idents[-1]
    if isinstance(v, BitSetV):
        if not v.bits:
            return none(c.dest_ty) if type_head(c.dest_ty or '') == 'Option' else err(OpaqueV('BitFieldError'), c.dest_ty)
        out = v.bits[0]
        for x in v.bits[1:]:
            out = z3.If(x > out, x, out) if m == 'last' else z3.If(x < out, x, out)
        r = IntV(out, 'u64')
    else:
        if E.ctx.branch(z3.Int(v.name + '#card') == 0):
            return none(c.dest_ty) if type_head(c.dest_ty or '') == 'Option' else err(OpaqueV('BitFieldError'), c.dest_ty)
        r = E.materialize('u64', '%s.%s' % (v.name, m))
    return some(r, c.dest_ty) if type_head(c.dest_ty or '') == 'Option' else ok(r, c.dest_ty)


@model('CidGeneric::version', 'CidGeneric::codec', 'Cid::version', 'Cid::codec', 'CidGeneric::hash', 'Cid::hash')
def _(E, c):
    """cid prefix accessors: uninterpreted attributes of the cid"""
    cid = cid_of(E, c.args[0])
    m = c.callee.idents[-1]
    nm = 'cidattr(%s)' % (cid.hkey[1] if len(cid.hkey) > 1 else 'default')
    if m == 'version':
        if E.ctx.branch(z3.Bool(nm + '.is_v1')):
            return EnumV('Version', 1, 'V1', {})
        return EnumV('Version', 0, 'V0', {})
    if m == 'codec':
        return E.materialize('u64', nm + '.codec')
    return RefV(Cell(StructV('Multihash', {0: E.materialize('u64', nm + '.mh_code'), 1: E.materialize('u8', nm + '.mh_size')}), 'mh'), ())


@model('Multihash::code', 'Multihash::size', 'MultihashGeneric::code', 'MultihashGeneric::size')
def _(E, c):
    v = E.deref(c.args[0])
    if isinstance(v, StructV) and v.ty == 'Multihash':
        return v.fields[0 if c.callee.idents[-1] == 'code' else 1]
    return NotImplemented


@model('re:^Registered(Seal|PoSt|Update)Proof::(registered_window_post_proof|registered_winning_post_proof|registered_update_proof|sector_size|window_post_partition_sectors|sector_maximum_lifetime)$')
def _(E, c):
    """proof-type tables of fvm_shared: an arbitrary value of the result type per call, or an error for unknown types"""
    nm = E.ctx.fresh_name('prooftable.' + c.callee.idents[-1])
    dt = c.dest_ty or ''
    if type_head(dt) == 'Result':
        T = type_args(dt)[0]
        if E.ctx.branch(z3.Bool(nm + '.known')):
            return ok(E.materialize(T, nm), dt)
        return err(OpaqueV('String', 'unsupported proof type'), dt)
    return E.materialize(dt, nm)


@model('RegisteredPoStProof::proof_size', 'RegisteredSealProof::proof_size')
def _(E, c):
    """table lookup by proof type: an arbitrary positive size per type, or an error for unknown types"""
    v = E.deref(c.args[0])
    if isinstance(v, LazyV):
        v = E.materialize(v.ty, v.name)
    tag = v.tag if isinstance(v, EnumV) else (v.v if isinstance(v, IntV) else None)
    nm = E.ctx.fresh_name('proof_size')
    if E.ctx.branch(z3.Bool(nm + '.known')):
        n = E.materialize('usize', nm)
        E.ctx.assume(z3.And(n.v >= 1, n.v <= 4096))
        return ok(n, c.dest_ty)
    return err(OpaqueV('String', 'unsupported proof type'), c.dest_ty)


for _n, _v in (('FIL_COMMITMENT_SEALED', 0xf102), ('FIL_COMMITMENT_UNSEALED', 0xf101), ('POSEIDON_BLS12_381_A1_FC1', 0xb401), ('SHA2_256_TRUNC254_PADDED', 0x1012)):
    EXTERNAL_CONSTS[_n] = IntV(_v, 'u64')
    EXTERNAL_CONSTS['fvm_shared::commcid::' + _n] = IntV(_v, 'u64')
    EXTERNAL_CONSTS['commcid::' + _n] = IntV(_v, 'u64')


@model('BitField::try_from_bits')
def _(E, c):
    it = as_iter(E, c.args[0])
    cur = BitSetV(())
    while True:
        x = it.next(E)
        if x is None:
            break
        xv = E.deref(x)
        xv = xv.v if isinstance(xv, IntV) else xv
        if not _bs_has(E, cur, xv):
            cur = BitSetV(cur.bits + (xv,))
    return ok(cur, c.dest_ty)


@model('re:^<&?BitField as BitAnd(<&?BitField>)?>::bitand$')
def _(E, c):
    a, b = _bitset(E, c.args[0]), _bitset(E, c.args[1])
    if isinstance(a, BitSetV) and isinstance(b, BitSetV):
        return BitSetV(tuple(x for x in a.bits if _bs_has(E, b, x)))
    if isinstance(a, BitSetV) and isinstance(b, BitFieldV):
        a, b = b, a
    if isinstance(a, BitFieldV) and isinstance(b, BitSetV):
        # explicit members of b that the symbolic field a contains (membership per element, memoised)
        out = []
        for x in b.bits:
            tbl = E.ctx.memo.setdefault(('bfbits', a.name), [])
            bit = None
            for (kt, bb) in tbl:
                if E.ctx.branch(kt == x):
                    bit = bb
                    break
            if bit is None:
                bit = z3.Bool('%s.bit[%d]' % (a.name, len(tbl)))
                tbl.append((x, bit))
                E.ctx.assume(z3.Implies(bit, z3.Int(a.name + '#card') >= 1))
            if E.ctx.branch(bit):
                out.append(x)
        return BitSetV(tuple(out))
    return NotImplemented


@model('BitField::union')
def _(E, c):
    items = [_bitset(E, x) for x in as_iter(E, c.args[0]).items] if hasattr(as_iter(E, c.args[0]), 'items') else None
    nm = E.ctx.fresh_name('bf_union')
    n = z3.Int(nm + '#card')
    E.ctx.assume(n >= 0)
    return BitFieldV(nm)


AS_ITER[BitSetV] = _bs_iter


@model('BitField::iter', 'BitField::bounded_iter')
def _(E, c):
    bs = _bitset(E, c.args[0])
    if not isinstance(bs, BitSetV):
        raise Inconclusive('iteration over a symbolic bit field')
    it = iter_obj(_bs_iter(E, bs))
    if c.callee.idents[-1] == 'bounded_iter':
        return ok(it, c.dest_ty)
    return it
