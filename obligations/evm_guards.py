"""Read-only (STATICCALL) guards of the EVM instructions that have side effects, executed from MIR against a System
loaded in a read-only runtime context.  Shared by C18 (read-only clause) and C19."""
from .common import *
from mirsym.models_evm import mk_word, word_limbs, WORD
from mirsym.models_core import mk_enum
from . import C19

EVM = 'fil_actor_evm'
XS = 'interpreter::execution::ExecutionState'


def ifn(E, name, mod):
    return find_fn(E, EVM, name, mod)


def _words(E, *names):
    return [mk_word(E, n) for n in names]


def _mk_calls():
    """name -> (module filter, builder(E, xs_ref, sys_ref) -> argument list after (state, system))"""
    def call_args(E):
        ws = _words(E, 'gas', 'dst', 'value', 'in_off', 'in_size', 'out_off', 'out_size')
        # a value-bearing call
        E.ctx.assume(z3.Or(*[x > 0 for x in word_limbs(E, ws[2])]))
        return [mk_enum('instructions::call::CallKind', 'CallKind', 'Call'), StructV('tuple', {i: w for i, w in enumerate(ws)})]
    return {
        'sstore': (None, lambda E: _words(E, 'key', 'value')),
        'tstore': (None, lambda E: _words(E, 'key', 'value')),
        'create': ('lifecycle::', lambda E: _words(E, 'endowment', 'offset', 'size')),
        'create2': (None, lambda E: _words(E, 'endowment', 'offset', 'size', 'salt')),
        'selfdestruct': (None, lambda E: [E.materialize('usize', 'pc')] + _words(E, 'beneficiary')),
        'log': ('log_event::', lambda E: [IntV(1, 'usize')] + _words(E, 'mem_index', 'size') + [RefV(Cell(VecV(_words(E, 'topic0'), '[U256]'), 'topics'), ())]),
        'call_generic': (None, call_args),
    }


CALLS = _mk_calls()


def run_guard(name, readonly):
    def run(E):
        rt, rtref = C19.setup(E, readonly=readonly)
        sysv = C19.okv(E, C19.call(E, 'load', [rtref]), 'load failed')
        SY = C19.SYSF()
        ro = fget(E, sysv, SY['readonly'], 'bool')
        E.ctx.env['sys_readonly'] = ro
        cell = Cell(sysv, 'system')
        xs = Cell(LazyV('xs', XS), 'xs')
        E.ctx.env.update(dict(sys0=sysv, cell=cell))
        mod, mk = CALLS[name]
        fn = ifn(E, name, mod)
        args = [RefV(xs, (), True), RefV(cell, (), name != 'log')] + mk(E)
        return E.run_function(fn, args), rt
    return run


def props_guard(name):
    def props(E, res):
        env = res.ctx.env
        rt = env['rt']
        if res.kind == 'early':
            return []
        if res.kind != 'return':
            return [('no panic (%s)' % str(res.info)[:60], False)]
        P = [('a system loaded in a read-only context is read-only', env['sys_readonly'] if is_sym(env['sys_readonly']) else bool(env['sys_readonly']))]
        P.append(('%s is refused in a static (read-only) context' % name.upper(), is_err(res.value)))
        if is_err(res.value):
            e = E.deref(res.value.fields[('Err', 0)])
            code = fget(E, fget(E, e, 0, 'ExitCode'), 0, 'u32').v
            P.append(('refused with the read-only exit code', code == 25))
        P.append(('nothing takes effect: no send, no event, no state commit', len(rt.sends) == 0 and len(rt.events) == 0 and rt.commits == 0))
        P.append(('pending contract state untouched', env['cell'].value is env['sys0'] or deep_same(E, env['cell'].value, env['sys0'])))
        return P
    return props


def deep_same(E, a, b):
    try:
        r = deep_eq(E, a, b)
    except Exception:
        return False
    return r


def build_guards(tier):
    O = []
    for name in CALLS:
        O.append(Obligation('evm.%s[read-only context]' % name, run_guard(name, True), props_guard(name),
                            descr='in a static call context the instruction fails with USR_READ_ONLY before any effect (no send, event, commit or pending-state change)',
                            bounds='one instruction; arbitrary stored contract state and 256-bit operands%s' % ('; value > 0' if name == 'call_generic' else ''),
                            max_paths=5000, expect_ok=False))
    return O
