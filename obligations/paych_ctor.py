"""paych constructor: establishes the channel's representation invariant assumed by the C16 step obligations."""
from .common import *

PAYCH = 'fil_actor_paych'


def run_ctor(E):
    rt, rtref = new_rt(E)
    CP = Fields('actors/paych/src/types.rs', 'ConstructorParams')
    frm, to = E.materialize(ADDR, 'params.from'), E.materialize(ADDR, 'params.to')
    params = StructV('types::ConstructorParams', {CP['from']: frm, CP['to']: to})
    E.ctx.env.update(dict(pfrom=frm, pto=to))
    fn = find_fn(E, PAYCH, 'constructor')
    return E.run_function(fn, [rtref, params]), rt


def props_ctor(E, res):
    env = res.ctx.env
    rt = env['rt']
    ctx = res.ctx
    if res.kind != 'return':
        return [('no panic (%s)' % str(res.info)[:60], False)]
    if is_err(res.value):
        return [('a refused construction creates no state', rt.state is None or rt.commits == 0)]
    ST = Fields('actors/paych/src/state.rs', 'State')
    st = rt.state
    P = [('only the init actor constructs a channel', rt.caller_type == ACTOR_TYPES['Init']),
         ('state created', st is not None)]
    if st is None:
        return P
    frm, to = fget(E, st, ST['from'], ADDR), fget(E, st, ST['to'], ADDR)
    P.append(('both parties are stored as resolved ID addresses', b_and(frm.proto == 0, to.proto == 0)))
    # roles: an ID address given as payer / payee is stored in that role (a non-ID one resolves through the runtime)
    P.append(('the payer given is stored as payer, the payee as payee (roles not swapped)',
              z3.And(z3.Implies(env['pfrom'].proto == 0, addr_eq(frm, env['pfrom'])), z3.Implies(env['pto'].proto == 0, addr_eq(to, env['pto'])))))
    P.append(('a new channel owes nothing and is not settling: to_send = 0, settling_at = 0, min_settle_height = 0',
              z3.And(fget(E, st, ST['to_send'], TOKEN).v == 0, fget(E, st, ST['settling_at'], 'i64').v == 0, fget(E, st, ST['min_settle_height'], 'i64').v == 0)))
    lanes = heap_get(E, fget(E, st, ST['lane_states'], CID))
    P.append(('a new channel has no lanes', isinstance(lanes, MapM) and lanes.base is None and not [1 for (k, pres, v, _) in lanes.over if pres]))
    P.append(('construction sends nothing', len(rt.sends) == 0))
    return P


def build(tier):
    return [Obligation('paych.constructor', run_ctor, props_ctor,
                       descr='constructor: only init; both parties resolved to ID addresses in their roles; to_send = settling_at = min_settle_height = 0; no lanes (the representation invariant the step obligations assume)',
                       bounds='one call; address resolution symbolic', max_paths=5000)]
