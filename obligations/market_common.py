"""Shared setup and oracle for the storage-market accounting obligations (C06, C07, C01 market clause).

Symbolic market state = escrow/locked balance tables with entries for the deal's client and provider (equal or
distinct: both explored) satisfying the market invariant
    0 <= locked[x] <= escrow[x],   locked[x] >= obligations of the deal under consideration,
    market-wide totals >= the deal's parts,
plus an arbitrary remainder standing for every other deal/participant (framed by the table model)."""
from .common import *

MARKET = 'fil_actor_market'
CRATES = ['fil_actors_runtime', 'fil_actor_market']
DP = 'deal::DealProposal'
DS = 'deal::DealState'


def F():
    return (Fields('actors/market/src/state.rs', 'State'), Fields('actors/market/src/deal.rs', 'DealProposal'),
            Fields('actors/market/src/deal.rs', 'DealState'))


def mk_deal(E, name='deal'):
    ST, DPF, DSF = F()
    d = LazyV(name, DP)
    client = fget(E, d, DPF['client'], ADDR)
    provider = fget(E, d, DPF['provider'], ADDR)
    E.ctx.assume(z3.And(client.proto == 0, provider.proto == 0))
    start = fget(E, d, DPF['start_epoch'], 'i64').v
    end = fget(E, d, DPF['end_epoch'], 'i64').v
    price = fget(E, d, DPF['storage_price_per_epoch'], TOKEN).v
    pc = fget(E, d, DPF['provider_collateral'], TOKEN).v
    cc = fget(E, d, DPF['client_collateral'], TOKEN).v
    # validated at publication: 0 <= start < end (duration bounds), non-negative price and collaterals
    E.ctx.assume(z3.And(start >= 0, end > start, end < 2**40, price >= 0, pc >= 0, cc >= 0))
    return dict(v=d, client=client, provider=provider, start=start, end=end, price=price, pc=pc, cc=cc)


def mk_tables(E, deal, ob_client, ob_provider, extra_addr=None):
    """market State with balance tables for the deal parties; ob_*: amounts the deal currently keeps locked"""
    ST, DPF, DSF = F()
    ctx = E.ctx
    same = ctx.branch(deal['client'].key == deal['provider'].key)
    parties = [('client', deal['client'])]
    if not same:
        parties.append(('provider', deal['provider']))
    bal = {}
    eb = BaseInfo(closed=False)
    lb = BaseInfo(closed=False)
    ebase = 'map(st.%d)' % ST['escrow_table']
    lbase = 'map(st.%d)' % ST['locked_table']
    ctx.memo[('mapbase', ebase)] = eb
    ctx.memo[('mapbase', lbase)] = lb
    for nm, a in parties:
        esc = z3.Int('escrow_' + nm)
        lck = z3.Int('locked_' + nm)
        need = ob_client if nm == 'client' else ob_provider
        if same:
            need = ob_client + ob_provider
        ctx.assume(z3.And(lck >= 0, esc >= lck, lck >= need))
        kt = ('addr', a.proto, a.key)
        # an entry is present whenever the balance is positive; zero-valued entries may also exist
        # (BalanceTable::add stores a zero when adding zero to an absent key)
        eb.entries.append([kt, z3.Or(esc > 0, z3.Bool('zero_entry_escrow_' + nm)), BigV(esc), a])
        lb.entries.append([kt, z3.Or(lck > 0, z3.Bool('zero_entry_locked_' + nm)), BigV(lck), a])
        bal[nm] = (esc, lck)
    if same:
        bal['provider'] = bal['client']

    def hook(E2, m, kt, val):
        if m.base in (ebase, lbase):
            E2.ctx.assume(val.v >= 0)     # balance tables never store negative entries
        return None
    ctx.env['map_value_hook'] = hook
    st = StructV('State', {}, lazy='st')
    tcc = fget(E, st, ST['total_client_locked_collateral'], TOKEN).v
    tpc = fget(E, st, ST['total_provider_locked_collateral'], TOKEN).v
    tsf = fget(E, st, ST['total_client_storage_fee'], TOKEN).v
    nid = fget(E, st, ST['next_id'], 'u64').v
    ctx.assume(z3.And(tcc >= 0, tpc >= 0, tsf >= 0, nid < 2**62))
    return dict(st=st, same=same, bal=bal, ebase=ebase, lbase=lbase, tcc=tcc, tpc=tpc, tsf=tsf, nid=nid)


def table_balance(E, st, field, addr_, base):
    """balance of addr in the table rooted at st.<field> after the call (0 when absent)"""
    ST, DPF, DSF = F()
    cid = fget(E, st, ST[field], CID)
    m = heap_get(E, cid) if isinstance(cid, CidV) else None
    if not isinstance(m, MapM):
        m = MapM(base, (), TOKEN, 'hamt')
    p, v = final_lookup(E, m, ('addr', addr_.proto, addr_.key))
    if p is None:
        raise Inconclusive('balance of an address that was never looked up')
    if p is False:
        return 0, m
    if isinstance(p, bool):
        return big(E, v), m
    return z3.If(p, big(E, v), 0), m


def totals(E, st):
    ST, DPF, DSF = F()
    return (fget(E, st, ST['total_client_locked_collateral'], TOKEN).v,
            fget(E, st, ST['total_provider_locked_collateral'], TOKEN).v,
            fget(E, st, ST['total_client_storage_fee'], TOKEN).v)


def zmax(a, b):
    return z3.If(a >= b, a, b)


def zmin(a, b):
    return z3.If(a <= b, a, b)


def frame_tables(E, m, allowed, what):
    P = []
    for (k, pres, val, _) in m.over:
        P.append(('%s: only the deal parties are touched' % what, any_of([key_eq(k, ('addr', a.proto, a.key)) for a in allowed])))
        if pres:
            P.append(('%s: stored balances are never negative' % what, big(E, val) >= 0))
    return P
