//! Kani harness crate for the EVM interpreter kernels, EthAddress helpers and
//! pure deadline arithmetic of /repo (filecoin-project/builtin-actors).
//!
//! The code under test is NOT copied: the real source files are compiled into
//! this crate with `#[path = "/repo/..."]` inside a module tree that mirrors the
//! paths those files use in their `use crate::...` / `use super::...` lines.
//! Small glue modules (opcode numbers, `EVM_*` constants, cut-down `Policy`)
//! are generated from the current /repo text by build.rs.
#![allow(clippy::all)]
#![allow(unused)]

// ---- crate-root names the included files refer to -------------------------
include!(concat!(env!("OUT_DIR"), "/evm_consts.rs"));

pub mod interpreter {
    /// `use super::opcodes;` in bytecode.rs
    pub mod opcodes {
        include!(concat!(env!("OUT_DIR"), "/opcodes.rs"));
    }
    #[path = "/repo/actors/evm/src/interpreter/stack.rs"]
    pub mod stack;
    #[path = "/repo/actors/evm/src/interpreter/bytecode.rs"]
    pub mod bytecode;
    #[path = "/repo/actors/evm/src/interpreter/memory.rs"]
    pub mod memory;
    pub mod instructions {
        #[path = "/repo/actors/evm/src/interpreter/instructions/arithmetic.rs"]
        pub mod arithmetic;
        #[path = "/repo/actors/evm/src/interpreter/instructions/bitwise.rs"]
        pub mod bitwise;
        #[path = "/repo/actors/evm/src/interpreter/instructions/boolean.rs"]
        pub mod boolean;
        #[path = "/repo/actors/evm/src/interpreter/instructions/stack.rs"]
        pub mod stack;
    }
}

// ---- miner deadline arithmetic (deadline_info.rs uses `crate::QuantSpec`) ---
#[path = "/repo/actors/miner/src/quantize.rs"]
pub mod quantize;
#[path = "/repo/actors/miner/src/deadline_info.rs"]
pub mod deadline_info;
pub use deadline_info::DeadlineInfo;
pub use quantize::QuantSpec;
pub mod miner_shim {
    include!(concat!(env!("OUT_DIR"), "/miner_shim.rs"));
}

#[cfg(kani)]
mod harness;
