"""C14 — miner funds unlock only on schedule; withdrawals never touch collateral.

Vesting table operations (vesting_state.rs) executed from MIR with the itertools adaptors modelled as lazy state
machines, on tables of bounded length; the State-level wrappers keep locked_funds = sum of the table; the
withdraw_balance method pays min(requested, available, quota) to the beneficiary only."""
from .common import *
from .miner_common import *

PROPERTY = 'C14'


def vf_cell(E, n):
    vf, ents, total = mk_vesting(E, n)
    E.ctx.env['vents0'] = ents
    return Cell(vf, 'vf'), ents, total


STORE = lambda: RefV(Cell(OpaqueV('store'), 'store'), ())


def epoch_sym(E, name='epoch'):
    e = E.materialize('i64', name).v
    E.ctx.assume(z3.And(e >= 0, e < 2**50))
    return e


# ---- unlock_vested_funds -------------------------------------------------------------------------------

def run_unlock_vested(n):
    def run(E):
        rt, rtref = new_rt(E)
        cell, ents, total = vf_cell(E, n)
        e = epoch_sym(E)
        E.ctx.env['epoch'] = e
        fn = find_fn(E, MINER, 'unlock_vested_funds', 'vesting_state')
        r = E.run_function(fn, [RefV(cell, (), True), STORE(), IntV(e, 'i64')])
        E.ctx.env['vf1'] = cell.value
        return r, rt
    return run


def in_table(ents):
    """entries that load() would return: the head only while positive"""
    return [(e, a) for (e, a, k) in ents]


def props_unlock_vested(E, res):
    env = res.ctx.env
    if res.kind != 'return':
        return [('no panic (%s)' % str(res.info)[:60], False)]
    if is_err(res.value):
        return [('unlocking vested funds never fails', False)]
    e = env['epoch']
    ents0 = env['vents0']
    unlocked = big(E, res.value.fields[('Ok', 0)])
    ents1 = vesting_entries(E, env['vf1'])
    spec_unlocked = sum(z3.If(ep < e, a, 0) for (ep, a) in ents0) if ents0 else 0
    P = [('unlocked = sum of entries whose vesting epoch has passed (epoch < now)', unlocked == spec_unlocked),
         ('nothing unlocks before its vesting epoch: table keeps exactly the rest', table_sum(ents1) == sum(a for (_, a) in ents0) - unlocked if ents0 else table_sum(ents1) == 0)]
    for (ep, a, k) in ents1:
        P.append(('remaining entries have not vested yet (or are an exhausted head)', z3.Or(ep >= e, a == 0)))
    P += table_wellformed(ents1)
    return P


# ---- unlock_vested_and_unvested_funds ------------------------------------------------------------------

def run_unlock_both(n):
    def run(E):
        rt, rtref = new_rt(E)
        cell, ents, total = vf_cell(E, n)
        e = epoch_sym(E)
        tgt = z3.Int('target')
        E.ctx.assume(tgt > 0)           # State::unlock_vested_and_unvested_funds returns early for a zero target
        E.ctx.env.update(dict(epoch=e, target=tgt))
        fn = find_fn(E, MINER, 'unlock_vested_and_unvested_funds', 'vesting_state')
        r = E.run_function(fn, [RefV(cell, (), True), STORE(), IntV(e, 'i64'), RefV(Cell(BigV(tgt), 'tgt'), ())])
        E.ctx.env['vf1'] = cell.value
        return r, rt
    return run


def props_unlock_both(E, res):
    env = res.ctx.env
    if res.kind != 'return':
        return [('no panic (%s)' % str(res.info)[:60], False)]
    if is_err(res.value):
        return [('penalty draw from the vesting table never fails', False)]
    e, tgt = env['epoch'], env['target']
    ents0 = env['vents0']
    tup = res.value.fields[('Ok', 0)]
    vested, unvested = big(E, tup.fields[0]), big(E, tup.fields[1])
    ents1 = vesting_entries(E, env['vf1'])
    tot0 = sum(a for (_, a) in ents0) if ents0 else 0
    sum_vested = sum(z3.If(ep < e, a, 0) for (ep, a) in ents0) if ents0 else 0
    sum_unvested = tot0 - sum_vested
    P = [('unvested funds are drawn only up to the target (the debt)', z3.And(unvested >= 0, unvested <= tgt)),
         ('unvested draw = min(target, all unvested funds)', unvested == z3.If(tgt <= sum_unvested, tgt, sum_unvested)),
         ('vested part never exceeds what has vested', z3.And(vested >= 0, vested <= sum_vested)),
         ('table total falls by exactly what was unlocked', table_sum(ents1) == tot0 - vested - unvested)]
    P += table_wellformed(ents1)
    return P


# ---- add_locked_funds (schedule shape on an empty table; conservation on a non-empty one) --------------

def mk_spec(delay, period, step, quant):
    return StructV('policy::VestSpec', {0: IntV(delay, 'i64'), 1: IntV(period, 'i64'), 2: IntV(step, 'i64'), 3: IntV(quant, 'i64')})


def run_add_locked(n, spec):
    def run(E):
        rt, rtref = new_rt(E)
        cell, ents, total = vf_cell(E, n)
        e = epoch_sym(E)
        amt = z3.Int('vesting_sum')
        pps = z3.Int('pps')
        E.ctx.assume(z3.And(amt >= 0, pps >= 0, pps < 2**50))
        E.ctx.env.update(dict(epoch=e, amt=amt, pps=pps, spec=spec))
        fn = find_fn(E, MINER, 'add_locked_funds', 'vesting_state')
        r = E.run_function(fn, [RefV(cell, (), True), STORE(), IntV(e, 'i64'), RefV(Cell(BigV(amt), 'amt'), ()),
                                IntV(pps, 'i64'), RefV(Cell(mk_spec(*spec), 'spec'), ())])
        E.ctx.env['vf1'] = cell.value
        return r, rt
    return run


def props_add_locked(E, res):
    env = res.ctx.env
    if res.kind != 'return':
        return [('no panic (%s)' % str(res.info)[:60], False)]
    if is_err(res.value):
        return [('locking funds never fails', False)]
    e, amt, pps = env['epoch'], env['amt'], env['pps']
    delay, period, step, quant = env['spec']
    ents0 = env['vents0']
    unlocked = big(E, res.value.fields[('Ok', 0)])
    ents1 = vesting_entries(E, env['vf1'])
    tot0 = sum(a for (_, a) in ents0) if ents0 else 0
    sum_vested0 = sum(z3.If(ep < e, a, 0) for (ep, a) in ents0) if ents0 else 0
    P = [('exactly the locked amount enters the schedule (no more, no less)', table_sum(ents1) + unlocked == tot0 + amt),
         ('only previously vested funds unlock now, none of the new funds', unlocked == sum_vested0)]
    P += table_wellformed(ents1)
    vest_begin = e + delay
    if not ents0:
        cum = 0
        for (ep, a, k) in ents1:
            cum = cum + a
            P.append(('new funds vest strictly after now + initial delay', ep > vest_begin))
            P.append(('vest epochs are quantised to the proving-period offset', (ep - pps) % quant == 0))
            lin = z3.If(ep - vest_begin < period, (amt * (ep - vest_begin)) / period, amt)
            P.append(('cumulative vested amount follows the linear schedule: floor(sum*elapsed/period)', cum == lin))
            P.append(('no entry later than the end of the vesting period (plus quantisation)', ep < vest_begin + period + step + quant))
    return P


# ---- State wrappers: locked_funds = sum(table) ---------------------------------------------------------

def run_state_fn(which, nvest):
    def run(E):
        rt, rtref = new_rt(E)
        pre = mk_miner_state(E, nvest, with_info=False)
        e = epoch_sym(E)
        E.ctx.env['epoch'] = e
        cell = Cell(pre['st'], 'st')
        if which == 'unlock_vested_funds':
            fn = find_fn(E, MINER, 'unlock_vested_funds', 'src/state.rs')
            args = [RefV(cell, (), True), STORE(), IntV(e, 'i64')]
        elif which == 'unlock_vested_and_unvested_funds':
            tgt = z3.Int('target')
            E.ctx.assume(tgt >= 0)
            E.ctx.env['target'] = tgt
            fn = find_fn(E, MINER, 'unlock_vested_and_unvested_funds', 'src/state.rs')
            args = [RefV(cell, (), True), STORE(), IntV(e, 'i64'), RefV(Cell(BigV(tgt), 'tgt'), ())]
        else:
            amt = z3.Int('vesting_sum')
            E.ctx.assume(amt >= 0)
            E.ctx.env['amt'] = amt
            fn = find_fn(E, MINER, 'add_locked_funds', 'src/state.rs')
            args = [RefV(cell, (), True), STORE(), IntV(e, 'i64'), RefV(Cell(BigV(amt), 'amt'), ()),
                    RefV(Cell(mk_spec(0, 4, 1, 1), 'spec'), ())]
        r = E.run_function(fn, args)
        E.ctx.env['st1'] = cell.value
        return r, rt
    return run


def props_state_fn(which):
    def props(E, res):
        env = res.ctx.env
        pre = env['pre']
        if res.kind != 'return':
            return [('no panic (%s)' % str(res.info)[:60], False)]
        if is_err(res.value):
            return [('%s never fails on a well-formed state' % which, False)]
        led = ledgers(E, env['st1'])
        P = [('locked-funds total = sum of the vesting schedule', led['lf'] == table_sum(led['vents'])),
             ('locked funds never negative', led['lf'] >= 0),
             ('other ledgers untouched', z3.And(led['pcd'] == pre['pcd'], led['ip'] == pre['ip'], led['fd'] == pre['fd']))]
        okv = res.value.fields[('Ok', 0)]
        if which == 'unlock_vested_funds':
            P.append(('locked funds fall by exactly the amount returned', led['lf'] == pre['lf'] - big(E, okv)))
        elif which == 'unlock_vested_and_unvested_funds':
            P.append(('locked funds fall by exactly the total unlocked', led['lf'] == pre['lf'] - big(E, okv.fields[1])))
            P.append(('unvested part <= target and <= total', z3.And(big(E, okv.fields[0]) <= env['target'], big(E, okv.fields[0]) <= big(E, okv.fields[1]), big(E, okv.fields[0]) >= 0)))
        else:
            P.append(('locked funds move by +sum -unlocked', led['lf'] == pre['lf'] + env['amt'] - big(E, okv)))
        return P
    return props


# ---- withdraw_balance ----------------------------------------------------------------------------------

def run_withdraw(nvest):
    def run(E):
        rt, rtref = new_rt(E)
        pre = mk_miner_state(E, nvest)
        rt.state = pre['st']
        E.ctx.assume(rt.balance >= pre['pcd'] + pre['lf'] + pre['ip'])     # solvency invariant (C01), re-proved below
        params = LazyV('params', 'types::WithdrawBalanceParams')
        E.ctx.env['params'] = params
        E.ctx.env['balance0'] = rt.balance
        fn = find_fn(E, MINER, 'withdraw_balance')
        return E.run_function(fn, [rtref, params]), rt
    return run


def props_withdraw(E, res):
    env = res.ctx.env
    rt, pre = env['rt'], env['pre']
    ctx = res.ctx
    if res.kind != 'return':
        return [('no panic (%s)' % str(res.info)[:60], False)]
    if is_err(res.value):
        return []
    ST = SF()
    req = fget(E, env['params'], 0, TOKEN).v
    bal0 = env['balance0']
    a = C13.view(E, pre['info'])
    info1 = C13.info_after(E, rt)
    b = C13.view(E, info1) if info1 is not None else a
    led = ledgers(E, rt.state)
    e = rt.epoch
    newly_vested = sum(z3.If(ep < e, am, 0) for (ep, am) in pre['vents']) if pre['vents'] else 0
    lf1 = pre['lf'] - newly_vested
    available = bal0 - lf1 - pre['pcd'] - pre['ip'] - pre['fd']
    third = z3.And(b_not(addr_eq(a['ben'], a['owner'])))
    quota_left = z3.If(a['exp'] > e, z3.If(a['quota'] - a['used'] > 0, a['quota'] - a['used'], 0), 0)
    amount = z3.If(req <= available, req, available)
    amount = z3.If(third, z3.If(amount <= quota_left, amount, quota_left), amount)
    P = [('only owner or beneficiary may withdraw', b_or(addr_eq(rt.caller, a['owner']), addr_eq(rt.caller, a['ben']))),
         ('requested amount non-negative', req >= 0),
         ('fee debt is repaid in full as part of the call', led['fd'] == 0),
         ('vested funds unlocked, nothing else', led['lf'] == lf1),
         ('locked-funds total = sum of the vesting schedule', led['lf'] == table_sum(led['vents'])),
         ('deposits and pledge untouched', z3.And(led['pcd'] == pre['pcd'], led['ip'] == pre['ip'])),
         ('a third-party beneficiary needs remaining quota and an unexpired term', z3.Implies(third, quota_left > 0))]
    et = fget(E, pre['st'], ST['early_terminations'], 'fvm_ipld_bitfield::BitField')
    P.append(('no withdrawal while early terminations are unprocessed', models_fvm.bitfield_empty(E, et)))
    pay = [s for s in rt.sends if implied(ctx, zv(s.method) == 0) and not implied(ctx, is_burn(s))]
    burns = [s for s in rt.sends if implied(ctx, is_burn(s))]
    others = [s for s in rt.sends if s not in pay and s not in burns]
    P.append(('every send succeeded', all(s.ok is True for s in rt.sends)))
    total_paid = sum(s.value for s in pay) if pay else 0
    P.append(('pays min(requested, balance - vesting - deposits - pledge - fee debt, quota)', total_paid == amount))
    for s in pay:
        P.append(('paid only to the beneficiary', addr_eq(s.to, a['ben'])))
    P.append(('fee debt burnt', (sum(s.value for s in burns) if burns else 0) == pre['fd']))
    for s in others:
        P.append(('other sends carry no value and go to the power actor (pledge notification)', b_and(s.value == 0, s.to.key == POWER, s.to.proto == 0)))
    # C03: the network pledge total follows the change of pledge + vesting funds
    notified = 0
    for s in others:
        if implied(ctx, zv(s.method) == 6):      # UpdatePledgeTotal
            obj = s.params.obj if isinstance(s.params, BlockV) else None
            if obj is None:
                P.append(('pledge notification carries typed params', False))
            else:
                notified = notified + big(E, obj)
        else:
            P.append(('the only call to the power actor is UpdatePledgeTotal', False))
    P.append(('pledge notifications to the power actor add up to the change of pledge + vesting funds (newly vested funds leave the network total)',
              notified == (led['ip'] + led['lf']) - (pre['ip'] + pre['lf'])))
    P.append(('quota consumption recorded', b['used'] == z3.If(third, a['used'] + amount, a['used'])))
    P += [(l.replace('control fields', 'withdraw'), f) for (l, f) in C13.control_frame(ctx, a, b)]
    P.append(('term limits untouched', z3.And(b['quota'] == a['quota'], b['exp'] == a['exp'])))
    P.append(('miner stays solvent: balance >= deposits + vesting + pledge', solvency(rt, led)))
    return P


def run_locked_reward(E):
    rt, rtref = new_rt(E)
    r = z3.Int('reward')
    E.ctx.assume(r >= 0)
    E.ctx.env['reward'] = r
    fn = find_fn(E, MINER, 'locked_reward_from_reward')
    return E.run_function(fn, [BigV(r)]), rt


def props_locked_reward(E, res):
    if res.kind != 'return':
        return [('no panic (%s)' % str(res.info)[:60], False)]
    r = res.ctx.env['reward']
    locked = big(E, res.value.fields[0])
    spec = E.deref(res.value.fields[1])
    vals = [spec.fields[i].v for i in range(4)]
    return [('75% of a block reward is locked (floor)', locked == (3 * r) / 4),
            ('rewards vest over 180 days in daily steps (12h quantisation, no initial delay)',
             vals == [0, 180 * 2880, 2880, 12 * 120])]


def build(tier):
    O = []
    ns = [0, 1, 2, 3] if tier == 'quick' else [0, 1, 2, 3, 4]
    for n in ns:
        O.append(Obligation('vesting.unlock_vested_funds[entries=%d]' % n, run_unlock_vested(n), props_unlock_vested,
                            descr='exactly the entries with epoch < now unlock; the rest stays, order kept', bounds='%d table entries; epochs/amounts unbounded' % n, max_paths=20000))
        O.append(Obligation('vesting.unlock_vested_and_unvested_funds[entries=%d]' % n, run_unlock_both(n), props_unlock_both,
                            descr='penalty draw: vested + min(target, unvested), earliest first; table falls by exactly that', bounds='%d table entries' % n, max_paths=40000))
    for n in ([0, 1, 2] if tier == 'quick' else [0, 1, 2, 3]):
        O.append(Obligation('vesting.add_locked_funds[entries=%d,spec=4 steps]' % n, run_add_locked(n, (0, 4, 1, 1)), props_add_locked,
                            descr='new funds: sum conserved, linear floor schedule, quantised epochs > now+delay; merge with existing entries conserves totals',
                            bounds='%d existing entries; scaled spec (period 4, step 1, quantisation 1); amount unbounded' % n, max_paths=60000))
    O.append(Obligation('vesting.add_locked_funds[entries=0,spec=delay 2, 3 steps of 4, quant 2]', run_add_locked(0, (2, 12, 4, 2)), props_add_locked,
                        descr='schedule shape with initial delay and quantisation', bounds='empty table; spec (delay 2, period 12, step 4, quantisation 2)', max_paths=60000))
    if tier == 'thorough':
        # the real reward schedule has 180 daily steps; solver time grows super-linearly with the number of steps
        # (8: 5 s, 16: 12 s, 32: 90 s; 180 does not finish within the tier cap), so the real step / quantisation are kept
        # and the period is bounded to 32 days: longer schedules are outside the claim
        O.append(Obligation('vesting.add_locked_funds[entries=0,REWARD_VESTING_SPEC step/quantisation, 32 daily steps]', run_add_locked(0, (0, 32 * 2880, 2880, 1440)), props_add_locked,
                            descr='the reward schedule shape (daily steps, 12h quantisation) over 32 days', bounds='empty table; step 2880, quantisation 1440, period 32 days (the real period is 180 days: outside the bound)', max_paths=200000, wall_s=900))
    for which in ('unlock_vested_funds', 'unlock_vested_and_unvested_funds', 'add_locked_funds'):
        for n in ([0, 2] if tier == 'quick' else [0, 1, 2, 3]):
            O.append(Obligation('miner.State::%s[entries=%d]' % (which, n), run_state_fn(which, n), props_state_fn(which),
                                descr='State wrapper keeps locked_funds = sum of the vesting table and moves it by exactly the returned amounts',
                                bounds='%d table entries' % n, max_paths=60000))
    for n in ([0, 1, 2] if tier == 'quick' else [0, 1, 2, 3]):
        O.append(Obligation('miner.withdraw_balance[vesting entries=%d]' % n, run_withdraw(n), props_withdraw, scenario=miner_scenario('WithdrawBalance', lambda E, res, m: {'amount_requested': str(ev(m, fget(E, res.ctx.env['params'], 0, TOKEN).v))}),
                            descr='withdraw pays min(requested, balance - vesting - deposits - pledge - fee debt, quota) to the beneficiary only, on request of owner/beneficiary, never with pending early terminations; fee debt burnt in full; solvency kept',
                            bounds='%d vesting entries; arbitrary MinerInfo / term; one call' % n, max_paths=100000))
    from . import miner_money
    for o in miner_money.build_for('C14', tier):
        if o.name == 'miner.constructor':
            O.append(o)
    O.append(Obligation('miner.locked_reward_from_reward', run_locked_reward, props_locked_reward,
                        descr='75% of rewards lock, vesting spec = 180 days / daily', bounds='reward unbounded', max_paths=100))
    # withdrawals are blocked while early terminations are unprocessed: the backlog flag must be exact (shared with C05)
    from . import C05
    for n in ([0, 1, 2] if tier == 'quick' else [0, 1, 2, 3]):
        O.append(Obligation('miner.Partition::pop_early_terminations[queue entries=%d]' % n, C05.run_pop_et(n), C05.props_pop_et,
                            descr='has_more reported iff entries remain (the withdrawal gate relies on it); processed + remaining = queued',
                            bounds='%d queue entries; sector sets by cardinality; CUT: Partition::validate_state' % n, max_paths=20000))
    return O
