"""C19 — EVM contract state stays coherent across nested, re-entrant and reverted calls (engine M, System level).

The property's mechanism lives in `System` (actors/evm/src/interpreter/system.rs): every outgoing call goes through
send_raw, which flushes the activation's pending writes into the actor state before the call and reloads whatever the
call left behind after a successful return; transient storage carries the (origin, nonce) of the top-level message;
a tombstone marks a self-destructed contract that stays alive until that message ends.  The obligations execute those
functions from MIR on an arbitrary stored contract state, with the nested call free to succeed (with or without a
re-entrant activation that replaced the state root), fail with any exit code or hit a syscall error, and compare the
storage / transient-storage / nonce / tombstone views before and after with the specification.  256-bit words are in
their real four-limb representation.  Bytecode execution itself (the call-tree scripts of the property's quantifier)
is outside the engine's reach; what is decided is the per-call state-coherence step those scripts rely on."""
from .common import *
from mirsym.models_evm import mk_word, word_limbs, word_eq, WORD

PROPERTY = 'C19'
CRATES = ['fil_actors_runtime', 'fil_actors_evm_shared', 'fil_actor_evm']
EVM = 'fil_actor_evm'
STATE = 'state::State'


def SFe():
    return Fields('actors/evm/src/state.rs', 'State')


def SYSF():
    return Fields('actors/evm/src/interpreter/system.rs', 'System')


def sysfn(E, name):
    return find_fn(E, EVM, name, 'system')


def setup(E, readonly=None):
    rt, rtref = new_rt(E)
    E.ctx.assume(z3.And(rt.origin.proto == 0, rt.origin.key >= 0))
    st0 = LazyV('st0', STATE)
    root0 = new_cid(E, st0, 'root0')
    rt.funcs['state_root'] = root0
    if readonly is not None:
        rt.readonly = readonly
    E.ctx.env.update(dict(st0=st0, root0=root0))
    return rt, rtref


def okv(E, r, what):
    if not is_ok(r):
        raise PathEnd('early', what)
    return r.fields[('Ok', 0)]


def call(E, name, args):
    return E.run_function(sysfn(E, name), args)


def cur_lifespan(rt):
    return rt.origin.key, rt.nonce


def td_view(E, st, rt):
    """(matches(bool formula), map base name or None) of a State's transient data for the current message"""
    SF = SFe()
    td = E.deref(fget(E, st, SF['transient_data'], 'Option<TransientData>'))
    n, v = variant(E, td)
    if n != 'Some':
        return False, None
    t = E.deref(payload(E, v, 'Some'))
    cid = E.deref(fget(E, t, 0, CID))
    ls = E.deref(fget(E, t, 1, 'TransientDataLifespan'))
    o, nn = fget(E, ls, 0, 'u64').v, fget(E, ls, 1, 'u64').v
    return z3.And(o == rt.origin.key, nn == rt.nonce), cid


def word_view(E, cid, kt):
    """the four limbs of the word stored under key kt in the KAMT with root cid (zero word when absent), as terms over
    this path's symbols; key aliasing that the execution did not need to decide becomes an if-then-else"""
    ctx = E.ctx
    ZERO = [z3.IntVal(0)] * 4
    if cid is None or cid.hkey == ('default',):
        return ZERO
    m = heap_get(E, cid)
    if not isinstance(m, MapM):
        name = cid.hkey[1] if cid.hkey[0] == 'sym' else None
        m = MapM('map(%s)' % name, (), WORD, 'hamt')
    chain = []      # (cond, limbs) most recent first

    def limbs_of(pres, val):
        if pres is False:
            return ZERO
        vl = word_limbs(E, val)
        if pres is True:
            return vl
        return [z3.If(pres, x, 0) for x in vl]
    for (k, pres, val, _) in reversed(m.over):
        c = key_eq(k, kt)
        if c is False or implied(ctx, b_not(c)):
            continue
        chain.append((c, limbs_of(pres, val)))
        if c is True or implied(ctx, c):
            break
    else:
        rest = None
        if m.base is None:
            rest = ZERO
        else:
            b = base_info(E, m.base)
            hit = False
            for ent in b.entries:
                c = key_eq(ent[0], kt)
                if c is False or implied(ctx, b_not(c)):
                    continue
                chain.append((c, limbs_of(ent[1], ent[2])))
                if c is True or implied(ctx, c):
                    hit = True
                    break
            if not hit:
                if b.closed:
                    rest = ZERO
                else:
                    # slot never read on this path: its stored value is some word the execution knows nothing about
                    rest = [z3.Int('unread(%s).%d' % (m.base, i)) for i in range(4)]
        if rest is not None:
            chain.append((True, rest))
    out = chain[-1][1]
    for (c, l) in reversed(chain[:-1]):
        out = [z3.If(c, x, y) for x, y in zip(l, out)]
    return out


def word_is(E, got, limbs):
    return z3.And(*[g == v for g, v in zip(word_limbs(E, got), limbs)])


def is_zero_word(E, w):
    return z3.And(*[x == 0 for x in word_limbs(E, w)])


# ---- scenario: write, call out (possibly re-entered), read back ----------------------------------------------------

def run_reentrancy(transient, readonly_call=False, second_write=False):
    def run(E):
        rt, rtref = setup(E)
        sysv = okv(E, call(E, 'load', [rtref]), 'load failed')
        cell = Cell(sysv, 'system')
        sref = lambda: RefV(cell, (), True)
        k, v, k2 = mk_word(E, 'k'), mk_word(E, 'v'), mk_word(E, 'k2')
        setter, getter = ('set_transient_storage', 'get_transient_storage') if transient else ('set_storage', 'get_storage')
        r = call(E, setter, [sref(), k, v])
        okv(E, r, 'set failed')
        if second_write:
            # a second write to the same slot before the call: the later value is the one that counts
            v_first = v
            v = mk_word(E, 'v_second')
            okv(E, call(E, setter, [sref(), k, v]), 'set failed')
        env = E.ctx.env
        env.update(dict(k=k, v=v, k2=k2, cell=cell, sys0=sysv, transient=transient))

        def hook(E2, rt2, rec, nm):
            env['root_at_send'] = rt2.funcs['state_root']
            env['commits_at_send'] = rt2.commits
            ch = E2.ctx.choose(4, nm + '.outcome')
            if readonly_call and ch == 1:
                raise PathEnd('early', 'a read-only nested call cannot commit another state')
            if ch == 0:
                env['inner'] = None              # call succeeded, this contract was not re-entered (or left unchanged)
                return ('ok', None)
            if ch == 1:
                # a re-entrant activation of this contract ran inside the call and committed another state
                st1 = LazyV('st1', STATE)
                root1 = new_cid(E2, st1, 'root1')
                E2.ctx.assume(root1.term != rt2.funcs['state_root'].term)
                rt2.funcs['state_root'] = root1
                env['inner'] = st1
                return ('ok', None)
            env['inner'] = None
            return ('fail', None) if ch == 2 else ('syserr', None)
        rt.send_hook = hook
        to = E.materialize(ADDR, 'to')
        method = E.materialize('u64', 'method')
        flags = E.materialize('fvm_shared::sys::SendFlags', 'flags') if False else None
        fn = sysfn(E, 'send_raw')
        r = E.run_function(fn, [sref(), RefV(Cell(to, 'to'), ()), method, none('Option<IpldBlock>'), BigV(0), none('Option<u64>'),
                                StructV('SendFlags', {0: IntV(1 if readonly_call else 0, 'u64')})])
        env['send_result'] = r
        if not is_ok(r):
            return r, rt
        g = call(E, getter, [sref(), k2])
        env['g'] = g
        return g, rt
    return run


def props_reentrancy(E, res):
    env = res.ctx.env
    ctx = res.ctx
    rt = env['rt']
    if res.kind == 'early':
        return []
    if res.kind != 'return':
        return [('no panic (%s)' % str(res.info)[:60], False)]
    SF, SY = SFe(), SYSF()
    transient = env['transient']
    sys0 = env['sys0']
    ro = fget(E, sys0, SY['readonly'], 'bool')
    ro = ro if is_sym(ro) else z3.BoolVal(bool(ro))
    P = []
    sr = env['send_result']
    from mirsym.models_fvm import key_term
    kt, kt2 = key_term(E, env['k']), key_term(E, env['k2'])
    if not is_ok(sr):
        # send_raw fails before the call only when pending writes cannot be flushed
        P.append(('a call is refused before it is made only in a read-only activation with pending writes', b_and(ro, len(rt.sends) == 0)))
        P.append(('a refused call commits nothing', rt.commits == 0))
        return P
    if not rt.sends:
        return [('send_raw performs the call', False)]
    s = rt.sends[0]
    st_s = heap_get(E, env['root_at_send'])
    st0 = env['st0']
    if st_s is None:
        return [('state root at call time is a stored state', False)]

    def view(st, key):
        """limbs of the slot as stored in State st, for the current message"""
        if transient:
            m_ok, cid = td_view(E, st, rt)
            if cid is None:
                return [z3.IntVal(0)] * 4
            if m_ok is False or (is_sym(m_ok) and implied(ctx, z3.Not(m_ok))):
                return [z3.IntVal(0)] * 4          # transient data of another top-level message: empty
            live = word_view(E, cid, key)
            if m_ok is True or implied(ctx, m_ok):
                return live
            return [z3.If(m_ok, x, 0) for x in live]
        return word_view(E, E.deref(fget(E, st, SF['contract_state'], CID)), key)
    # --- what the callee (and any re-entrant activation) sees at call time
    P.append(("the activation's earlier write is visible in the committed state at call time (callee / re-entrant activation see it)",
              word_is(E, env['v'], view(st_s, kt))))
    if transient:
        m_ok, cid_s = td_view(E, st_s, rt)
        if cid_s is not None and env['root_at_send'] is not env['root0']:
            P.append(('transient data written by a flush carries the current message lifespan', m_ok))
    P.append(('nonce is flushed unchanged', fget(E, st_s, SF['nonce'], 'u64').v == fget(E, st0, SF['nonce'], 'u64').v))
    # --- what the activation sees after the call
    g = env.get('g')
    if g is None or not is_ok(g):
        P.append(('reading storage after the call does not fail', False))
        return P
    got = g.fields[('Ok', 0)]
    inner = env.get('inner')
    if inner is not None and s.ok is True:
        P.append(('writes made by a re-entrant inner activation are visible to the outer one after the call returns',
                  z3.Or(ro, word_is(E, got, view(inner, kt2)))))
    else:
        # not re-entered, or the call failed (its effects were reverted): the view is the activation's own
        same = key_eq(kt, kt2)
        own = view(st0, kt2)
        vl = word_limbs(E, env['v'])
        exp = vl if (same is True or implied(ctx, same)) else (own if (same is False or implied(ctx, b_not(same))) else [z3.If(same, a_, b_) for a_, b_ in zip(vl, own)])
        P.append(('after a call that left no trace (not re-entered, reverted or failed) the activation reads its own write and otherwise the stored slots', word_is(E, got, exp)))
    return P


# ---- tombstones: a self-destructed contract lives until the top-level message ends, then it is empty ----------------

def tomb_view(E, st):
    SF = SFe()
    t = E.deref(fget(E, st, SF['tombstone'], 'Option<Tombstone>'))
    n, v = variant(E, t)
    if n != 'Some':
        return None
    tv = E.deref(payload(E, v, 'Some'))
    return fget(E, tv, 0, 'u64').v, fget(E, tv, 1, 'u64').v


def run_load_read(E):
    rt, rtref = setup(E)
    r = call(E, 'load', [rtref])
    E.ctx.env['load_result'] = r
    if not is_ok(r):
        return r, rt
    sysv = r.fields[('Ok', 0)]
    cell = Cell(sysv, 'system')
    k = mk_word(E, 'k')
    E.ctx.env.update(dict(k=k, sys0=sysv, cell=cell))
    g = call(E, 'get_storage', [RefV(cell, (), True), k])
    E.ctx.env['g'] = g
    return g, rt


def props_load_read(E, res):
    env = res.ctx.env
    ctx = res.ctx
    rt = env['rt']
    if res.kind != 'return':
        return [('no panic (%s)' % str(res.info)[:60], False)]
    if not is_ok(env['load_result']) or not is_ok(res.value):
        return [('loading and reading a stored contract does not fail', False)]
    SF, SY = SFe(), SYSF()
    st0 = env['st0']
    tv = tomb_view(E, st0)
    dead = z3.BoolVal(False) if tv is None else z3.Not(z3.And(tv[0] == rt.origin.key, tv[1] == rt.nonce))
    from mirsym.models_fvm import key_term
    got = res.value.fields[('Ok', 0)]
    stored = word_view(E, E.deref(fget(E, st0, SF['contract_state'], CID)), key_term(E, env['k']))
    ro = fget(E, env['sys0'], SY['readonly'], 'bool')
    ro = ro if is_sym(ro) else z3.BoolVal(bool(ro))
    rt_ro = rt.readonly if is_sym(rt.readonly) else z3.BoolVal(bool(rt.readonly))
    P = [('a contract self-destructed in an earlier top-level message is empty: every slot reads zero', z3.Implies(dead, is_zero_word(E, got))),
         ('and it is read-only (nothing can be written to the dead contract)', z3.Implies(dead, ro)),
         ('a contract that is alive - no tombstone, or self-destructed in the current top-level message - keeps working: slots read their stored value',
          z3.Implies(z3.Not(dead), word_is(E, got, stored))),
         ('an alive contract is read-only exactly in a read-only call context', z3.Implies(z3.Not(dead), ro == rt_ro))]
    return P



# ---- the externally observable face of a tombstone: GetBytecode / GetBytecodeHash / GetStorageAt ------------------------------

def run_observe(which):
    def run(E):
        rt, rtref = setup(E)
        rt.state = E.ctx.env['st0']
        if which == 'storage_at':
            k = mk_word(E, 'k')
            E.ctx.env['k'] = k
            GP = LazyV  # params: one-field struct { storage_key: U256 }
            params = StructV('types::GetStorageAtParams', {0: k})
            E.ctx.assume(z3.And(rt.caller.proto == 0, rt.caller.key == 0))
            fn = find_fn(E, EVM, 'storage_at')
            return E.run_function(fn, [rtref, params]), rt
        fn = find_fn(E, EVM, which)
        return E.run_function(fn, [rtref]), rt
    return run


def props_observe(which):
    def props(E, res):
        env = res.ctx.env
        rt = env['rt']
        if res.kind != 'return':
            return [('no panic (%s)' % str(res.info)[:60], False)]
        if not is_ok(res.value):
            return [('observing a stored contract does not fail', False)]
        SF = SFe()
        st0 = env['st0']
        tv = tomb_view(E, st0)
        dead = z3.BoolVal(False) if tv is None else z3.Not(z3.And(tv[0] == rt.origin.key, tv[1] == rt.nonce))
        got = E.deref(res.value.fields[('Ok', 0)])
        if which == 'bytecode':
            inner = E.deref(fget(E, got, 0, 'types::BytecodeReturn')) if got.ty and 'WithCodec' in got.ty else got
            code = E.deref(fget(E, inner, 0, 'Option<Cid>'))
            n, v = variant(E, code)
            if n == 'Some':
                c = E.deref(payload(E, v, 'Some'))
                same = deep_eq(E, c, E.deref(fget(E, st0, SF['bytecode'], CID)))
                return [('a contract that is alive - also one self-destructed in the current top-level message - still serves its code', z3.And(z3.Not(dead), same if is_sym(same) else z3.BoolVal(bool(same))))]
            return [('only a contract self-destructed in an earlier top-level message has no code', dead)]
        if which == 'bytecode_hash':
            def rep(v):
                inner = E.deref(fget(E, E.deref(v), 0, '[u8; 32]'))
                if isinstance(inner, LazyV):
                    return ('stored', inner.name)
                return tuple(zv(x) for x in inner.items)
            stored = rep(fget(E, st0, SF['bytecode_hash'], 'BytecodeHash'))
            g = rep(got)
            return [('an alive contract - also one self-destructed in the current top-level message - still reports its code hash', z3.Implies(z3.Not(dead), z3.BoolVal(g == stored))),
                    ('a contract dead since an earlier message reports the hash of empty code', z3.Implies(dead, z3.BoolVal(g != stored and g[0] != 'stored')))]
        from mirsym.models_fvm import key_term
        val = E.deref(fget(E, got, 0, 'U256'))
        stored = word_view(E, E.deref(fget(E, st0, SF['contract_state'], CID)), key_term(E, env['k']))
        return [('GetStorageAt of a contract dead since an earlier message reads zero', z3.Implies(dead, is_zero_word(E, val))),
                ('GetStorageAt of an alive contract - also one self-destructed in the current message - reads the stored slot', z3.Implies(z3.Not(dead), word_is(E, val, stored)))]
    return props


def run_selfdestruct(E):
    rt, rtref = setup(E, readonly=False)
    sysv = okv(E, call(E, 'load', [rtref]), 'load failed')
    cell = Cell(sysv, 'system')
    xs = Cell(LazyV('xs', 'interpreter::execution::ExecutionState'), 'xs')
    ben = mk_word(E, 'beneficiary')
    E.ctx.env.update(dict(sys0=sysv, cell=cell, balance0=rt.balance, ben=ben))
    SY = SYSF()
    # an alive contract (a dead one is loaded read-only and has no code to run)
    E.ctx.env['was_readonly'] = fget(E, sysv, SY['readonly'], 'bool')
    # CUT (declared): the operand -> EthAddress -> Filecoin address conversions (byte-level; EthAddress layouts are decided
    # by the Kani harnesses c20_ethaddress_*): the beneficiary becomes an arbitrary address
    baddr = E.materialize(ADDR, 'beneficiary_addr')
    E.ctx.env['baddr'] = baddr
    E.cuts['<EthAddress as From>::from'] = lambda E2, c: LazyV('beneficiary_eth', 'fil_actors_evm_shared::address::EthAddress')
    E.cuts['<Address as From>::from'] = lambda E2, c: baddr
    fn = find_fn(E, EVM, 'selfdestruct')
    r = E.run_function(fn, [RefV(xs, (), True), RefV(cell, (), True), E.materialize('usize', 'pc'), ben])
    E.ctx.env['sd_result'] = r
    if not is_ok(r):
        return r, rt
    fl = call(E, 'flush', [RefV(cell, (), True)])
    return fl, rt


def props_selfdestruct(E, res):
    env = res.ctx.env
    ctx = res.ctx
    rt = env['rt']
    if res.kind == 'early':
        return []
    if res.kind != 'return':
        return [('no panic (%s)' % str(res.info)[:60], False)]
    SF, SY = SFe(), SYSF()
    ro = env['was_readonly']
    ro = ro if is_sym(ro) else z3.BoolVal(bool(ro))
    sd = env['sd_result']
    P = []
    if not is_ok(sd):
        P.append(('SELFDESTRUCT fails only when read-only (dead contract) or when the transfer to the beneficiary failed',
                  z3.Or(ro, z3.BoolVal(any(not s.ok for s in rt.sends)))))
        sys1 = env['cell'].value
        t1 = E.deref(fget(E, sys1, SY['tombstone'], 'Option<Tombstone>'))
        t0 = E.deref(fget(E, env['sys0'], SY['tombstone'], 'Option<Tombstone>'))
        P.append(('a failed SELFDESTRUCT leaves no tombstone behind', variant(E, t1)[0] == variant(E, t0)[0]))
        return P
    P.append(('exactly one transfer: the whole balance, as a plain send', len(rt.sends) == 1 and rt.sends[0].ok is True))
    if rt.sends:
        s = rt.sends[0]
        P.append(('the balance is moved to the beneficiary in full', b_and(s.value == env['balance0'], zv(s.method) == 0)))
        P.append(('the transfer goes to the beneficiary', addr_eq(s.to, env['baddr'])))
    if not is_ok(res.value):
        P.append(('the tombstone can be committed', False))
        return P
    st1 = heap_get(E, rt.funcs['state_root'])
    tv = tomb_view(E, st1) if st1 is not None else None
    P.append(('the committed state carries a tombstone of the current top-level message (origin, nonce): alive until that message ends, dead afterwards',
              (z3.And(tv[0] == rt.origin.key, tv[1] == rt.nonce)) if tv is not None else False))
    return P


def run_resurrect(which):
    def run(E):
        rt, rtref = setup(E)
        if which == 'create':
            # the state root is either the empty-array cid of a fresh / placeholder actor or a stored contract state
            if E.ctx.branch(z3.Bool('root_is_empty')):
                rt.funcs['state_root'] = E.prog_const('EMPTY_ARR_CID') if hasattr(E, 'prog_const') else rt.funcs['state_root']
                E.ctx.env['empty_root'] = True
        r = call(E, which, [rtref])
        return r, rt
    return run


def props_resurrect(which):
    def props(E, res):
        env = res.ctx.env
        rt = env['rt']
        if res.kind != 'return':
            return [('no panic (%s)' % str(res.info)[:60], False)]
        st0 = env['st0']
        tv = tomb_view(E, st0)
        dead = z3.BoolVal(False) if tv is None else z3.Not(z3.And(tv[0] == rt.origin.key, tv[1] == rt.nonce))
        P = [('a deployment may take over an existing contract only if it is dead (self-destructed in an earlier message)',
              z3.BoolVal(is_ok(res.value)) == dead)]
        if is_ok(res.value):
            SY = SYSF()
            sysv = res.value.fields[('Ok', 0)]
            P.append(('the resurrected contract starts empty with nonce 1', fget(E, sysv, SY['nonce'], 'u64').v == 1))
        return P
    return props


def build(tier):
    O = []
    from . import evm_guards
    O += [o for o in evm_guards.build_calls(tier) if 'Delegate' in o.name]
    O.append(Obligation('evm.System::load + get_storage [tombstone]', run_load_read, props_load_read,
                        descr='a contract self-destructed in an earlier message reads as empty and is read-only; otherwise (no tombstone or tombstone of the current message) it keeps working',
                        bounds='one load + one read; arbitrary stored state and message (origin, nonce)', max_paths=20000))
    for w, d in (('bytecode', 'GetBytecode'), ('bytecode_hash', 'GetBytecodeHash'), ('storage_at', 'GetStorageAt')):
        O.append(Obligation('evm.%s [tombstone observed from outside]' % d, run_observe(w), props_observe(w),
                            descr='%s over an arbitrary stored contract state: a tombstone of the current top-level message (origin, nonce) leaves the contract fully observable; an older one makes it empty' % d,
                            bounds='one call; arbitrary stored State incl. arbitrary tombstone; arbitrary origin / nonce', max_paths=20000))
    O += evm_guards.build_precompile(tier)
    O.append(Obligation('evm.selfdestruct + flush', run_selfdestruct, props_selfdestruct,
                        descr='SELFDESTRUCT moves the whole balance to the beneficiary and leaves a tombstone of the current message; a failed transfer leaves no tombstone',
                        bounds='one instruction + flush; arbitrary state; the transfer may succeed, fail or hit a syscall error; CUT: operand -> address conversion (beneficiary = arbitrary address)', max_paths=20000))
    O.append(Obligation('evm.System::resurrect', run_resurrect('resurrect'), props_resurrect('resurrect'),
                        descr='resurrect succeeds exactly for a dead contract and yields an empty one', bounds='one call; arbitrary stored state', max_paths=5000, expect_ok=False))
    O.append(Obligation('evm.System: write, STATICCALL out, read back [storage]', run_reentrancy(False, True), props_reentrancy,
                        descr='a pending write is flushed before a read-only nested call too (a re-entrant read-only activation sees it); the own view is kept afterwards',
                        bounds='one load + one write + one read-only call + one read; arbitrary stored state; call outcome: ok / exit code / syscall error', max_paths=200000))
    if tier != 'quick':
        O.append(Obligation('evm.System: write twice, call out, read back [storage]', run_reentrancy(False, False, True), props_reentrancy,
                            descr='as below with two successive writes to the slot before the call (the later value is flushed and read back)',
                            bounds='one load + two writes to one slot + one call + one read', max_paths=400000, wall_s=1500))
    for tr in (False, True):
        O.append(Obligation('evm.System: write, call out, read back [%s]' % ('transient storage' if tr else 'storage'), run_reentrancy(tr), props_reentrancy,
                            descr='pending writes are flushed and visible at call time; after a successful call the view is what a re-entrant activation left; after a failed call or none the own view; read-only activations cannot flush writes',
                            bounds='one load + one write + one call + one read; arbitrary stored state, keys and values (256-bit, four limbs); call outcome: ok / ok with re-entrant state change / exit code / syscall error',
                            max_paths=200000))
    return O
