"""EVM actor support: U256 words are kept in their real representation (four u64 limbs, little-endian limb order), so
the macro-generated uint code of fil_actors_evm_shared::uints runs from its own MIR; only the KAMT root operations
used by System are modelled here."""
import z3
from .engine import model, LAZY_TYPES, VALUE_TYPES
from .values import *
from .models_core import ok, err
from .models_fvm import MapM, load_map, map_of, cid_of, hamt_value_type

WORD = 'fil_actors_evm_shared::uints::U256'


def mk_word(E, name, ty=WORD):
    limbs = []
    for i in range(4):
        v = z3.Int('%s.%d' % (name, i))
        key = ('range', '%s.%d' % (name, i))
        if key not in E.ctx.memo:
            E.ctx.memo[key] = True
            E.ctx.assume(z3.And(v >= 0, v < 2**64))
        limbs.append(IntV(v, 'u64'))
    return StructV(ty, {0: VecV(limbs, '[u64; 4]')})


def word_limbs(E, w):
    w = E.deref(w)
    if isinstance(w, LazyV):
        w = E.materialize(w.ty, w.name)
    arr = E.deref(w.fields[0])
    return [E.deref(x).v for x in arr.items]


def word_int(E, w):
    ls = word_limbs(E, w)
    return ls[0] + ls[1] * 2**64 + ls[2] * 2**128 + ls[3] * 2**192


def word_eq(E, a, b):
    la, lb = word_limbs(E, a), word_limbs(E, b)
    return z3.And(*[x == y for x, y in zip(la, lb)])


LAZY_TYPES['U256'] = lambda E, ty, name: mk_word(E, name, ty)


@model('Kamt::set_root')
def _(E, c):
    m = map_of(E, c.args[0])
    cid = cid_of(E, c.args[1])
    E.store(c.args[0], load_map(E, cid, m.vty or hamt_value_type(c), 'hamt'))
    return ok(UNIT, c.dest_ty)


@model('Kamt::clear')
def _(E, c):
    m = map_of(E, c.args[0])
    E.store(c.args[0], MapM(None, (), m.vty, m.kind, m.kty))
    return UNIT


def _bytecode_hash_empty(E):
    """BytecodeHash::EMPTY is a hex_literal::hex! constant (const-evaluated by rustc through hex_literal::decode): its 32 bytes
    are read from the literal in the current source"""
    import os, re
    from .srcindex import REPO
    src = open(os.path.join(REPO, 'actors/evm/src/state.rs')).read()
    m = re.search(r'pub const EMPTY: Self\s*=\s*Self\(\s*hex_literal::hex!\("([0-9a-fA-F]{64})"\)\s*\)', src)
    if not m:
        raise Inconclusive('BytecodeHash::EMPTY literal not found in actors/evm/src/state.rs')
    bs = bytes.fromhex(m.group(1))
    return StructV('state::BytecodeHash', {0: VecV([IntV(b, 'u8') for b in bs], '[u8; 32]')})


from .engine import EXTERNAL_CONSTS
EXTERNAL_CONSTS['state::BytecodeHash::EMPTY'] = _bytecode_hash_empty
EXTERNAL_CONSTS['BytecodeHash::EMPTY'] = _bytecode_hash_empty
