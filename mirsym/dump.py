"""Regenerates the MIR dumps of /repo crates from the current working tree.

Two printers are used per crate: `-Zunpretty=mir` (primary: bodies, promoted constants, cast kinds) and
`-Zunpretty=stable-mir` (only to recover full closure capture lists, which the classic printer truncates).
Dumps are cached under /verif/.cache/mir keyed by a hash of the crate's sources and of the in-repo crates it
depends on, so an unchanged crate is not recompiled but any edit to /repo forces a fresh dump."""
import hashlib
import os
import subprocess
import sys
import time

REPO = os.environ.get('VERIF_REPO', '/repo')
CACHE = os.environ.get('VERIF_CACHE', '/verif/.cache')

CRATE_DIRS = {
    'fil_actors_runtime': 'runtime', 'fil_actors_evm_shared': 'actors/evm/shared',
    'fil_actor_account': 'actors/account', 'fil_actor_cron': 'actors/cron', 'fil_actor_datacap': 'actors/datacap',
    'fil_actor_eam': 'actors/eam', 'fil_actor_ethaccount': 'actors/ethaccount', 'fil_actor_evm': 'actors/evm',
    'fil_actor_init': 'actors/init', 'fil_actor_market': 'actors/market', 'fil_actor_miner': 'actors/miner',
    'fil_actor_multisig': 'actors/multisig', 'fil_actor_paych': 'actors/paych', 'fil_actor_placeholder': 'actors/placeholder',
    'fil_actor_power': 'actors/power', 'fil_actor_reward': 'actors/reward', 'fil_actor_system': 'actors/system',
    'fil_actor_verifreg': 'actors/verifreg',
}
# in-repo dependencies whose sources influence a crate's MIR
DEPS = {'fil_actor_evm': ['actors/evm/shared'], 'fil_actor_eam': ['actors/evm/shared'],
        'fil_actor_ethaccount': ['actors/evm/shared'], 'fil_actor_miner': [], 'fil_actor_market': [],
        'fil_actor_verifreg': [], 'fil_actor_datacap': []}


def _hash_dir(h, d):
    for root, dirs, files in os.walk(d):
        dirs[:] = sorted(x for x in dirs if x not in ('target', 'tests', '.git', 'benches'))
        for f in sorted(files):
            if f.endswith('.rs') or f == 'Cargo.toml':
                p = os.path.join(root, f)
                h.update(p.encode())
                with open(p, 'rb') as fh:
                    h.update(fh.read())


def source_hash(crate):
    h = hashlib.sha1()
    _hash_dir(h, os.path.join(REPO, CRATE_DIRS[crate]))
    if crate != 'fil_actors_runtime':
        _hash_dir(h, os.path.join(REPO, 'runtime'))
    for d in DEPS.get(crate, []):
        _hash_dir(h, os.path.join(REPO, d))
    for f in ('Cargo.toml', 'Cargo.lock'):
        with open(os.path.join(REPO, f), 'rb') as fh:
            h.update(fh.read())
    return h.hexdigest()[:16]


def dump_crate(crate, log=None):
    """returns (mir_path, smir_path, seconds, cached)"""
    os.makedirs(os.path.join(CACHE, 'mir'), exist_ok=True)
    hsh = source_hash(crate)
    mir = os.path.join(CACHE, 'mir', '%s.%s.mir' % (crate, hsh))
    smir = os.path.join(CACHE, 'mir', '%s.%s.smir' % (crate, hsh))
    if os.path.exists(mir) and os.path.exists(smir) and os.path.getsize(mir) > 0 and os.path.getsize(smir) > 0:
        return mir, smir, 0.0, True
    # keep at most a few recent dumps of this crate (several checkouts may be in use)
    old = sorted((f for f in os.listdir(os.path.join(CACHE, 'mir')) if f.startswith(crate + '.') and f.endswith('.mir')),
                 key=lambda f: os.path.getmtime(os.path.join(CACHE, 'mir', f)))
    for f in old[:-3]:
        for g in (f, f[:-4] + '.smir'):
            try:
                os.unlink(os.path.join(CACHE, 'mir', g))
            except OSError:
                pass
    t = time.time()
    env = dict(os.environ)
    env['CARGO_NET_OFFLINE'] = 'true'
    env.pop('RUSTFLAGS', None)
    env.pop('RUSTUP_TOOLCHAIN', None)
    for kind, out in (('mir', mir), ('stable-mir', smir)):
        cmd = ['cargo', '+nightly', 'rustc', '-p', crate, '--offline', '--lib',
               '--target-dir', os.path.join(CACHE, 'mir_target'), '--',
               '-Zunpretty=' + kind, '-C', 'debug-assertions=off', '-C', 'overflow-checks=on',
               '--cfg', 'verif_dump_%s_%s' % (kind.replace('-', '_'), hsh)]
        with open(out + '.tmp', 'w') as fo:
            p = subprocess.run(cmd, cwd=REPO, env=env, stdout=fo, stderr=subprocess.PIPE, text=True)
        if p.returncode != 0 or os.path.getsize(out + '.tmp') == 0:
            try:
                os.unlink(out + '.tmp')
            except OSError:
                pass
            raise RuntimeError('MIR dump of %s failed (rc=%d):\n%s' % (crate, p.returncode, p.stderr[-3000:]))
        os.rename(out + '.tmp', out)
    return mir, smir, time.time() - t, False


if __name__ == '__main__':
    for c in sys.argv[1:] or list(CRATE_DIRS):
        if c == 'fil_actor_placeholder':
            continue
        r = dump_crate(c)
        print(c, '%.1fs' % r[2], 'cached' if r[3] else 'fresh', os.path.getsize(r[0]))
