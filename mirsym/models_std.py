"""std / indexmap collections (BTreeMap, BTreeSet, HashMap, HashSet, IndexMap, IndexSet) as association lists whose key
aliasing is decided by forking; values live in Cells so `&mut V` handed out by get_mut/entry are ordinary references."""
import z3

from .engine import model, fallback, b_and, b_or, b_not, VALUE_TYPES
from .values import *
from .models_core import (some, none, ok, err, variant, payload, as_iter, iter_obj, ListIter, AS_ITER, AS_ITER_REF, COLLECTORS, VEC_LEN,
                          DEFAULTS, deep_eq, DEEP_EQ, Iter)
from .models_fvm import key_term, key_eq

MAPS = ('BTreeMap', 'HashMap', 'IndexMap')
SETS = ('BTreeSet', 'HashSet', 'IndexSet')
ALL = MAPS + SETS
RX = '(' + '|'.join(ALL) + ')'


class DictM:
    def __init__(self, kind, items=None):
        self.kind = kind
        self.items = items or []     # [keyterm, keyvalue, Cell(value)]

    def is_set(self):
        return self.kind in SETS

    def sorted(self):
        return self.kind.startswith('BTree')

    def clone(self):
        return DictM(self.kind, [[k, kv, Cell(c.value, 'dv')] for (k, kv, c) in self.items])

    def find(self, E, kt):
        for i, it in enumerate(self.items):
            if E.ctx.branch(key_eq(it[0], kt)):
                return i
        return None

    def ordered(self, E):
        if not self.sorted():
            return list(self.items)
        out = []
        for it in self.items:
            pos = len(out)
            while pos > 0:
                if key_lt(E, it[0], out[pos - 1][0]):
                    pos -= 1
                else:
                    break
            out.insert(pos, it)
        self.items = out
        return list(out)

    def __repr__(self):
        return '%s(%d)' % (self.kind, len(self.items))


def key_lt(E, a, b):
    """lexicographic order on key terms (forking)"""
    for x, y in zip(a[1:], b[1:]):
        sym = is_sym(x) or is_sym(y)
        if sym:
            if E.ctx.branch(x < y):
                return True
            if E.ctx.branch(x > y):
                return False
        else:
            if x < y:
                return True
            if x > y:
                return False
    return False


def dict_of(E, v):
    t = E.deref(v)
    if isinstance(t, ObjV) and isinstance(t.obj, DictM):
        return t.obj
    raise Inconclusive('expected a std collection, got %r' % (t,))


for _h in ALL:
    DEFAULTS[_h] = (lambda h: (lambda E, ty: ObjV(DictM(h))))(_h)
    COLLECTORS[_h] = (lambda h: (lambda E, items, ty: _collect(E, h, items)))(_h)


def _collect(E, kind, items):
    d = DictM(kind)
    for it in items:
        if kind in SETS:
            _insert(E, d, it, UNIT)
        else:
            it = E.deref(it)
            _insert(E, d, it.fields[0], it.fields[1])
    return ObjV(d)


def _insert(E, d, k, v):
    kv = E.deref(k)
    kt = key_term(E, kv)
    i = d.find(E, kt)
    if i is None:
        d.items.append([kt, kv, Cell(v, 'dv')])
        return None
    old = d.items[i][2].value
    d.items[i][2].value = v
    return old


@model('re:^' + RX + '::(new|with_capacity|default|with_hasher|with_capacity_and_hasher)$', 're:^<' + RX + ' as Default>::default$')
def _(E, c):
    import re
    kind = re.search(RX, c.callee.canon).group(1)
    return ObjV(DictM(kind))


@model('re:^<' + RX + ' as Clone>::clone$')
def _(E, c):
    return ObjV(dict_of(E, c.args[0]).clone())


@model('re:^' + RX + '::insert$')
def _(E, c):
    d = dict_of(E, c.args[0])
    if d.is_set():
        old = _insert(E, d, c.args[1], UNIT)
        return old is None
    old = _insert(E, d, c.args[1], c.args[2])
    return some(old, c.dest_ty) if old is not None else none(c.dest_ty)


@model('re:^' + RX + '::(get|get_mut|contains_key|contains|remove|shift_remove|swap_remove|get_key_value)$')
def _(E, c):
    d = dict_of(E, c.args[0])
    m = c.callee.idents[-1]
    i = d.find(E, key_term(E, c.args[1]))
    if m in ('contains_key', 'contains'):
        return i is not None
    if i is None:
        return False if (m.endswith('remove') and d.is_set()) else none(c.dest_ty)
    if m in ('get', 'get_mut'):
        if d.is_set():
            return some(RefV(Cell(d.items[i][1], 'dk'), ()), c.dest_ty)
        return some(RefV(d.items[i][2], (), m == 'get_mut'), c.dest_ty)
    if m == 'get_key_value':
        return some(StructV('tuple', {0: RefV(Cell(d.items[i][1], 'dk'), ()), 1: RefV(d.items[i][2], ())}), c.dest_ty)
    it = d.items.pop(i)
    if d.is_set():
        return True
    return some(it[2].value, c.dest_ty)


@model('re:^' + RX + '::(len|is_empty|clear)$')
def _(E, c):
    d = dict_of(E, c.args[0])
    m = c.callee.idents[-1]
    if m == 'len':
        return IntV(len(d.items), 'usize')
    if m == 'is_empty':
        return len(d.items) == 0
    d.items = []
    return UNIT


def _pairs(E, d, by_ref, mut=False):
    out = []
    for (kt, kv, cell) in d.ordered(E):
        if d.is_set():
            out.append(RefV(Cell(kv, 'dk'), ()) if by_ref else kv)
        elif by_ref:
            out.append(StructV('tuple', {0: RefV(Cell(kv, 'dk'), ()), 1: RefV(cell, (), mut)}))
        else:
            out.append(StructV('tuple', {0: kv, 1: cell.value}))
    return out


AS_ITER[DictM] = lambda E, d: ListIter(_pairs(E, d, False))
AS_ITER_REF[DictM] = lambda E, d, mut: ListIter(_pairs(E, d, True, mut))


@model('re:^' + RX + '::(iter|iter_mut|keys|values|values_mut|into_keys|into_values|drain)$',
       're:^<&(mut )?' + RX + ' as IntoIterator>::into_iter$', 're:^<' + RX + ' as IntoIterator>::into_iter$')
def _(E, c):
    d = dict_of(E, c.args[0])
    m = c.callee.idents[-1]
    if m == 'into_iter':
        by_ref = isinstance(c.args[0], RefV) and (c.callee.qself or '').lstrip().startswith('&')
        return iter_obj(ListIter(_pairs(E, d, by_ref, True)))
    if m in ('iter', 'iter_mut'):
        return iter_obj(ListIter(_pairs(E, d, True, m == 'iter_mut')))
    if m == 'keys':
        return iter_obj(ListIter([RefV(Cell(kv, 'dk'), ()) for (_, kv, _c) in d.ordered(E)]))
    if m == 'into_keys':
        return iter_obj(ListIter([kv for (_, kv, _c) in d.ordered(E)]))
    if m in ('values', 'values_mut'):
        return iter_obj(ListIter([RefV(cell, (), m == 'values_mut') for (_, _k, cell) in d.ordered(E)]))
    if m == 'into_values':
        return iter_obj(ListIter([cell.value for (_, _k, cell) in d.ordered(E)]))
    if m == 'drain':
        items = _pairs(E, d, False)
        d.items = []
        return iter_obj(ListIter(items))


class EntryM:
    def __init__(self, d, kt, kv, idx):
        self.d, self.kt, self.kv, self.idx = d, kt, kv, idx


@model('re:^' + RX + '::entry$')
def _(E, c):
    d = dict_of(E, c.args[0])
    kv = E.deref(c.args[1])
    kt = key_term(E, kv)
    return ObjV(EntryM(d, kt, kv, d.find(E, kt)))


@model('re:^Entry::(or_insert|or_default|or_insert_with|or_insert_with_key|and_modify|key)$',
       're:^(btree_map|hash_map|map)::Entry::\\w+$', 're:^entry::Entry::\\w+$')
def _(E, c):
    e = E.deref(c.args[0]).obj
    m = c.callee.idents[-1]
    if m == 'key':
        return RefV(Cell(e.kv, 'ek'), ())
    if m == 'and_modify':
        if e.idx is not None:
            E.call_callable(c.args[1], [RefV(e.d.items[e.idx][2], (), True)])
        return c.args[0]
    if e.idx is None:
        if m == 'or_insert':
            v = c.args[1]
        elif m == 'or_default':
            from .models_core import default_of
            vt = None
            if c.dest_ty:
                vt = strip_refs(c.dest_ty)
            v = default_of(E, vt) if vt else None
            if v is None:
                v = E.do_call(c.frame, '<%s as Default>::default' % vt, [], vt)
        elif m == 'or_insert_with':
            v = E.call_callable(c.args[1], [])
        else:
            v = E.call_callable(c.args[1], [RefV(Cell(e.kv, 'ek'), ())])
        e.d.items.append([e.kt, e.kv, Cell(v, 'dv')])
        e.idx = len(e.d.items) - 1
    return RefV(e.d.items[e.idx][2], (), True)


@model('re:^' + RX + '::(first_key_value|last_key_value|first|last|pop_first|pop_last)$')
def _(E, c):
    d = dict_of(E, c.args[0])
    m = c.callee.idents[-1]
    items = d.ordered(E)
    if not items:
        return none(c.dest_ty)
    it = items[0] if 'first' in m else items[-1]
    if m.startswith('pop'):
        d.items.remove(it)
        return some(it[1] if d.is_set() else StructV('tuple', {0: it[1], 1: it[2].value}), c.dest_ty)
    if d.is_set():
        return some(RefV(Cell(it[1], 'dk'), ()), c.dest_ty)
    return some(StructV('tuple', {0: RefV(Cell(it[1], 'dk'), ()), 1: RefV(it[2], ())}), c.dest_ty)


@model('re:^' + RX + '::(extend)$', 're:^<' + RX + ' as Extend>::extend$')
def _(E, c):
    d = dict_of(E, c.args[0])
    it = as_iter(E, c.args[1])
    while True:
        x = it.next(E)
        if x is None:
            return UNIT
        if d.is_set():
            _insert(E, d, x, UNIT)
        else:
            x = E.deref(x)
            _insert(E, d, x.fields[0], x.fields[1])


@model('re:^' + RX + '::(retain)$')
def _(E, c):
    d = dict_of(E, c.args[0])
    keep = []
    for it in d.ordered(E):
        if d.is_set():
            r = E.call_callable(c.args[1], [RefV(Cell(it[1], 'dk'), ())])
        else:
            r = E.call_callable(c.args[1], [RefV(Cell(it[1], 'dk'), ()), RefV(it[2], (), True)])
        if E.ctx.branch(r):
            keep.append(it)
    d.items = keep
    return UNIT


@model('re:^<' + RX + ' as FromIterator>::from_iter$', 're:^<' + RX + ' as From>::from$')
def _(E, c):
    import re
    kind = re.search(RX, c.callee.canon).group(1)
    it = as_iter(E, c.args[0])
    items = []
    while True:
        x = it.next(E)
        if x is None:
            break
        items.append(x)
    return _collect(E, kind, items)


@model('re:^<' + RX + ' as Index>::index$')
def _(E, c):
    d = dict_of(E, c.args[0])
    i = d.find(E, key_term(E, c.args[1]))
    if i is None:
        raise PathEnd('panic', 'map index: key not found')
    return RefV(d.items[i][2], ())


VALUE_TYPES[DictM] = 'BTreeMap'
VEC_LEN[DictM] = lambda E, d: IntV(len(d.items), 'usize')


# `matches!(entry, Entry::Vacant(_))`: std's map Entry enums list Vacant first, Occupied second
from .engine import SPECIAL_DISCR
SPECIAL_DISCR[EntryM] = lambda E, e: IntV(0 if e.idx is None else 1, 'isize')


@model('re:^VacantEntry::(insert|insert_entry|key|into_key)$', 're:^OccupiedEntry::(get|get_mut|into_mut|insert|key|remove|remove_entry)$',
       're:^(btree_map|hash_map|map|entry)::(VacantEntry|OccupiedEntry)::\\w+$')
def _(E, c):
    e = E.deref(c.args[0])
    e = e.obj if isinstance(e, ObjV) else e
    m = c.callee.idents[-1]
    if m in ('key', 'into_key'):
        return RefV(Cell(e.kv, 'ek'), ()) if m == 'key' else e.kv
    if e.idx is None:
        if m not in ('insert', 'insert_entry'):
            raise Inconclusive('%s on a vacant entry' % m)
        e.d.items.append([e.kt, e.kv, Cell(c.args[1], 'dv')])
        e.idx = len(e.d.items) - 1
        return RefV(e.d.items[e.idx][2], (), True)
    cell = e.d.items[e.idx][2]
    if m in ('get', 'get_mut', 'into_mut'):
        return RefV(cell, (), m != 'get')
    if m == 'insert':
        old = cell.value
        cell.value = c.args[1]
        return old
    if m in ('remove', 'remove_entry'):
        it = e.d.items.pop(e.idx)
        return it[2].value if m == 'remove' else StructV('tuple', {0: it[1], 1: it[2].value})
    raise Inconclusive('entry method %s' % m)
