//! C17 – the data-copy helpers of interpreter/instructions/memory.rs: `copy_to_memory`
//! (CALLDATACOPY / CODECOPY / EXTCODECOPY / RETURNDATACOPY) and `copy_within_memory` (MCOPY).
//! The functions are the VERBATIM current /repo text (build.rs -> memory_shim.rs) running on the
//! real `Memory`, `U256` and `ActorError`.
//!
//! Yellow Paper, CALLDATACOPY (0x37), CODECOPY (0x39), EXTCODECOPY (0x3c):
//!     for all i in {0 .. µs[2]-1}:  µ'm[µs[0] + i] = d[µs[1] + i]  if µs[1] + i < ||d||,  else 0
//! i.e. EVERY byte of the destination window is written; source positions at or beyond the end
//! of the data read as zero, whatever the destination held before.  µ'i = M(µi, µs[0], µs[2])
//! (memory grows to the word-aligned end of the window, and not at all for a zero-length window).
//! `zero_fill = false` is the FEVM-internal variant (call output copy) that leaves the tail alone.
//!
//! EIP-5656 MCOPY: "copying takes place as if an intermediate buffer was used, allowing the
//! destination and source to overlap"; memory is expanded to cover both windows.
//!
//! Sizes (memory pre-size, window offset/length, data length) are ENUMERATED with concrete loop
//! counters as in c18_memory_grow (symbolic sizes turn the 4 KiB page object of `Memory` into a
//! symbolically indexed/`resize`d array); byte contents, the source offset, `zero_fill` and the
//! position that is read back are symbolic.
use super::util::any_u256;
use crate::interpreter::instructions::memory::{copy_to_memory, copy_within_memory};
use crate::interpreter::memory::Memory;
use fil_actors_evm_shared::uints::U256;

const PRE_MAX: usize = 64;
const DATA_MAX: usize = 4;

fn ceil32(n: usize) -> usize {
    (n + 31) / 32 * 32
}

/// Memory of `pre` bytes (0, 32 or 64) whose contents are the symbolic `init[..pre]`.
fn mem_with(pre: usize, init: &[u8; PRE_MAX]) -> Memory {
    let mut m = Memory::default();
    m.grow(pre);
    assert!(m.len() == pre);
    let mut i = 0;
    while i < PRE_MAX {
        if i < pre {
            m[i] = init[i];
        }
        i += 1;
    }
    m
}

/// One concrete geometry, everything else symbolic.
fn copy_to_case(pre: usize, dest_off: usize, dest_size: usize, data_len: usize, src: U256) {
    let init: [u8; PRE_MAX] = kani::any();
    let mut mem = mem_with(pre, &init);
    let data: [u8; DATA_MAX] = kani::any();
    let zero_fill: bool = kani::any();

    let r = copy_to_memory(
        &mut mem,
        U256::from(dest_off as u64),
        U256::from(dest_size as u64),
        src,
        &data[..data_len],
        zero_fill,
    );
    assert!(r.is_ok());

    let end = dest_off + dest_size;
    let want_len = if dest_size == 0 || ceil32(end) <= pre { pre } else { ceil32(end) };
    assert!(mem.len() == want_len);

    let q: usize = kani::any();
    if q < want_len {
        let got = mem[q];
        let old = if q < pre { init[q] } else { 0 };
        if dest_off <= q && q < end {
            let i = (q - dest_off) as u64;
            // µs[1] + i < ||d|| over the integers (no wrap-around of the 256-bit offset)
            let small = src.0[1] == 0 && src.0[2] == 0 && src.0[3] == 0 && src.0[0] < data_len as u64;
            let in_range = small && src.0[0] + i < data_len as u64;
            if in_range {
                assert!(got == data[(src.0[0] + i) as usize]);
            } else if zero_fill {
                assert!(got == 0);
            } else {
                assert!(got == old);
            }
            // the whole source window lies beyond the data while the destination byte is dirty
            kani::cover!(zero_fill && !small && data_len > 0 && q < pre && init[q] == 0xAA);
            kani::cover!(zero_fill && !small && src.0[3] != 0 && q < pre && init[q] == 0xAA);
            kani::cover!(zero_fill && data_len == 0 && q < pre && init[q] == 0xAA);
            // partially in range: byte 0 of the window from the data, a later one zero-filled
            kani::cover!(zero_fill && small && !in_range && q < pre && init[q] == 0xAA && data[0] == 0x55);
            kani::cover!(in_range && i > 0 && src.0[0] > 0 && data[(src.0[0] + i) as usize] == 0x55);
            kani::cover!(!zero_fill && !in_range && q < pre && init[q] == 0xAA);
            kani::cover!(q >= pre); // window in freshly grown memory
        } else {
            assert!(got == old);
            kani::cover!(q < pre && init[q] == 0xAA && q == end && dest_size > 0);
            kani::cover!(q < pre && init[q] == 0xAA && q + 1 == dest_off && dest_size > 0);
        }
    }
}

/// dest_size == 0: nothing changes and nothing grows, for ANY 256-bit destination / source offset.
fn copy_to_empty_case(pre: usize, data_len: usize) {
    let init: [u8; PRE_MAX] = kani::any();
    let mut mem = mem_with(pre, &init);
    let data: [u8; DATA_MAX] = kani::any();
    let dest = any_u256();
    let src = any_u256();
    let zero_fill: bool = kani::any();
    let r = copy_to_memory(&mut mem, dest, U256::zero(), src, &data[..data_len], zero_fill);
    assert!(r.is_ok());
    assert!(mem.len() == pre);
    let q: usize = kani::any();
    if q < pre {
        assert!(mem[q] == init[q]);
        kani::cover!(init[q] == 0xAA && dest.0[3] != 0 && zero_fill);
        kani::cover!(init[q] == 0xAA && dest.0[0] == q as u64 && dest.0[1] == 0 && dest.0[2] == 0 && dest.0[3] == 0);
    }
}

/// 256-bit source offsets that do not fit 64 bits (`min` must not look at the low limb only).
fn big(k: usize) -> U256 {
    match k {
        0 => U256([0, 1, 0, 0]),          // 2^64: low limb 0
        1 => U256([1, 0, 0, 1 << 63]),    // 2^255 + 1: low limb 1
        _ => U256([u64::MAX; 4]),         // 2^256 - 1
    }
}

/// Quick tier: memory of 32 dirty bytes; windows inside it, straddling its end (growth to 64)
/// and entirely beyond it; data of 0 and 4 bytes; source offsets before, at and beyond the end
/// of the data.
#[kani::proof]
#[kani::unwind(70)]
fn c17_copy_to_memory() {
    // (dest_offset, dest_size, data_len, data_offset)
    let cases: [(usize, usize, usize, usize); 11] = [
        (3, 6, 4, 0),  // 4 bytes copied, 2 zero-filled
        (3, 6, 4, 2),  // 2 copied, 4 zero-filled
        (3, 6, 4, 4),  // source window starts exactly at the end of the data
        (3, 6, 4, 5),  // ... and beyond it
        (3, 6, 0, 0),  // empty data
        (3, 6, 0, 7),
        (1, 2, 4, 1),  // entirely in range, nothing to fill
        (28, 8, 4, 1), // window straddles the end of memory: growth to 64
        (28, 8, 4, 9),
        (40, 3, 4, 3), // window beyond the end of memory
        (0, 1, 4, 4),
    ];
    let mut c = 0;
    while c < 11 {
        copy_to_case(32, cases[c].0, cases[c].1, cases[c].2, U256::from(cases[c].3 as u64));
        c += 1;
    }
    let mut k = 0;
    while k < 3 {
        copy_to_case(32, 3, 6, 4, big(k));
        k += 1;
    }
    copy_to_empty_case(32, 4);
    copy_to_empty_case(0, 0);
    kani::cover!(c == 11 && k == 3);
}

/// Thorough tier: more geometries (pre-size 0 / 32 / 64, window length up to 8, data length
/// 0..4, every source offset 0..=data_len+1 and the three 256-bit ones).
#[kani::proof]
#[kani::unwind(70)]
fn c17_copy_to_memory_wide() {
    let pres: [usize; 3] = [0, 32, 64];
    let win: [(usize, usize); 4] = [(0, 8), (27, 5), (31, 2), (60, 4)];
    let mut p = 0;
    while p < 3 {
        let mut w = 0;
        while w < 4 {
            let mut d = 0;
            while d <= DATA_MAX {
                let mut o = 0;
                while o <= d + 1 {
                    copy_to_case(pres[p], win[w].0, win[w].1, d, U256::from(o as u64));
                    o += 1;
                }
                d += 2;
            }
            copy_to_case(pres[p], win[w].0, win[w].1, 3, big(w % 3));
            w += 1;
        }
        copy_to_empty_case(pres[p], 3);
        p += 1;
    }
    kani::cover!(p == 3);
}

/// MCOPY through `copy_within_memory(memory, dest, src, size)`, one concrete geometry.
fn mcopy_case(pre: usize, dest: usize, src: usize, size: usize) {
    let init: [u8; PRE_MAX] = kani::any();
    let mut mem = mem_with(pre, &init);
    let r = copy_within_memory(
        &mut mem,
        U256::from(dest as u64),
        U256::from(src as u64),
        U256::from(size as u64),
    );
    assert!(r.is_ok());
    let need = if ceil32(src + size) > ceil32(dest + size) { ceil32(src + size) } else { ceil32(dest + size) };
    let want_len = if need > pre { need } else { pre };
    assert!(mem.len() == want_len);

    let q: usize = kani::any();
    if q < want_len {
        // reference: the byte at q comes out of an intermediate buffer filled from the OLD memory
        // (zero beyond its old end)
        let from = if dest <= q && q < dest + size { src + (q - dest) } else { q };
        let want = if from < pre { init[from] } else { 0 };
        assert!(mem[q] == want);
        // overlapping forwards (dest > src) and backwards (dest < src), byte really moved
        kani::cover!(dest > src && dest < src + size && q >= dest && q < dest + size && q < src + size && want == 0xAA && init[q] == 0x55);
        kani::cover!(dest < src && src < dest + size && q >= src && q < dest + size && want == 0xAA && init[q] == 0x55);
        kani::cover!(want_len > pre && q >= pre && want == 0xAA);
        kani::cover!(from >= pre && q < pre && init[q] == 0x55); // zeros read from the grown source
    }
}

#[kani::proof]
#[kani::unwind(70)]
fn c17_copy_within_memory() {
    // (pre, dest, src, size)
    let cases: [(usize, usize, usize, usize); 8] = [
        (32, 0, 1, 8),   // overlap, dest < src
        (32, 1, 0, 8),   // overlap, dest > src
        (32, 4, 4, 5),   // identical windows
        (32, 20, 2, 6),  // disjoint
        (32, 30, 0, 4),  // destination straddles the end: growth to 64
        (32, 0, 28, 8),  // source straddles the end: growth, zeros copied in
        (32, 36, 30, 5), // both beyond / straddling
        (0, 3, 0, 2),    // empty memory
    ];
    let mut c = 0;
    while c < 8 {
        mcopy_case(cases[c].0, cases[c].1, cases[c].2, cases[c].3);
        c += 1;
    }
    kani::cover!(c == 8);
}

// ---- EXPERIMENTS (to be removed)
#[kani::proof]
#[kani::unwind(70)]
fn x1() {
    copy_to_case(32, 3, 6, 4, U256::from(2u64));
    kani::cover!(true);
}
#[kani::proof]
#[kani::unwind(70)]
fn x4() {
    let mut c = 0;
    while c < 4 {
        copy_to_case(32, 3, 6, 4, U256::from(c as u64));
        c += 1;
    }
    kani::cover!(true);
}
#[kani::proof]
#[kani::unwind(70)]
fn x8() {
    let mut c = 0;
    while c < 8 {
        copy_to_case(32, 3, 6, 4, U256::from(c as u64));
        c += 1;
    }
    kani::cover!(true);
}
#[kani::proof]
#[kani::unwind(70)]
fn x4g() {
    let mut c = 0;
    while c < 4 {
        copy_to_case(32, 28, 8, 4, U256::from(c as u64));
        c += 1;
    }
    kani::cover!(true);
}
