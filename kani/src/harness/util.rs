//! Shared helpers for the harnesses: symbolic U256 construction, limb-wise
//! comparison and bit-level views used by the independent oracles.
use fil_actors_evm_shared::uints::U256;

/// Fully symbolic 256-bit word: four unconstrained u64 limbs, limb 0 = least significant.
#[inline(always)]
pub fn any_u256() -> U256 {
    U256([kani::any(), kani::any(), kani::any(), kani::any()])
}

/// Limb-wise equality (`[u64;4] == [u64;4]` compiles to a 32-byte memcmp loop).
#[inline(always)]
pub fn same(a: &U256, l: [u64; 4]) -> bool {
    a.0[0] == l[0] && a.0[1] == l[1] && a.0[2] == l[2] && a.0[3] == l[3]
}

/// Bit `i` (0 = least significant) of a little-endian limb array; 0 for i >= 256.
#[inline(always)]
pub fn bit(l: &[u64; 4], i: usize) -> bool {
    if i >= 256 { false } else { (l[i / 64] >> (i % 64)) & 1 == 1 }
}

// ---------------------------------------------------------------- stack helpers (C17 stack ops, C18)
use crate::interpreter::stack::Stack;

pub const MAXV: usize = 8;

pub fn any_vals<const N: usize>() -> [U256; N] {
    let mut v = [U256([0; 4]); N];
    let mut i = 0;
    while i < N {
        v[i] = any_u256();
        i += 1;
    }
    v
}

/// Build a stack holding vals[0..d] (vals[0] deepest) through the real checked `push`.
pub fn build<const N: usize>(vals: &[U256; N], d: usize) -> Stack {
    let mut s = Stack::new();
    let mut i = 0;
    while i < N {
        if i < d {
            assert!(s.push(vals[i]).is_ok());
        }
        i += 1;
    }
    assert!(s.len() == d);
    s
}

pub fn eq(a: &U256, b: &U256) -> bool {
    same(a, b.0)
}

/// Pops everything that is left and checks it equals vals[0..d] (top first).
pub fn drain_equals<const N: usize>(s: &mut Stack, vals: &[U256; N], d: usize) {
    assert!(s.len() == d);
    let mut i = N;
    while i > 0 {
        i -= 1;
        if i < d {
            let v = s.pop();
            assert!(v.is_ok());
            assert!(eq(&v.unwrap(), &vals[i]));
        }
    }
    assert!(s.len() == 0);
    assert!(s.is_empty());
}

