//! C20 – EthAddress classification (actors/evm/shared/src/address.rs), FIP-0055 semantics:
//!  * "masked ID address": 0xff ++ 11 x 0x00 ++ 8-byte big-endian actor id;
//!  * precompile / reserved range (prefix 0x00 or 0xfe, 18 zero bytes, index byte):
//!    `is_precompile` is NOT verifiable with Kani 0.68 (sub-array pattern, see c20_ethaddress_null);
//!  * null address: 20 zero bytes.
//! All 2^160 addresses / all 2^64 ids, oracles written byte by byte.
use super::util::*;
use fil_actors_evm_shared::address::EthAddress;
use fil_actors_evm_shared::uints::U256;

fn ref_is_id(b: &[u8; 20]) -> bool {
    let mut ok = b[0] == 0xff;
    let mut i = 1;
    while i < 12 {
        ok = ok && b[i] == 0;
        i += 1;
    }
    ok
}

fn ref_id(b: &[u8; 20]) -> u64 {
    let mut v: u64 = 0;
    let mut i = 12;
    while i < 20 {
        v = (v << 8) | b[i] as u64;
        i += 1;
    }
    v
}

/// from_id(id): layout, round trip through as_id, classification.
#[kani::proof]
#[kani::unwind(22)]
fn c20_ethaddress_from_id() {
    let id: u64 = kani::any();
    let a = EthAddress::from_id(id);
    assert!(ref_is_id(&a.0));
    assert!(ref_id(&a.0) == id);
    assert!(a.is_id());
    match a.as_id() {
        Some(x) => assert!(x == id),
        None => assert!(false),
    }
    assert!(!a.is_null());
    kani::cover!(id == 0x0102030405060708 && a.0[12] == 1 && a.0[19] == 8);
    kani::cover!(id == 0);
}

/// as_id / is_id on ALL 20-byte values: Some(id) iff byte0 == 0xff and bytes 1..12 are zero;
/// id = big-endian bytes 12..20; from_id(as_id(a)) == a (injective embedding).
#[kani::proof]
#[kani::unwind(22)]
fn c20_ethaddress_as_id() {
    let b: [u8; 20] = kani::any();
    let a = EthAddress(b);
    let expect = ref_is_id(&b);
    assert!(a.is_id() == expect);
    match a.as_id() {
        Some(x) => {
            assert!(expect && x == ref_id(&b));
            let back = EthAddress::from_id(x);
            let k: usize = kani::any();
            kani::assume(k < 20);
            assert!(back.0[k] == b[k]);
        }
        None => assert!(!expect),
    }
    kani::cover!(expect && b[15] == 0x77);
    kani::cover!(!expect && b[0] == 0xff && b[5] == 1);
    kani::cover!(!expect && b[0] == 0xfe);
}

/// is_null on ALL 20-byte values (true iff all 20 bytes are zero), `null()`, `AsRef<[u8]>`, and
/// disjointness of the null and the masked-ID class.
///
/// NOT covered: `is_precompile` – its body uses a sub-array pattern binding
/// (`let [prefix, middle @ .., _index] = self.0`) which Kani 0.68 cannot compile
/// ("Sub-array binding is not currently supported", kani issue #707): every path through it
/// is reported as a failed unsupported-construct check, so no verdict can be produced.
#[kani::proof]
#[kani::unwind(22)]
fn c20_ethaddress_null() {
    let b: [u8; 20] = kani::any();
    let a = EthAddress(b);
    let mut all_zero = true;
    let mut i = 0;
    while i < 20 {
        all_zero = all_zero && b[i] == 0;
        i += 1;
    }
    assert!(a.is_null() == all_zero);
    if a.is_id() {
        assert!(!a.is_null());
    }
    if a.is_null() {
        assert!(!a.is_id() && a.as_id().is_none());
    }
    let z = EthAddress::null();
    assert!(z.is_null());
    let k: usize = kani::any();
    kani::assume(k < 20);
    assert!(z.0[k] == 0);
    let r: &[u8] = a.as_ref();
    assert!(r.len() == 20 && r[k] == b[k]);
    kani::cover!(all_zero);
    kani::cover!(!all_zero && b[0] == 0 && b[19] == 1 && a.0[7] == 0);
}

/// EVM word <-> address: `From<U256>` keeps the LOW 20 bytes (EVM: addresses are the low 160
/// bits of a word), `as_evm_word` zero-extends; round trip is the identity on addresses.
#[kani::proof]
#[kani::unwind(34)]
fn c20_ethaddress_evm_word() {
    let w = any_u256();
    let a = EthAddress::from(w);
    let k: usize = kani::any();
    kani::assume(k < 20);
    // byte k counted from the least significant end of the word is a.0[19 - k]
    let expect = (w.0[k / 8] >> (8 * (k % 8))) as u8;
    assert!(a.0[19 - k] == expect);
    let back = a.as_evm_word();
    assert!(back.0[0] == w.0[0] && back.0[1] == w.0[1]);
    assert!(back.0[2] == (w.0[2] & 0xffff_ffff) && back.0[3] == 0);
    kani::cover!(k == 17 && expect == 0xee && w.0[3] != 0);
}
